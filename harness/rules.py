""" Shared helpers for the rule-language properties (C01, C03, C07): rendering abstract condition
    trees to rule text, materialising scenes as real features/hits. No oracle in here.
"""

from .common import import_repo

import_repo()

from antismash.common.hmm_rule_parser import rule_parser  # noqa: E402
from antismash.common.hmm_rule_parser.structures import ProfileHit  # noqa: E402
from antismash.common.secmet.test.helpers import DummyCDS  # noqa: E402

from . import build  # noqa: E402


def render(node: dict, top: bool = True, doubled: bool = False) -> str:
    """ abstract condition tree -> rule condition text (parenthesising every nested group).
        doubled: the same conditions spelled with double negations outside cds(): x as `not (not x)`, not x as
        `not (not (not x))` - "not" is plain negation, so the meaning is the same """
    neg = "not " if node["neg"] else ""
    kind = node["k"]
    if doubled and kind in ("id", "score", "min", "cds"):
        plain = render(dict(node, neg=False), top=True)
        return f"not (not (not {plain}))" if node["neg"] else f"not (not {plain})"
    if kind == "id":
        return neg + node["p"]
    if kind == "score":
        return f"{neg}minscore({node['p']}, {node['s']})"
    if kind == "min":
        return f"{neg}minimum({node['s']}, [{', '.join(node['opts'])}])"
    if kind == "cds":
        return f"{neg}cds({render(node['args'][0], top=True)})"
    joiner = " and " if kind == "and" else " or "
    text = joiner.join(render(child, top=False, doubled=doubled) for child in node["args"])
    if node["neg"]:
        return f"not ({text})"
    return text if top else f"({text})"


def rule_text(name: str, cond: dict, cutoff: int, neighbourhood: int, *, extenders: dict = None,
              superiors: list = None, category: str = "cat", doubled: bool = False) -> str:
    text = f"RULE {name} CATEGORY {category} "
    if superiors:
        text += f"SUPERIORS {', '.join(superiors)} "
    text += f"CUTOFF {cutoff} NEIGHBOURHOOD {neighbourhood} CONDITIONS {render(cond, doubled=doubled)}"
    if extenders:
        text += f" EXTENDERS {render(extenders)}"
    return text


def scale_loc(loc: dict, scale: int) -> dict:
    return {"parts": [[s * scale, e * scale] for s, e in loc["parts"]], "strand": loc["strand"]}


def gene_name(index: int) -> str:
    return f"g{index + 1}"


def features(scene: dict, scale: int = 1) -> dict:
    """ scene -> {gene name: DummyCDS} """
    out = {}
    for idx, loc in enumerate(scene["locs"]):
        name = gene_name(idx)
        out[name] = DummyCDS(location=build.loc(scale_loc(loc, scale)), locus_tag=name)
    return out


def hits(scene: dict) -> dict:
    """ scene -> {gene name: [ProfileHit]} (genes without hits are absent, as in the pipeline) """
    out = {}
    for idx, gene_hits in enumerate(scene["hits"]):
        if gene_hits:
            name = gene_name(idx)
            out[name] = [ProfileHit(name, hit["p"], float(hit["s"]), 1e-5) for hit in gene_hits]
    return out


def parse_rule(text: str, profiles, categories=("cat",), existing=None):
    parser = rule_parser.Parser(text, set(profiles), set(categories), existing_rules=existing)
    return parser.rules
