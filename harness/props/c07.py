""" C07 - detection is invariant under origin rotation and rule order.

    spec: Detect.tla + Ring!Shift (Detect_MC checks on the model that rotation and rule order do not change anchors,
    chains or the reference protoclusters); binding: differential replay of the real pipeline
    (detect -> add protoclusters -> candidate clusters -> regions) on a circular record and on the same record
    re-indexed at other origins, and with permuted / thinned rulesets; Detect_Trace (op "meta") decides equality of
    the gene-level views, using its own rotation of the scene.
"""

import itertools
import random

from .. import tlc
from ..batch import run_batches
from . import c03

EMPTY_RUN = {"protos": [], "cands": [], "regions": []}


def rotate_loc(loc, k, length):
    """ the spec's Shift: same bases rotated by k, same transcription order """
    fwd = loc["parts"][::-1] if loc["strand"] == -1 else loc["parts"]
    walk = [(x + k) % length for s, e in fwd for x in range(s, e)]
    if len(walk) == length:
        return loc
    parts = []
    start = prev = walk[0]
    for pos in walk[1:]:
        if pos != prev + 1:
            parts.append([start, prev + 1])
            start = pos
        prev = pos
    parts.append([start, prev + 1])
    if loc["strand"] == -1:
        parts.reverse()
    return {"parts": parts, "strand": loc["strand"]}


def rotate_scene(scene, k):
    out = dict(scene)
    out["locs"] = [rotate_loc(loc, k, scene["L"]) for loc in scene["locs"]]
    return out


def interleaved_cores_case(rng):
    """ a ring with two protoclusters of different rules whose cores interleave (x1 y1 x2 [y2]), a third one further on,
        and the origins that fall into and between the genes of the interleaved cores """
    length = rng.choice([41, 60])
    at = rng.randrange(0, length)
    leaf = c03._leaf  # pylint: disable=protected-access
    layout = [(0, "a"), (2, "b"), (4, "a")] + ([(6, "b")] if rng.random() < 0.5 else []) + [(rng.randrange(14, 20), "c")]
    locs, hits = [], []
    for offset, profile in layout:
        strand = rng.choice([1, -1])
        locs.append(rotate_loc({"parts": [[0, 1]], "strand": strand}, (at + offset) % length, length))
        hits.append([{"p": profile, "s": 60}])
    order = sorted(range(len(locs)), key=lambda i: (min(p[0] for p in locs[i]["parts"]), locs[i]["parts"]))
    scene = {"L": length, "circ": True, "cutoff": 0, "locs": [locs[i] for i in order], "hits": [hits[i] for i in order]}
    rules = [{"name": "r1", "cutoff": 6, "nbhd": rng.choice([1, 2]), "cond": leaf("a"), "hasExt": False, "ext": leaf("a"), "sup": []},
             {"name": "r2", "cutoff": 5, "nbhd": rng.choice([1, 2]), "cond": leaf("b"), "hasExt": False, "ext": leaf("a"), "sup": []},
             {"name": "r3", "cutoff": 2, "nbhd": rng.choice([1, 3]), "cond": leaf("c"), "hasExt": False, "ext": leaf("a"), "sup": []}]
    ks = sorted({(length - at - cut) % length for cut in range(0, 8)} - {0}) + [rng.randrange(1, length)]
    return {"scene": scene, "rules": rules, "scale": rng.choice([1, 1000]), "ks": sorted(set(ks)), "orders": [["r3", "r2", "r1"]]}


def _run(scene, rules, scale):
    from .. import detect as D
    try:
        out = D.full_run(scene, rules, scale)
        out["exc"] = ""
        return out
    except Exception as err:  # pylint: disable=broad-except
        out = dict(EMPTY_RUN)
        out["exc"] = type(err).__name__ + ":" + str(err)[:60].replace('"', "'")
        return out


def _thin(rules, names):
    kept = []
    for name in names:
        rule = dict(next(r for r in rules if r["name"] == name))
        rule["sup"] = [s for s in rule["sup"] if s in names]
        kept.append(rule)
    return kept


def valid_order(rules, names):
    """ a rule file must define a rule's SUPERIORS before the rule itself """
    position = {name: idx for idx, name in enumerate(names)}
    by_name = {r["name"]: r for r in rules}
    return all(position[sup] < position[name] for name in names for sup in by_name[name]["sup"] if sup in position)


def observe(case):
    scene, rules, scale = case["scene"], case["rules"], case["scale"]
    base = _run(scene, rules, scale)
    rotations = []
    for k in case["ks"]:
        run = _run(rotate_scene(scene, k), rules, scale)
        run["k"] = k
        rotations.append(run)
    orders = []
    for names in case["orders"]:
        run = _run(scene, _thin(rules, names), scale)
        orders.append({"names": names, "exc": run["exc"], "protos": run["protos"]})
    return {"id": case["id"], "op": "meta", "scene": scene, "rules": rules, "base": base, "rotations": rotations, "orders": orders}


def observe_many(cases):
    special = {"selections": observe_selections, "motif": observe_motif}
    return [special.get(case.get("op"), observe)(case) for case in cases]


MOTIF_ORF = "ATGTGGAAATGGAAAGGCTAA"      # M W K W K G *


def _revcomp(text):
    return text[::-1].translate(str.maketrans("ACGT", "TGCA"))


def observe_motif(case):
    """ find_motif_around_anchor on a ring rotated by every k of the case: a background without start codons, one anchor
        gene (either strand) and one planted ORF with the motif W.W (either strand) """
    import re
    from ..common import import_repo
    import_repo()
    from .. import build as B, project as P
    from antismash.common.secmet.test.helpers import DummyCDS, DummyRecord
    from antismash.detection.hmm_detection.dynamic_profiles._utils import find_motif_around_anchor
    length = case["L"]
    rng = random.Random(case["bg"])
    base = [rng.choice("CG") for _ in range(length)]
    orf = case["orf"]
    text = MOTIF_ORF if orf["strand"] == 1 else _revcomp(MOTIF_ORF)
    start = orf["parts"][0][0]
    for offset, letter in enumerate(text):
        base[(start + offset) % length] = letter
    event = {"id": case["id"], "op": "motif", "L": length, "anchor": case["anchor"], "orf": orf, "reach": case["reach"], "runs": []}
    for k in case["ks"]:
        run = {"k": k, "exc": "", "found": []}
        try:
            seq = "".join(base[(pos - k) % length] for pos in range(length))
            record = DummyRecord(seq=seq, circular=True)
            where = rotate_loc(case["anchor"], k, length)
            size = sum(e - s for s, e in where["parts"])
            anchor = DummyCDS(location=B.loc(where), locus_tag="anchor", translation="M" + "A" * (size // 3 - 1))
            record.add_cds_feature(anchor)
            found = find_motif_around_anchor(record, anchor, re.compile("W.W"), max_dist=case["reach"], min_len=5)
            run["found"] = [P.loc(cds.location) for cds in found]
        except Exception as err:  # pylint: disable=broad-except
            run["exc"] = type(err).__name__ + ":" + str(err)[:60].replace('"', "'")
        event["runs"].append(run)
    return event


def observe_selections(case):
    """ the shipped rules asked for several times in one (fresh) process state: all of them first, then the selections of
        the case (lists of positions in the rule file; empty = all) """
    import types
    from ..common import import_repo
    import_repo()
    from antismash.detection import hmm_detection
    event = {"id": case["id"], "op": "selections", "taxon": case["taxon"], "sels": [], "exc": ""}
    hmm_detection._RULESETS.clear()     # pylint: disable=protected-access   (what a new process starts with)
    try:
        def ask(names):
            options = types.SimpleNamespace(hmmdetection_strictness=case["strictness"], hmmdetection_limit_to_rules=list(names),
                                            hmmdetection_limit_to_categories=[], taxon=case["taxon"],
                                            hmmdetection_fungal_cutoff_multiplier=case["mult"][0],
                                            hmmdetection_fungal_neighbourhood_multiplier=case["mult"][1])
            ruleset = hmm_detection.get_ruleset(options)
            return {"names": list(names), "rules": [{"name": rule.name, "cutoff": int(rule.cutoff), "nbhd": int(rule.neighbourhood)}
                                                    for rule in ruleset.rules]}
        full = ask([])
        event["sels"].append(full)
        every = [rule["name"] for rule in full["rules"]]
        for positions in case["selections"]:
            event["sels"].append(ask([every[pos % len(every)] for pos in positions]))
    except Exception as err:  # pylint: disable=broad-except
        event["exc"] = type(err).__name__ + ":" + str(err)[:60].replace('"', "'")
        event["sels"] = []
    finally:
        hmm_detection._RULESETS.clear()     # pylint: disable=protected-access
    return event


def observe_pipeline_many(cases):
    return [{"id": case["id"], "op": "pipeline", "scene": case["scene"], "rules": case["rules"],
             "run": _run(case["scene"], case["rules"], 1)} for case in cases]


def call_text(case):
    return (f"harness.detect.full_run(scene, rules, scale={case['scale']}) vs the same on props.c07.rotate_scene(scene, k) for k in "
            f"{case['ks']} and with rulesets {case['orders']}; scene={case['scene']}")


def run(ctx):
    rng = random.Random(ctx.seed)
    mc = tlc.run("Detect_MC", c03.MC_CFG % (3 if ctx.quick else 10), ctx.workdir, dump=True, coverage=True, timeout=3000)
    ctx.model(mc, "Detect_MC: OrderFree and RotationFree hold for the oracle", vacuity=["PickRule", "PickGene", "PickPair"])
    rules, genes = c03.load_catalogues(mc)
    keys = sorted(k for k in genes if k[1])
    cases = []
    count = 500 if ctx.quick else 12000
    for key in keys:
        for _ in range(count):
            scene = c03.make_scene(rng, genes, key, rng.choice([2, 3, 3, 4]))
            ruleset = c03.make_ruleset(rng, rules, rng.choice([2, 3, 3]))
            length = key[0]
            ks = list(range(1, length)) if not ctx.quick else sorted(rng.sample(range(1, length), 4))
            names = [r["name"] for r in ruleset]
            orders = [list(p) for p in itertools.permutations(names)][1:]
            orders += [list(c) for size in range(1, len(names)) for c in itertools.combinations(names, size)]
            orders = [order for order in orders if valid_order(ruleset, order)]
            if ctx.quick and len(orders) > 5:
                orders = rng.sample(orders, 5)
            cases.append({"scene": scene, "rules": ruleset, "scale": rng.choice([1, 1, 1000]), "ks": ks, "orders": orders})
    for _ in range(400 if ctx.quick else 8000):
        scene = c03.random_big_scene(rng)
        ruleset = c03.scale_rules(rng, c03.make_ruleset(rng, rules, rng.choice([2, 3])))
        names = [r["name"] for r in ruleset]
        orders = [names[::-1]] + [list(c) for c in itertools.combinations(names, len(names) - 1)]
        orders = [order for order in orders if valid_order(ruleset, order)]
        ks = sorted(rng.sample(range(1, scene["L"]), 4)) if scene["circ"] else []
        cases.append({"scene": scene, "rules": ruleset, "scale": rng.choice([1, 1000]), "ks": ks, "orders": orders})
    # genes in two exons anywhere on the ring: some rotation puts the origin into an intron
    for _ in range(250 if ctx.quick else 6000):
        scene = c03.random_big_scene(rng, spliced=True)
        ruleset = c03.scale_rules(rng, c03.make_ruleset(rng, rules, rng.choice([2, 3])))
        names = [r["name"] for r in ruleset]
        orders = [order for order in [names[::-1]] if valid_order(ruleset, order)]
        ks = sorted(rng.sample(range(1, scene["L"]), 6))
        cases.append({"scene": scene, "rules": ruleset, "scale": rng.choice([1, 1000]), "ks": ks, "orders": orders})
    # cores of two rules interleaving, a third protocluster further on, the origin moved through the interleaved cores
    for _ in range(40 if ctx.quick else 1000):
        cases.append(interleaved_cores_case(rng))
    # a chain of anchoring genes with extender genes on both sides (C03's family), the origin moved into every gene of two
    # bases and next to every gene
    for _ in range(120 if ctx.quick else 3000):
        made = c03.extenders_around_origin(rng)
        if made is None:
            continue
        length = made["scene"]["L"]
        cuts = set()
        for loc in made["scene"]["locs"]:
            first = loc["parts"][-1][0] if loc["strand"] == -1 else loc["parts"][0][0]
            cuts.update({(length - first - 1) % length, (length - first) % length, (length - first - 2) % length})
        ks = sorted(cuts - {0})
        if ctx.quick and len(ks) > 8:
            ks = sorted(rng.sample(ks, 8))
        cases.append({"scene": made["scene"], "rules": made["rules"], "scale": made["scale"], "ks": ks, "orders": []})
    # the shipped rule files: what a rule is does not depend on which other rules were asked for in the same process
    selection_cases = []
    for _ in range(16 if ctx.quick else 200):
        selections = []
        for _ in range(rng.choice([2, 3, 4])):
            selections.append([] if rng.random() < 0.3 else sorted(rng.sample(range(0, 60), rng.choice([1, 2, 3, 5]))))
        taxon = rng.choice(["fungi", "fungi", "bacteria"])
        selection_cases.append({"op": "selections", "taxon": taxon, "strictness": rng.choice(["strict", "relaxed", "loose"]),
                                "mult": rng.choice([[1.0, 1.5], [1.5, 0.5], [2.0, 2.0]]), "selections": selections})
    # the code-based profiles search small ORFs around an anchor gene: same answer for every origin
    motif_cases = []
    for _ in range(60 if ctx.quick else 1500):
        length = rng.choice([300, 360, 420])
        size = rng.choice([30, 45, 60])
        a_start = rng.randrange(0, length)
        a_strand = rng.choice([1, -1])
        anchor = rotate_loc({"parts": [[0, size]], "strand": a_strand}, a_start, length)
        reach = rng.choice([40, 60, 90])
        gap = rng.choice([5, reach - 25, reach - 21, reach + 3, reach + 30, reach + 60])
        side = rng.choice([1, -1])
        o_start = (a_start + size + gap) % length if side == 1 else (a_start - gap - len(MOTIF_ORF)) % length
        orf = rotate_loc({"parts": [[0, len(MOTIF_ORF)]], "strand": rng.choice([1, -1])}, o_start, length)
        ks = {0, (length - a_start - size // 2) % length, (length - a_start) % length, rng.randrange(1, length),
              rng.randrange(1, length)}
        if rng.random() < 0.3:
            ks.add((length - o_start - 10) % length)     # an origin that cuts the small ORF itself (known finding P28)
        ks = sorted(ks)
        motif_cases.append({"op": "motif", "L": length, "anchor": anchor, "orf": orf, "reach": reach, "ks": ks,
                            "bg": rng.randrange(10 ** 6)})
    for idx, case in enumerate(cases):
        case["id"] = idx
    for idx, case in enumerate(selection_cases):
        case["id"] = 10 ** 8 + idx
    for idx, case in enumerate(motif_cases):
        case["id"] = 2 * 10 ** 8 + idx
    samples = {}
    runs = sum(1 + len(case["ks"]) + len(case["orders"]) for case in cases)

    def describe(case, event):
        if event["base"]["protos"]:
            ctx.nontrivial_case(case["id"])
        if case["id"] in (0, len(cases) - 1):
            samples[case["id"]] = {"scene": case["scene"], "rules": [(r["name"], r["cutoff"], r["nbhd"], r["sup"]) for r in case["rules"]],
                                   "rotations": case["ks"], "rule_orders": case["orders"], "base": event["base"]}
        return {"op": "meta", "input": {k: case[k] for k in ("scene", "rules", "scale", "ks", "orders")},
                "call": call_text(case), "features": c03.features(case), "sampled": True,
                "observed": {"base": event["base"], "rotations": [(r["k"], r["exc"], r["protos"]) for r in event["rotations"]][:3]}}

    ctx.evaluations = runs
    ctx.notes["pipeline_runs"] = runs
    run_batches(ctx, "Detect_Trace", cases, observe_many, describe, batch=8000, min_per_shard=100)

    def describe_selections(case, event):
        return {"op": "selections", "input": {k: case[k] for k in ("op", "taxon", "strictness", "mult", "selections")}, "sampled": True,
                "call": f"props.c07.observe_selections({ {k: case[k] for k in ('taxon', 'strictness', 'mult', 'selections')} })  # "
                        "hmm_detection.get_ruleset(options) for all rules, then limited to the rules at these positions of the rule file",
                "features": ["taxon_" + case["taxon"]],
                "observed": {"exc": event["exc"], "rules_per_selection": [len(sel["rules"]) for sel in event["sels"]]}}

    run_batches(ctx, "Detect_Trace", selection_cases, observe_many, describe_selections, batch=8000, min_per_shard=4)
    ctx.notes["ruleset_selections"] = len(selection_cases)

    def describe_motif(case, event):
        return {"op": "motif", "input": {k: case[k] for k in ("op", "L", "anchor", "orf", "reach", "ks", "bg")}, "sampled": True,
                "call": f"props.c07.observe_motif({ {k: case[k] for k in ('L', 'anchor', 'orf', 'reach', 'ks', 'bg')} })  # "
                        "dynamic_profiles._utils.find_motif_around_anchor(record rotated by k, anchor, re.compile('W.W'), max_dist=reach, min_len=5)",
                "features": ["anchor_reverse" if case["anchor"]["strand"] == -1 else "anchor_forward"] + (
                    ["orf_cut_by_the_origin_at_some_rotation"]
                    if any(len(rotate_loc(case["orf"], k, case["L"])["parts"]) > 1 for k in case["ks"]) else []),
                "observed": [(run["k"], run["exc"], run["found"]) for run in event["runs"]]}

    run_batches(ctx, "Detect_Trace", motif_cases, observe_many, describe_motif, batch=8000, min_per_shard=8)
    ctx.notes["motif_searches"] = sum(len(case["ks"]) for case in motif_cases)
    # end-to-end conformance of the base runs: the composed stage relations (Detect, Candidates, RecordSM regions)
    pipeline_cases = [dict(case, id=case["id"] + len(cases)) for case in cases if case["scale"] == 1]

    def describe_pipeline(case, event):
        return {"op": "pipeline", "input": {k: case[k] for k in ("scene", "rules", "scale")}, "sampled": True,
                "call": f"harness.detect.full_run(scene={case['scene']}, rules=<see replay>, scale=1)",
                "features": c03.features(case), "observed": event["run"]}

    run_batches(ctx, "Pipeline_Trace", pipeline_cases, observe_pipeline_many, describe_pipeline, batch=8000, min_per_shard=100)
    ctx.notes["end_to_end_runs_validated"] = len(pipeline_cases)
    for ident in sorted(samples):
        ctx.sample(samples[ident])
    ctx.exhaustive = False
    ctx.rule = ("seeded rulesets (2-3 TLC-enumerated rules, SUPERIORS, EXTENDERS) x layouts (2-4 TLC-enumerated gene locations on rings "
                "of 8/10/12 bases, plus larger random records); each is detected at the original origin, at 4 (quick) / all "
                "(thorough) other origins - cutting through genes, cores and neighbourhoods - and with every permutation and "
                "sub-selection of the rules; non-trivial = the base run reports at least one protocluster")
    ctx.assumptions += ["rotation equality is required only when every region of both runs spans less than half the record",
                        "hits enter as data through DynamicProfile"]


def replay(ctx, record):
    case = dict(record["input"])
    case["id"] = 0
    if record["op"] in ("pipeline", "detect", "candidates", "regions") and "ks" not in case:
        event = observe_pipeline_many([case])[0]
        ctx.validate("Pipeline_Trace", [event], {0: {"op": record["op"], "input": record["input"]}})
        ctx.failures = [f for f in ctx.failures if f["clause"] == record["clause"]]
        return
    if record["op"] == "motif":
        ctx.validate("Detect_Trace", [observe_motif(case)], {0: {"op": "motif", "input": record["input"]}})
        ctx.failures = [f for f in ctx.failures if f["clause"] == record["clause"]]
        return
    if record["op"] == "selections":
        ctx.validate("Detect_Trace", [observe_selections(case)], {0: {"op": "selections", "input": record["input"]}})
        ctx.failures = [f for f in ctx.failures if f["clause"] == record["clause"]]
        return
    event = observe(case)
    ctx.validate("Detect_Trace", [event], {0: {"op": "meta", "input": record["input"], "call": call_text(case)}})
    ctx.failures = [f for f in ctx.failures if f["clause"] == record["clause"]]
