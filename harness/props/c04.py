""" C04 - location algebra agrees with the set-of-bases model on line and ring.

    spec: Ring.tla; model run: Ring_MC (oracle self-consistency on all ordered pairs; its level-1
    states are the location universe); binding: every location / ordered pair / triple of the
    universe plus seeded random larger inputs is run through the real functions and the bundle of
    observed results is decided by TLC in Ring_Trace.
"""

import itertools
import random

from .. import tlc, tlaval
from ..batch import run_batches
from .. import project as P

MC_CFG = """SPECIFICATION Spec
CONSTANTS
  LenSet = {%(lens)s}
  WithIntrons = %(introns)s
  WithCrossIntrons = %(cross)s
INVARIANT DistSymmetric
INVARIANT OverlapIffShareBase
INVARIANT DistZero
INVARIANT ContainsSubset
INVARIANT ConnectSat
INVARIANT ConnectIdem
INVARIANT ConnectSym
INVARIANT ExtendSat
INVARIANT ShiftSat
INVARIANT RotationInvariant
"""


def _touches_origin(loc, length):
    starts = [p[0] for p in loc["parts"]]
    ends = [p[1] for p in loc["parts"]]
    fwd = loc["parts"][::-1] if loc["strand"] == -1 else loc["parts"]
    bridging = any(fwd[i][0] > fwd[i + 1][0] for i in range(len(fwd) - 1))
    return bridging or 0 in starts or length in ends


def _features(length, circ, locs):
    feats = ["circular" if circ else "linear"]
    for loc in locs:
        fwd = loc["parts"][::-1] if loc["strand"] == -1 else loc["parts"]
        if any(fwd[i][0] > fwd[i + 1][0] for i in range(len(fwd) - 1)):
            feats.append("operand_spans_origin")
        if len(loc["parts"]) > 1:
            feats.append("operand_multi_part")
        if loc["strand"] == -1:
            feats.append("operand_reverse_strand")
    return sorted(set(feats))


# ---- observation (runs in worker processes) ---------------------------------------------------
def _observe(case: dict) -> dict:
    from .. import build as B
    from antismash.common.secmet import locations as L
    length, circ = case["L"], case["circ"]
    wrap = length if circ else None
    event = dict(case)
    op = case["op"]
    if op == "pair":
        a, b = B.loc(case["a"]), B.loc(case["b"])
        event["ov"] = P.result(lambda: bool(L.locations_overlap(a, b)), False)
        event["co"] = P.result(lambda: bool(L.location_contains_other(a, b)), False)
        # the other spellings of the same question: the method and the `in` operator of the location classes
        event["cos"] = P.result(lambda: [bool(a.contains(b)), bool(b in a)], [False, False])
        event["di"] = P.result(lambda: int(L.get_distance_between_locations(a, b, wrap)), 0)
        # one location on its own (a gene in several exons, a location over the origin) is connected to its span, too
        event["cn1"] = P.result(lambda: L.connect_locations([B.loc(case["a"])], wrap), P.DUMMY_LOC, P.loc)
        event["cn"] = P.result(lambda: L.connect_locations([B.loc(case["a"]), B.loc(case["b"])], wrap), P.DUMMY_LOC, P.loc)
        event["cn2"] = P.result(lambda: L.connect_locations([B.loc(case["b"]), B.loc(case["a"])], wrap), P.DUMMY_LOC, P.loc)
        if event["cn"]["exc"]:
            event["cnt"] = {"exc": "", "v": P.DUMMY_LOC}
            event["cnt"]["v"] = event["cn"]["v"]
        else:
            first = event["cn"]["v"]
            event["cnt"] = P.result(lambda: L.connect_locations([B.loc(first)], wrap), P.DUMMY_LOC, P.loc)
    elif op == "list":
        locs = case["locs"]
        event["cn"] = P.result(lambda: L.connect_locations([B.loc(x) for x in locs], wrap), P.DUMMY_LOC, P.loc)
        perms = []
        for perm in itertools.islice(itertools.permutations(locs), 1, 24):
            perms.append(P.result(lambda perm=perm: L.connect_locations([B.loc(x) for x in perm], wrap),
                                  P.DUMMY_LOC, P.loc))
        event["perms"] = perms
        if event["cn"]["exc"]:
            event["cnt"] = {"exc": "", "v": event["cn"]["v"]}
        else:
            first = event["cn"]["v"]
            event["cnt"] = P.result(lambda: L.connect_locations([B.loc(first)], wrap), P.DUMMY_LOC, P.loc)
    elif op == "unary":
        a = B.loc(case["a"])
        event["rt"] = P.result(lambda: L.location_from_string(str(a)), P.DUMMY_LOC, P.loc)
        event["br"] = P.result(lambda: bool(L.location_bridges_origin(B.loc(case["a"]))), False)
        event["fw"] = P.result(lambda: L.make_forwards(a), P.DUMMY_LOC, P.loc)
    elif op == "extend":
        rec = B.record(length, circ)
        event["ret"] = P.result(lambda: rec.extend_location(B.loc(case["a"]), case["d"]), P.DUMMY_LOC, P.loc)
    elif op == "shift":
        kwargs = {"wrap_point": length} if circ else {}
        event["ret"] = P.result(lambda: L.offset_location(B.loc(case["a"]), case["k"], **kwargs), P.DUMMY_LOC, P.loc)
    else:
        raise ValueError(op)
    return event


def _observe_many(cases):
    return [_observe(case) for case in cases]


def call_text(case: dict) -> str:
    wrap = case["L"] if case["circ"] else None
    op = case["op"]
    if op == "pair":
        return (f"a=build.loc({case['a']}); b=build.loc({case['b']}); locations_overlap(a,b); location_contains_other(a,b); "
                f"get_distance_between_locations(a,b,{wrap}); connect_locations([a,b],{wrap})")
    if op == "list":
        return f"connect_locations([build.loc(x) for x in {case['locs']}], {wrap})"
    if op == "extend":
        return f"DummyRecord(seq='A'*{case['L']}, circular={case['circ']}).extend_location(build.loc({case['a']}), {case['d']})"
    if op == "shift":
        return f"offset_location(build.loc({case['a']}), {case['k']}" + (f", wrap_point={wrap})" if wrap else ")")
    return f"location_from_string(str(x)); location_bridges_origin(x); make_forwards(x) with x=build.loc({case['a']})"


def case_input(case: dict) -> dict:
    return {k: v for k, v in case.items() if k not in ("id",)}


# ---- case construction -------------------------------------------------------------------------
def _universe_cases(ctx, universes, triples_per_ring, rng):
    cases = []
    for (length, circ), locs in sorted(universes.items()):
        spans = [x for x in locs if len(x["parts"]) == 1 or (len(x["parts"]) == 2 and x["strand"] == 1 and
                                                               x["parts"][0][1] == length and x["parts"][1][0] == 0)]
        for a in locs:
            cases.append({"op": "unary", "L": length, "circ": circ, "a": a})
            for d in range(0, length + 1):
                cases.append({"op": "extend", "L": length, "circ": circ, "a": a, "d": d})
            if circ:
                for k in range(-length, length + 1):
                    cases.append({"op": "shift", "L": length, "circ": True, "M": length, "a": a, "k": k})
            else:
                low = min(p[0] for p in a["parts"])
                for k in range(-low, length + 1):
                    cases.append({"op": "shift", "L": length, "circ": False, "M": 4 * length, "a": a, "k": k})
            for b in locs:
                cases.append({"op": "pair", "L": length, "circ": circ, "a": a, "b": b})
        fwd_spans = [x for x in spans if x["strand"] == 1]
        all_triples = list(itertools.combinations(fwd_spans, 3))
        if triples_per_ring is not None and len(all_triples) > triples_per_ring:
            ctx.exhaustive_triples = False
            all_triples = rng.sample(all_triples, triples_per_ring)
        for triple in all_triples:
            cases.append({"op": "list", "L": length, "circ": circ, "locs": list(triple)})
    return cases


def _random_loc(rng, length, circ):
    kind = rng.random()
    strand = rng.choice([1, -1])
    if kind < 0.45 or not circ and kind < 0.7:
        s = rng.randrange(0, length)
        e = rng.randrange(s + 1, length + 1)
        return {"parts": [[s, e]], "strand": strand}
    if kind < 0.6 and circ and length >= 12:
        # over the origin in several exons: one or two exons on either side, the inner ones meeting at the origin
        e = rng.randrange(1, 3)
        s = rng.randrange(length - 2, length)
        parts = [[s, length], [0, e]]
        if rng.random() < 0.7:
            first = rng.randrange(length // 2 + 1, s - 2)
            parts.insert(0, [first, rng.randrange(first + 1, s - 1)])
        if rng.random() < 0.7 or len(parts) == 2:
            last = rng.randrange(e + 3, length // 2)
            parts.append([rng.randrange(e + 2, last), last])
    elif kind < 0.75 and circ:
        s = rng.randrange(1, length)
        e = rng.randrange(1, s + 1)
        parts = [[s, length], [0, e]]
    else:
        cuts = sorted(rng.sample(range(0, length + 1), 4 if length >= 4 else 2))
        parts = [[cuts[i], cuts[i + 1]] for i in range(0, len(cuts), 2)]
    if strand == -1:
        parts = parts[::-1]
    return {"parts": parts, "strand": strand}


def _random_cases(rng, count):
    cases = []
    for _ in range(count):
        length = rng.choice([9, 10, 11, 12, 16, 25, 40, 61])
        circ = rng.random() < 0.7
        pick = rng.random()
        if pick < 0.5:
            cases.append({"op": "pair", "L": length, "circ": circ, "a": _random_loc(rng, length, circ),
                          "b": _random_loc(rng, length, circ), "sampled": True})
        elif pick < 0.7:
            locs = [_random_loc(rng, length, circ) for _ in range(rng.randrange(2, 5))]
            cases.append({"op": "list", "L": length, "circ": circ, "locs": locs, "sampled": True})
        elif pick < 0.85:
            cases.append({"op": "extend", "L": length, "circ": circ, "a": _random_loc(rng, length, circ),
                          "d": rng.randrange(0, length + 2), "sampled": True})
        else:
            a = _random_loc(rng, length, circ)
            low = min(p[0] for p in a["parts"])
            k = rng.randrange(-length, length + 1) if circ else rng.randrange(-low, length)
            cases.append({"op": "shift", "L": length, "circ": circ, "M": length if circ else 4 * length, "a": a, "k": k,
                          "sampled": True})
    return cases


def _load_universes(run):
    universes = {}
    for state in tlaval.read_dump(run.dump_path):
        if state["stage"] != 1:
            continue
        key = (state["R"]["L"], state["R"]["circ"])
        universes.setdefault(key, []).append({"parts": [list(p) for p in state["a"]["parts"]], "strand": state["a"]["strand"]})
    for locs in universes.values():
        locs.sort(key=lambda x: (len(x["parts"]), x["parts"], x["strand"]))
    return universes


def run(ctx):
    rng = random.Random(ctx.seed)
    if ctx.quick:
        params = {"lens": "6, 7", "introns": "TRUE", "cross": "FALSE"}
        triples, randoms = 1500, 6000
    else:
        params = {"lens": "5, 6, 7, 8, 9", "introns": "TRUE", "cross": "TRUE"}
        triples, randoms = None, 200000
    ctx.exhaustive_triples = True
    mc = tlc.run("Ring_MC", MC_CFG % params, ctx.workdir, dump=True, coverage=True, timeout=3000)
    ctx.model(mc, "Ring_MC oracle self-consistency on all ordered pairs", vacuity=["PickA", "PickB"])
    universes = _load_universes(mc)
    if not ctx.quick:
        # pairs over the full universe explode for L >= 8: pairs are exhaustive for L <= 7, and for larger rings over
        # spans and origin-spanning locations only
        for key in list(universes):
            if key[0] >= 8:
                universes[key] = [x for x in universes[key] if len(x["parts"]) == 1 or _touches_origin(x, key[0])]
    cases = _universe_cases(ctx, universes, triples, rng)
    cases += _random_cases(rng, randoms)
    for idx, case in enumerate(cases):
        case["id"] = idx
    samples = {}
    keys = ("ov", "co", "cos", "di", "cn1", "cn", "cn2", "cnt", "ret", "rt", "br", "fw", "perms")

    def describe(case, event):
        locs = [case[k] for k in ("a", "b") if k in case] + case.get("locs", [])
        if any(_touches_origin(x, case["L"]) for x in locs):
            ctx.nontrivial_case(case["id"])
        event.pop("sampled", None)
        entry = {"op": case["op"], "input": case_input(case), "call": call_text(case),
                 "features": _features(case["L"], case["circ"], locs), "sampled": case.get("sampled", False),
                 "observed": {k: v for k, v in event.items() if k in keys}}
        if case["id"] in (0, len(cases) // 3, len(cases) - 1):
            samples[case["id"]] = {"case": entry["input"], "call": entry["call"], "observed": entry["observed"]}
        return entry

    ctx.evaluations = len(cases)
    run_batches(ctx, "Ring_Trace", cases, _observe_many, describe, batch=60000, min_per_shard=400)
    for ident in sorted(samples):
        ctx.sample(samples[ident])
    ctx.exhaustive = ctx.exhaustive_triples
    ctx.rule = ("TLC enumerates every simple, origin-spanning and two-exon location of either strand for the listed record "
                "lengths (linear and circular); every location (x all offsets and extension distances), every ordered pair "
                "and span triples are executed against the real functions, plus seeded random inputs on longer records; "
                "non-trivial = at least one operand touches or spans the wrap point (start 0, end L, or origin-bridging)")
    ctx.notes["universe_sizes"] = {f"L={k[0]},circ={k[1]}": len(v) for k, v in sorted(universes.items())}
    ctx.notes["random_cases"] = randoms
    ctx.assumptions += ["fuzzy positions (<, >) and UnknownPosition are outside the model",
                        "strand-less (None) locations are only exercised as results"]


def replay(ctx, record):
    case = dict(record["input"])
    case["id"] = 0
    event = _observe(case)
    event.pop("sampled", None)
    by_id = {0: {"op": case["op"], "input": record["input"], "call": call_text(case)}}
    # model states for the evidence-free replay path
    res = ctx.validate("Ring_Trace", [event], by_id)
    ctx.failures = [f for f in ctx.failures if f["op"] == record["op"] and f["clause"] == record["clause"]]
    return res
