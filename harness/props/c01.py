""" C01 - rule conditions evaluate to their documented boolean meaning.

    spec: RuleAst.tla (Eval / Reasons transcribed from the rule-language documentation);
    model run: RuleAst_MC (trees x layouts catalogue, oracle self-consistency, leaky-minscore negative control);
    binding: every TLC-enumerated tree on every layout with seeded hit tables, plus random deeper trees on
    larger scenes, goes through the real Parser + DetectionRule.detect for every gene; RuleAst_Trace decides.
"""

import random

from .. import tlc, tlaval
from ..batch import run_batches

MC_CFG = """SPECIFICATION Spec
CONSTANTS
  ScenesPerTree = %d
INVARIANT FlipNegates
INVARIANT ReasonsAreOwnHits
INVARIANT RotationInvariant
INVARIANT LocalEqualsGlobalWhenAlone
"""
NEG_CFG = """SPECIFICATION Spec
CONSTANTS
  ScenesPerTree = 6
INVARIANT LeakyAgrees
"""
PROFILES = ["a", "b", "c", "d", "e"]


def _node(k, neg=False, p="", s=0, opts=(), args=()):
    return {"k": k, "neg": neg, "p": p, "s": s, "opts": list(opts), "args": list(args)}


def _norm_tree(node):
    return {"k": node["k"], "neg": node["neg"], "p": node["p"], "s": node["s"], "opts": list(node["opts"]),
            "args": [_norm_tree(x) for x in node["args"]]}


def _norm_scene(scene):
    return {"L": scene["L"], "circ": scene["circ"], "cutoff": scene["cutoff"],
            "locs": [{"parts": [list(p) for p in loc["parts"]], "strand": loc["strand"]} for loc in scene["locs"]],
            "hits": [[{"p": h["p"], "s": h["s"]} for h in hs] for hs in scene["hits"]]}


# ---- random deeper trees (trace direction) ------------------------------------------------------------
def _has_positive(node):
    if node["neg"]:
        return False
    if node["k"] in ("id", "score", "min"):
        return True
    return any(_has_positive(x) for x in node["args"])


def _random_leaf(rng, local):
    pick = rng.random()
    neg = rng.random() < 0.3
    if pick < 0.55 or (local and pick < 0.75):
        return _node("id", neg, rng.choice(PROFILES))
    if pick < 0.8 or local:
        return _node("score", neg, rng.choice(PROFILES), rng.choice([30, 50, 60, 80]))
    opts = sorted(rng.sample(PROFILES, rng.randrange(2, 5)))
    return _node("min", neg, s=rng.randrange(1, len(opts) + 2), opts=opts)


def _random_tree(rng, depth, local=False):
    from ..rules import render
    if depth == 0 or rng.random() < 0.25:
        return _random_leaf(rng, local)
    pick = rng.random()
    if not local and pick < 0.25:
        for _ in range(20):
            body = _random_tree(rng, min(depth - 1, 2), local=True)
            if body["k"] in ("and", "or") and not body["neg"]:
                return _node("cds", rng.random() < 0.25, args=[body])
        return _random_leaf(rng, local)
    kind = "and" if pick < 0.65 else "or"
    args, seen = [], set()
    for _ in range(rng.randrange(2, 4)):
        child = _random_tree(rng, depth - 1, local)
        if child["k"] == kind and not child["neg"]:
            continue    # would be flattened into the same chain: keep trees canonical
        text = render(child, top=False)
        if text in seen:
            continue
        seen.add(text)
        args.append(child)
    if len(args) < 2:
        return _random_leaf(rng, local)
    return _node(kind, (kind == "or") and rng.random() < 0.25, args=args)


def _random_scene(rng):
    circ = rng.random() < 0.6
    length = rng.choice([30, 40, 57])
    cutoff = rng.choice([3, 5, 8])
    locs, hits = [], []
    for _ in range(rng.randrange(3, 7)):
        size = rng.randrange(1, 5)
        start = rng.randrange(0, length)
        strand = rng.choice([1, -1])
        if start + size + 2 <= length and rng.random() < 0.3:
            # a spliced gene that stays on one side of the origin
            parts = [[start, start + 1], [start + 2, start + 2 + size]]
            if strand == -1:
                parts.reverse()
        elif start + size <= length:
            parts = [[start, start + size]]
        elif circ:
            parts = [[start, length], [0, start + size - length]]
            if strand == -1:
                parts.reverse()
        else:
            parts = [[length - size, length]]
        locs.append({"parts": parts, "strand": strand})
        gene_hits = [{"p": p, "s": rng.choice([20, 50, 55, 90])} for p in PROFILES if rng.random() < 0.3]
        hits.append(gene_hits)
    return {"L": length, "circ": circ, "cutoff": cutoff, "locs": locs, "hits": hits}


# ---- observation -----------------------------------------------------------------------------------
def _observe(case):
    from .. import rules as R
    tree, scene, scale = case["tree"], case["scene"], case["scale"]
    res = []
    try:
        text = R.rule_text("r1", tree, scene["cutoff"], 1, doubled=bool(case.get("doubled")))
        try:
            rule = R.parse_rule(text, PROFILES)[0]
        except ValueError as err:
            # (the parser asks for a requirement that is written without "not": spelled with double negations a rule
            # may have none left - then the plain spelling is used)
            if not case.get("doubled") or "positive requirement" not in str(err):
                raise
            rule = R.parse_rule(R.rule_text("r1", tree, scene["cutoff"], 1), PROFILES)[0]
        if scale == 1:
            rule.cutoff = scene["cutoff"]
        feats = R.features(scene, scale)
        hits = R.hits(scene)
        origin = scene["L"] * scale if scene["circ"] else None
    except Exception as err:  # pylint: disable=broad-except
        res = [{"exc": "setup:" + type(err).__name__, "met": False, "matches": []} for _ in scene["locs"]]
        return {"id": case["id"], "op": "detect", "tree": tree, "scene": scene, "res": res, "pipe": res}
    for idx in range(len(scene["locs"])):
        try:
            out = rule.detect(R.gene_name(idx), feats, hits, circular_origin=origin)
            res.append({"exc": "", "met": bool(out.met), "matches": sorted(out.matches)})
        except Exception as err:  # pylint: disable=broad-except
            res.append({"exc": type(err).__name__, "met": False, "matches": []})
    # the same question as the pipeline asks it: apply_cluster_rules on a real record hands each gene that has hits, with
    # the neighbours it has gathered for the rule's cutoff, to the rule; what the rule answered there is recorded
    # (genes without hits are not asked: their entry repeats the direct answer)
    pipe = [dict(entry) for entry in res]
    try:
        from .. import detect as D
        from antismash.common.hmm_rule_parser import cluster_prediction
        from antismash.common.secmet.errors import SecmetInvalidInputError
        try:
            record = D.make_record(scene, scale)
        except SecmetInvalidInputError:
            # (two genes of the scene at exactly the same place: no record holds such a pair)
            return {"id": case["id"], "op": "detect", "tree": tree, "scene": scene, "res": res, "pipe": res}
        asked = {}
        real_detect = rule.detect

        def recording(cds_name, *args, **kwargs):
            out = real_detect(cds_name, *args, **kwargs)
            asked[cds_name] = {"exc": "", "met": bool(out.met), "matches": sorted(out.matches)}
            return out
        rule.detect = recording
        try:
            cluster_prediction.apply_cluster_rules(record, hits, [rule])
        finally:
            rule.detect = real_detect
        for idx in range(len(scene["locs"])):
            if scene["hits"][idx]:
                pipe[idx] = asked.get(R.gene_name(idx), {"exc": "NotAsked", "met": False, "matches": []})
    except Exception as err:  # pylint: disable=broad-except
        pipe = [{"exc": type(err).__name__, "met": False, "matches": []} for _ in scene["locs"]]
    return {"id": case["id"], "op": "detect", "tree": tree, "scene": scene, "res": res, "pipe": pipe}


def _observe_many(cases):
    return [_observe(case) for case in cases]


def _call_text(case):
    from ..rules import rule_text
    return (f"rule = Parser({rule_text('r1', case['tree'], case['scene']['cutoff'], 1, doubled=bool(case.get('doubled')))!r}, set('abcde'), {{'cat'}}).rules[0]; "
            f"scale={case['scale']}; rule.detect(gene, rules.features(scene, scale), rules.hits(scene), "
            f"circular_origin={'L*scale' if case['scene']['circ'] else None}) for scene={case['scene']}")


def _features(case):
    feats = ["circular" if case["scene"]["circ"] else "linear"]

    def walk(node, inside_cds):
        if node["k"] == "score" and inside_cds:
            feats.append("minscore_inside_cds")
        if node["k"] == "min":
            feats.append("minimum")
        for child in node["args"]:
            walk(child, inside_cds or node["k"] == "cds")
    walk(case["tree"], False)
    if any(len(loc["parts"]) > 1 and min(p[0] for p in loc["parts"]) == 0 and max(p[1] for p in loc["parts"]) == case["scene"]["L"]
           and case["scene"]["circ"] for loc in case["scene"]["locs"]):
        feats.append("gene_spans_origin")
    if any(len(loc["parts"]) > 1 and not (min(p[0] for p in loc["parts"]) == 0 and max(p[1] for p in loc["parts"]) == case["scene"]["L"])
           for loc in case["scene"]["locs"]):
        feats.append("spliced_gene")
    return sorted(set(feats))


def _nontrivial(case):
    """ some gene has a neighbour in a different position class, i.e. not every gene is alone """
    scene = case["scene"]
    return sum(1 for h in scene["hits"] if h) >= 2


def run(ctx):
    rng = random.Random(ctx.seed)
    per_tree = 4 if ctx.quick else 16
    mc = tlc.run("RuleAst_MC", MC_CFG % per_tree, ctx.workdir, dump=True, coverage=True, timeout=3000)
    ctx.model(mc, "RuleAst_MC oracle self-consistency", vacuity=["PickTree", "PickLayout", "PickScene"])
    neg = tlc.run("RuleAst_MC", NEG_CFG, ctx.workdir, tag="_neg", timeout=1200, workers=1, seed=1)  # sampled model: fixed draw
    ctx.expect_violation(neg, "LeakyAgrees", "leaky minscore inside cds is not the documented meaning (P6 on the model)")
    trees, layouts = [], []
    for state in tlaval.read_dump(mc.dump_path, keep=lambda text: "stage = 1" in text or "stage = 3" in text):
        if state["stage"] == 1:
            trees.append(_norm_tree(state["tree"]))
        elif state["stage"] == 3:
            layouts.append(_norm_scene(state["scene"]))
    trees.sort(key=str)
    layouts.sort(key=str)
    gene_hits = [a + b + c for a in ([], [{"p": "a", "s": 40}], [{"p": "a", "s": 60}])
                 for b in ([], [{"p": "b", "s": 30}]) for c in ([], [{"p": "c", "s": 70}])]
    tables = 2 if ctx.quick else 20
    cases = []
    for tree in trees:
        for layout in layouts:
            for _ in range(tables):
                scene = dict(layout)
                scene["hits"] = [rng.choice(gene_hits) for _ in layout["locs"]]
                cases.append({"tree": tree, "scene": scene, "scale": rng.choice([1, 1000]), "sampled": False})
    enumerated = len(cases)
    for _ in range(4000 if ctx.quick else 150000):
        tree = _random_tree(rng, rng.randrange(1, 5))
        if not _has_positive(tree):
            continue
        cases.append({"tree": tree, "scene": _random_scene(rng), "scale": rng.choice([1, 1000]), "sampled": True,
                      "doubled": rng.random() < 0.15})     # the same conditions spelled with double negations
    for idx, case in enumerate(cases):
        case["id"] = idx
    samples = {}

    def describe(case, event):
        if _nontrivial(case):
            ctx.nontrivial_case(case["id"])
        entry = {"op": "detect", "input": {"tree": case["tree"], "scene": case["scene"], "scale": case["scale"],
                                           "doubled": bool(case.get("doubled"))},
                 "call": _call_text(case), "observed": {"direct": event["res"], "through_apply_cluster_rules": event["pipe"]},
                 "features": _features(case), "sampled": case["sampled"]}
        if case["id"] in (0, enumerated // 2, len(cases) - 1):
            samples[case["id"]] = {"rule": entry["call"][:200], "scene": case["scene"], "observed": event["res"]}
        return entry

    ctx.evaluations = len(cases)
    run_batches(ctx, "RuleAst_Trace", cases, _observe_many, describe)
    for ident in sorted(samples):
        ctx.sample(samples[ident])
    ctx.exhaustive = False
    ctx.rule = (f"{len(trees)} TLC-enumerated condition trees (every leaf kind, negation at every node, cds bodies, and/or "
                f"nesting up to 3 operands) x {len(layouts)} TLC-enumerated layouts (inside / exactly at / outside the cutoff, "
                f"overlapping, across the origin, origin-spanning genes, both strands) x {tables} seeded hit tables, at scale 1 "
                "(cutoff set in bases) and 1000 (through CUTOFF kb); plus random trees of depth <= 4 over 5 profiles on 3-6 "
                "genes; every gene of every scene is evaluated; non-trivial = at least two genes carry hits")
    ctx.notes.update({"trees": len(trees), "layouts": len(layouts), "enumerated_cases": enumerated,
                      "random_cases": len(cases) - enumerated})
    ctx.assumptions += ["bitscores are integers in the model", "ancillary_hits are not constrained by C01 (C03 uses them)"]


def replay(ctx, record):
    case = dict(record["input"])
    case["id"] = 0
    event = _observe(case)
    ctx.validate("RuleAst_Trace", [event], {0: {"op": "detect", "input": record["input"], "call": _call_text(case),
                                                 "observed": event["res"]}})
    ctx.failures = [f for f in ctx.failures if f["clause"] == record["clause"]]
