""" C09 - annotations placed inside a gene cover the nucleotides that encode them.

    spec: Translate.tla (on Ring.tla); model run: Translate_MC (generator of genes and protein ranges,
    self-consistency of the constructive oracle, implementation-shaped companions with two negative
    controls); binding: every enumerated gene is materialised on a record with a real seeded DNA sequence
    and every enumerated range is pushed through the real protein->nucleotide paths; the projected
    locations (plus the result of the real extract+translate comparison) are decided by TLC in
    Translate_Trace.  Seeded random genes on longer records are validated the same way.
"""

import random
import warnings

from .. import tlc, tlaval
from .. import trace as tracemod
from ..common import CPUS, MachineryError, canon, chunks, pmap
from .. import project as P

INVARIANTS = ["GeneWellFormed", "CodingIsTheGene", "FrameshiftSat", "SubRunsInsideExons", "SubOrdered",
              "SubRightSize", "SubRunsMaximal", "SubSat", "PartitionTiles", "RelationRefusesNeighbours",
              "SortedDesignOffOrigin", "BridgeAwareDesign", "TtaDesignSingleExon"]

OPS = ("gene", "sub", "convert", "prepeptide", "hmmer", "domain", "motif", "tta")
MAX_RANGES = 30          # one bit per range in the REJECT mask (TLC integers are 32 bit)
FAKE_DB = "/nonexistent/pfam/35.0/Pfam-A.hmm"
FAKE_PROFILE = "C09_profile"


def _plan(length, exons, maxlen, maxintron):
    return {"L": length, "k": exons, "maxlen": maxlen, "maxintron": maxintron}


def _plans(quick: bool):
    """ (plans enumerated by TLC, record lengths on which the callers and the TTA marker are exercised) """
    if quick:
        return [_plan(12, 1, 6, 1), _plan(12, 2, 6, 3), _plan(12, 3, 3, 2)], {12}
    plans = []
    for length in range(12, 19):
        plans += [_plan(length, 1, 6, 1), _plan(length, 2, 6, 3)]
        plans.append(_plan(length, 3, 6, 3) if length == 14 else _plan(length, 3, 3, 2))
    return plans, {12}


def _mc_files(plans):
    wrapper = ("---- MODULE MC_Translate ----\nEXTENDS Translate_MC\nMC_Plans == "
               + tlaval.to_tla(tlaval.TSet(plans)) + "\n====\n")
    return {"MC_Translate.tla": wrapper}


def _mc_cfg(invariants):
    return "SPECIFICATION Spec\nCONSTANT Plans <- MC_Plans\n" + "".join(f"INVARIANT {name}\n" for name in invariants)


# ---- abstract input helpers (input only, never the observed output) ------------------------------
def _bridges(loc: dict) -> bool:
    fwd = loc["parts"][::-1] if loc["strand"] == -1 else loc["parts"]
    return any(fwd[i][0] > fwd[i + 1][0] for i in range(len(fwd) - 1))


def _features(case: dict) -> list:
    loc = case["g"]["loc"]
    total = sum(p[1] - p[0] for p in loc["parts"]) - (case["g"]["cs"] - 1)
    feats = ["circular" if case["circ"] else "linear",
             "gene_multi_part" if len(loc["parts"]) > 1 else "gene_single_part",
             "gene_reverse_strand" if loc["strand"] == -1 else "gene_forward_strand",
             f"codon_start_{case['g']['cs']}"]
    if _bridges(loc):
        feats.append("gene_spans_origin")
    if case["g"]["cs"] > 1:
        feats.append("codon_start_shifted")
    # the parts that hold complete codons (the stretch before the first codon and a ragged last exon aside)
    skip, coding, starts = case["g"]["cs"] - 1, total - total % 3, []
    for part in loc["parts"]:
        size = part[1] - part[0]
        used = max(0, min(size - skip, coding))
        skip = max(0, skip - size)
        if used > 0:
            starts.append(part[0])
            coding -= used
    listed = [p[0] for p in loc["parts"]]
    if loc["strand"] == -1 and ((len(listed) > 1 and listed == sorted(listed)) or (len(starts) > 1 and starts == sorted(starts))):
        feats.append("reverse_parts_ascending")
    if total % 3:
        feats.append("ragged_tail")
    return sorted(feats)


def case_input(case: dict) -> dict:
    return {"L": case["L"], "circ": case["circ"], "g": case["g"], "ranges": case["ranges"]}


def call_text(case: dict) -> str:
    return (f"rec, cds = harness.props.c09.materialise({case_input(case)!r}, seed); "
            "for s, e in ranges: cds.get_sub_location_from_protein_coordinates(s, e); "
            "convert_protein_position_to_dna(s, e, cds.location); Prepeptide(cds.location, ..., leader=tr[:s], "
            "core=tr[s:e], tail=tr[e:]).to_biopython(); hmmer.build_hits / generate_domain_features / "
            "generate_motif_features with a hit at [s,e); TTAResults.new_feature_from_other(cds, 3*s)")


# ---- materialiser + observation (worker processes) --------------------------------------------------
_COMPLEMENT = {"A": "T", "C": "G", "G": "C", "T": "A"}


def materialise(case: dict, seed: int, tta_at=None):
    """ A Record with a seeded random DNA sequence carrying one CDS at the case's location whose reading
        frame (after codon_start) holds ATG + random sense codons, read into antiSMASH the way a GenBank
        feature is (location + /codon_start, translation generated from the record).
        Returns (record, cds, protein the codons were drawn for).
    """
    from .. import build as B
    from Bio.Data import CodonTable
    from Bio.Seq import Seq
    from Bio.SeqFeature import SeqFeature
    from antismash.common.secmet import Record
    from antismash.common.secmet.features import CDSFeature

    rng = random.Random(f"{seed}|{canon(case['g'])}|{case['L']}")
    gene = case["g"]
    raw = B.loc(gene["loc"])
    # transcription order as the location object itself iterates; codon_start drops the first cs-1 bases
    positions = list(raw)[gene["cs"] - 1:]
    residues = len(positions) // 3
    table = CodonTable.unambiguous_dna_by_id[1].forward_table
    sense = sorted(table)
    codons = ["ATG"] + [rng.choice(sense) for _ in range(residues - 1)]
    bases = [rng.choice("ACGT") for _ in range(case["L"])]
    if tta_at is not None:
        # for the TTA scan: leucine codons TTA at the given residues and nowhere else, in no frame of either strand
        codons = ["TTA" if idx in tta_at else ("ATG" if idx == 0 else "GCC") for idx in range(residues)]
        bases = [rng.choice("GC") for _ in range(case["L"])]
    for pos, base in zip(positions, "".join(codons)):
        bases[pos] = base if gene["loc"]["strand"] == 1 else _COMPLEMENT[base]
    record = Record(seq=Seq("".join(bases)), id="c09rec", name="c09rec")
    record.annotations["topology"] = "circular" if case["circ"] else "linear"
    record.annotations["molecule_type"] = "DNA"
    bio = SeqFeature(raw, type="CDS", qualifiers={"locus_tag": ["c09gene"], "codon_start": [str(gene["cs"])]})
    cds = CDSFeature.from_biopython(bio, record=record)
    record.add_cds_feature(cds)
    return record, cds, "".join(table[c] for c in codons)


class _Hsp:  # pylint: disable=too-few-public-methods
    def __init__(self, name, start, end):
        self.query_id = name
        self.query_start = start
        self.query_end = end
        self.hit_id = FAKE_PROFILE
        self.hit_description = "fake hit"
        self.bitscore = 50.
        self.evalue = 1e-10


class _QueryResult:  # pylint: disable=too-few-public-methods
    def __init__(self, hsp):
        self.id = FAKE_PROFILE
        self.hsps = [hsp]


_DUMMY_LT = {"loc": P.DUMMY_LOC, "tr": False}
_DUMMY_PRE = {"hl": False, "leader": P.DUMMY_LOC, "core": P.DUMMY_LOC, "ht": False, "tail": P.DUMMY_LOC, "tr": False}
_DUMMY_CDS = {"kept": P.DUMMY_LOC, "back": P.DUMMY_LOC, "cs": 0, "tr": []}


def _skipped(shape):
    return {"exc": "", "v": shape}


def _observe(case: dict) -> dict:
    from ..common import seed as current_seed
    from antismash.common import hmmer, pfamdb
    from antismash.common.hmmscan_refinement import HMMResult
    from antismash.common.secmet import locations as L
    from antismash.common.secmet.features import Prepeptide
    from antismash.detection.nrps_pks_domains.domain_identification import (
        generate_domain_features, generate_motif_features)
    from antismash.modules.tta.tta import TTAResults

    pfamdb.KNOWN_MAPPINGS.setdefault(FAKE_DB, {FAKE_PROFILE: "PF00001.1"})
    event = {"id": case["id"], "op": "gene", "L": case["L"], "circ": case["circ"], "g": case["g"],
             "all": case["all"], "callers": case["callers"], "tta": case["tta"], "rs": []}
    made = {}

    def build():
        made["rec"], made["cds"], made["prot"] = materialise(case, current_seed())
        cds = made["cds"]
        bio = cds.to_biopython()[0]
        return {"kept": P.loc(cds.location), "back": P.loc(bio.location),
                "cs": int(bio.qualifiers["codon_start"][0]), "tr": [ord(c) for c in cds.translation]}

    event["cds"] = P.result(build, _DUMMY_CDS)
    # what the harness asked for: number of residues and the protein the codons were drawn for
    raw_len = sum(p[1] - p[0] for p in case["g"]["loc"]["parts"])
    event["n"] = (raw_len - (case["g"]["cs"] - 1)) // 3
    if event["cds"]["exc"]:
        event["prot"] = []
        return event
    record, cds, prot = made["rec"], made["cds"], made["prot"]
    event["prot"] = [ord(c) for c in prot]
    seq = record.seq
    whole = cds.translation
    name = cds.get_name()

    def reads(location, expected):
        return str(location.extract(seq).translate()) == expected

    for start, end in case["ranges"]:
        entry = {"s": start, "e": end, "codon": end == start + 1}
        kept = {}

        def sub():
            kept["sub"] = cds.get_sub_location_from_protein_coordinates(start, end)
            return kept["sub"]
        entry["sub"] = P.result(sub, P.DUMMY_LOC, P.loc)
        if entry["sub"]["exc"]:
            entry["tr"] = _skipped(False)
        else:
            entry["tr"] = P.result(lambda: reads(kept["sub"], whole[start:end]), False)
        entry["conv"] = P.result(lambda: [int(x) for x in L.convert_protein_position_to_dna(start, end, cds.location)],
                                 [0, 0])
        if case["callers"]:
            def prepeptide():
                pre = Prepeptide(cds.location, "lanthipeptide", whole[start:end], name, "c09",
                                 leader=whole[:start], tail=whole[end:])
                found = {feat.qualifiers["prepeptide"][0]: feat for feat in pre.to_biopython()}
                out = {"hl": "leader" in found, "ht": "tail" in found, "core": P.loc(found["core"].location),
                       "leader": P.loc(found["leader"].location) if "leader" in found else P.DUMMY_LOC,
                       "tail": P.loc(found["tail"].location) if "tail" in found else P.DUMMY_LOC}
                out["tr"] = (reads(found["core"].location, pre.core)
                             and ("leader" not in found or reads(found["leader"].location, pre.leader))
                             and ("tail" not in found or reads(found["tail"].location, pre.tail)))
                return out
            entry["pre"] = P.result(prepeptide, _DUMMY_PRE)

            def prepeptide_read_back():
                # the same prepeptide after it was written out and read in again (GenBank output, reused results):
                # rebuilt from its core feature, its sections placed once more
                pre = Prepeptide(cds.location, "lanthipeptide", whole[start:end], name, "c09",
                                 leader=whole[:start], tail=whole[end:])
                written = {feat.qualifiers["prepeptide"][0]: feat for feat in pre.to_biopython()}
                again = Prepeptide.from_biopython(written["core"])
                found = {feat.qualifiers["prepeptide"][0]: feat for feat in again.to_biopython()}
                out = {"hl": "leader" in found, "ht": "tail" in found, "core": P.loc(found["core"].location),
                       "leader": P.loc(found["leader"].location) if "leader" in found else P.DUMMY_LOC,
                       "tail": P.loc(found["tail"].location) if "tail" in found else P.DUMMY_LOC}
                out["tr"] = (reads(found["core"].location, again.core)
                             and ("leader" not in found or reads(found["leader"].location, again.leader))
                             and ("tail" not in found or reads(found["tail"].location, again.tail))
                             and (again.core, again.leader, again.tail) == (pre.core, pre.leader, pre.tail))
                return out
            entry["pre2"] = P.result(prepeptide_read_back, _DUMMY_PRE)

            def hmmer_hit():
                hits = hmmer.build_hits(record, [_QueryResult(_Hsp(name, start, end))], 0., 1., FAKE_DB)
                location = L.location_from_string(hits[0].location)
                return {"loc": P.loc(location), "tr": reads(location, hits[0].translation)}
            entry["hm"] = P.result(hmmer_hit, _DUMMY_LT)

            def domain():
                feats = generate_domain_features(cds, [HMMResult("PKS_KS", start, end, 1e-10, 50.)])
                feat = list(feats.values())[0]
                return {"loc": P.loc(feat.location), "tr": reads(feat.location, feat.translation)}
            entry["dom"] = P.result(domain, _DUMMY_LT)

            def motif():
                feat = generate_motif_features(cds, [HMMResult("C1_dual_004-017", start, end, 1e-10, 50.)])[0]
                return {"loc": P.loc(feat.location), "tr": reads(feat.location, feat.translation)}
            entry["mot"] = P.result(motif, _DUMMY_LT)
        else:
            entry["pre"] = _skipped(_DUMMY_PRE)
            entry["pre2"] = _skipped(_DUMMY_PRE)
            entry["hm"] = entry["dom"] = entry["mot"] = _skipped(_DUMMY_LT)
        if case["tta"] and entry["codon"]:
            entry["tta"] = P.result(lambda: TTAResults("c09rec", 0.7, 0.5).new_feature_from_other(cds, 3 * start).location,
                                    P.DUMMY_LOC, P.loc)
        else:
            entry["tta"] = _skipped(P.DUMMY_LOC)
        event["rs"].append(entry)
    # the scan itself (tta.detect) on a gene in one piece: which codons does it mark?  (For genes in several pieces the
    # marker placement is finding P9-tta-multi-exon; the scan is not run on them.)
    planted = sorted({start for start, end in case["ranges"] if end == start + 1})
    event["ttad"] = {"on": False, "exc": "", "v": []}
    if case["tta"] and planted and len(case["g"]["loc"]["parts"]) == 1:
        def scan():
            import types
            from antismash.common.secmet.features import SubRegion
            from antismash.common.secmet.locations import FeatureLocation
            from antismash.modules.tta import tta
            rec2, _, _ = materialise(case, current_seed(), tta_at=set(planted))
            rec2.add_subregion(SubRegion(FeatureLocation(0, case["L"], 1), tool="c09"))
            rec2.create_regions()
            found = tta.detect(rec2, types.SimpleNamespace(tta_threshold=0.0))
            return [feature.location for feature in found.features]
        event["ttad"] = dict(P.result(scan, [], lambda locs: [P.loc(loc) for loc in locs]), on=True)
    return event


def _observe_many(cases):
    from .. import build  # noqa: F401  (imports the tree under test through import_repo)
    import logging
    logging.disable(logging.CRITICAL)
    with warnings.catch_warnings():
        warnings.simplefilter("ignore")
        return [_observe(case) for case in cases]


# ---- case construction ------------------------------------------------------------------------------
def _parse_states(text_blocks):
    out = []
    for block in text_blocks:
        state = tlaval._state(block)  # pylint: disable=protected-access
        if state["stage"] == 0:
            continue
        gene = {"loc": {"parts": [list(p) for p in state["g"]["loc"]["parts"]], "strand": state["g"]["loc"]["strand"]},
                "cs": state["g"]["cs"]}
        out.append((state["stage"], state["R"]["L"], state["R"]["circ"], gene, state["s"], state["e"]))
    return out


def _load_cases(run, caller_lengths):
    """ stage-1 states are the genes, stage-2 states their ranges """
    with open(run.dump_path, encoding="utf-8") as handle:
        blocks = ["".join(part.splitlines(keepends=True)[1:]) for part in handle.read().split("State ")[1:]]
    genes = {}
    ranges = {}
    for part in pmap(_parse_states, chunks(blocks, CPUS * 4)):
        for stage, length, circ, gene, start, end in part:
            key = (length, circ, canon(gene))
            if stage == 1:
                genes[key] = gene
            else:
                ranges.setdefault(key, []).append([start, end])
    if set(ranges) != set(genes) or not genes:
        raise MachineryError(f"dump of Translate_MC is inconsistent: {len(genes)} genes, {len(ranges)} with ranges")
    cases = []
    for key in sorted(genes, key=lambda k: (k[0], k[1], len(genes[k]["loc"]["parts"]), k[2])):
        listed = sorted(ranges[key])
        if len(listed) > MAX_RANGES:
            raise MachineryError(f"gene with {len(listed)} ranges does not fit the REJECT mask")
        cases.append({"L": key[0], "circ": key[1], "g": genes[key], "ranges": listed, "all": True,
                      "callers": key[0] in caller_lengths, "tta": key[0] in caller_lengths, "sampled": False})
    return cases


def _random_gene(rng):
    """ genes on longer records: up to 5 exons of up to 30 bases, introns up to 12, either strand, anywhere on a
        line, mostly over the origin on a ring, any codon_start, sometimes with an untranslatable tail """
    while True:
        length = rng.choice([30, 45, 64, 100, 150])
        circ = rng.random() < 0.6
        strand = rng.choice([1, -1])
        exons = [rng.randint(1, 30) for _ in range(rng.randint(1, 5))]
        introns = [rng.randint(1, 12) for _ in exons[1:]]
        codon_start = rng.choice([1, 1, 2, 3])
        if rng.random() < 0.75:
            exons[-1] += (3 - (sum(exons) - (codon_start - 1)) % 3) % 3
        foot = sum(exons) + sum(introns)
        if foot > length or sum(exons) - (codon_start - 1) < 3:
            continue
        if circ and rng.random() < 0.8 and foot > 1:
            start = rng.randrange(length - foot + 1, length)
            if start < 1:
                continue
        else:
            start = rng.randrange(0, length - foot + 1)
        fwd = []
        offset = 0
        for idx, size in enumerate(exons):
            begin = (start + offset) % length
            if begin + size <= length:
                fwd.append([begin, begin + size])
            else:
                fwd += [[begin, length], [0, begin + size - length]]
            offset += size + (introns[idx] if idx < len(introns) else 0)
        parts = fwd[::-1] if strand == -1 else fwd
        if parts[0][1] - parts[0][0] < codon_start:
            continue
        loc = {"parts": parts, "strand": strand}
        if not circ and _bridges(loc):
            continue
        residues = (sum(exons) - (codon_start - 1)) // 3
        picks = {(0, residues), (0, 1), (residues - 1, residues)}
        for _ in range(40):
            if len(picks) >= 20:
                break
            low = rng.randrange(0, residues)
            picks.add((low, low + 1) if rng.random() < 0.3 else (low, rng.randrange(low + 1, residues + 1)))
        return {"L": length, "circ": circ, "g": {"loc": loc, "cs": codon_start},
                "ranges": sorted([s, e] for s, e in picks), "all": False, "callers": True, "tta": True, "sampled": True}


def _canary(ctx, events):
    """ the binding is real: one accepted event with one logged coordinate changed must be rejected """
    for event in events:
        if event["circ"] or len(event["g"]["loc"]["parts"]) != 1 or event["cds"]["exc"] or not event["rs"]:
            continue
        if any(entry["sub"]["exc"] for entry in event["rs"]):
            continue
        forged = {k: v for k, v in event.items()}
        first = dict(event["rs"][0])
        loc = first["sub"]["v"]
        first["sub"] = {"exc": "", "v": {"parts": [[loc["parts"][0][0] + 1, loc["parts"][0][1] + 1]] + loc["parts"][1:],
                                        "strand": loc["strand"]}}
        forged["rs"] = [first] + event["rs"][1:]
        forged["id"] = 0
        res = tracemod.validate("Translate_Trace", [forged], ctx.workdir, shards=1)
        if not any(clause.startswith("sub/") for clause in res.rejects.get(0, [])):
            raise MachineryError(f"canary: a forged sub-location was not rejected by Translate_Trace: {res.rejects}")
        ctx.notes["canary"] = "forged sub-location (shifted by one base) rejected: " + ", ".join(sorted(res.rejects[0]))
        return
    raise MachineryError("canary: no one-exon gene on a line among the events")


def _tick(ctx, label):
    """ wall-clock split of the run, kept in the evidence """
    now = ctx.timer.elapsed()
    last = ctx.notes.setdefault("wall_split_s", {})
    last[label] = round(now - sum(last.values()), 1)


def _validate(ctx, cases):
    for case in cases:
        case["id"] = ctx.new_id()
    events = [ev for part in pmap(_observe_many, chunks(cases, CPUS * 4)) for ev in part]
    _tick(ctx, "observed")
    by_id = {}
    for case, event in zip(cases, events):
        assert case["id"] == event["id"]
        by_id[case["id"]] = {"op": "gene", "input": case_input(case), "call": call_text(case),
                             "features": _features(case), "sampled": case["sampled"],
                             "observed": {"cds": event["cds"], "rs": event["rs"]}}
        loc = case["g"]["loc"]
        if len(loc["parts"]) > 1 or case["g"]["cs"] > 1:
            ctx.nontrivial_case(canon(case_input(case)))
    ctx.validate("Translate_Trace", events, by_id, min_per_shard=150)
    _tick(ctx, "trace validated")
    broken = [f for f in ctx.failures if f["op"] == "trace"]
    if broken:
        raise MachineryError(f"events outside the model (harness defect): {broken[0]['clause']} {canon(broken[0]['input'])[:300]}")
    return events, by_id


def run(ctx):
    rng = random.Random(ctx.seed)
    plans, caller_lengths = _plans(ctx.quick)
    randoms = 1500 if ctx.quick else 20000
    files = _mc_files(plans)
    mc = tlc.run("MC_Translate", _mc_cfg(INVARIANTS), ctx.workdir, extra_files=files, dump=True, coverage=True,
                 timeout=3000)
    ctx.model(mc, "Translate_MC: genes x protein ranges, constructive Sub against the relations, companions",
              vacuity=["PickGene", "PickRange"])
    # negative controls: the two designs behind P9, claimed for every gene, must be refuted by TLC
    control = _mc_files([_plan(12, 2, 3, 1)])
    for invariant, label in (("SortedDesignEverywhere", "exons walked in ascending start order (origin-spanning genes)"),
                             ("TtaDesignEverywhere", "TTA marker at outer start + offset (multi-exon genes)")):
        neg = tlc.run("MC_Translate", _mc_cfg([invariant]), ctx.workdir, extra_files=control, tag="_" + invariant,
                      timeout=600)
        ctx.expect_violation(neg, invariant, f"negative control: {label}")

    _tick(ctx, "model runs")
    cases = _load_cases(mc, caller_lengths)
    _tick(ctx, "dump parsed")
    enumerated = len(cases)
    cases += [_random_gene(rng) for _ in range(randoms)]
    events, by_id = _validate(ctx, cases)
    _canary(ctx, events)

    ctx.evaluations = sum(len(case["ranges"]) for case in cases)
    picks = [cases[0], cases[enumerated // 2], cases[enumerated - 1], cases[-1]]
    for case in picks:
        ctx.sample({"case": case_input(case), "features": _features(case),
                    "observed_first_range": by_id[case["id"]]["observed"]["rs"][:1]})
    ctx.exhaustive = True
    ctx.rule = ("TLC enumerates every gene of the plans (record length, exons, max exon length, max intron) on a line "
                "(every placement) and on a ring (every placement running over the origin), both strands, codon_start "
                "fixed by the length, and every protein range 0 <= s < e <= n of each gene; every gene is materialised on a "
                "real random sequence and every range is mapped by the real functions; seeded random genes on longer "
                "records (up to 5 exons, ragged tails) are added; non-trivial = gene with more than one part or codon_start > 1")
    ctx.notes["plans"] = plans
    ctx.notes["genes_enumerated"] = enumerated
    ctx.notes["ranges_enumerated"] = sum(len(case["ranges"]) for case in cases[:enumerated])
    ctx.notes["genes_random"] = randoms
    ctx.notes["callers_and_tta_on_lengths"] = sorted(caller_lengths)
    ctx.assumptions += ["exons of one gene do not overlap (ribosomal-slip joins are outside the model)",
                        "fuzzy positions (<, >) are outside the model; the first listed part is longer than codon_start - 1",
                        "the genetic code enters only through the observed extract+translate comparison on the generated sequence",
                        "hmmer.build_hits is driven by fake search results and a primed profile-name cache (no HMMER run)"]


def replay(ctx, record):
    case = dict(record["input"])
    case.update({"all": False, "callers": True, "tta": True, "sampled": False, "id": 0})
    event = _observe_many([case])[0]
    by_id = {0: {"op": "gene", "input": record["input"], "call": call_text(case),
                 "observed": {"cds": event["cds"], "rs": event["rs"]}}}
    res = ctx.validate("Translate_Trace", [event], by_id)
    ctx.failures = [f for f in ctx.failures if f["op"] == record["op"] and f["clause"] == record["clause"]]
    return res
