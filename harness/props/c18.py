""" C18 - parallel execution gives the sequential result, in order.

    spec: Pool.tla.  Model runs: Pool_MC (chunking as starmap_async, FIFO chunk queue, workers, collector,
    cpus = 1 shortcut, timeout; every interleaving, the completion order kept as history; negative controls:
    results collected in completion order, failed chunk dropped) and Pool_RecMC (the record contents that
    cross the process boundary).
    Binding: every finished state of Pool_MC is a schedule (completion order); it is *forced* on the real
    parallel_function with barrier files (the task function below blocks until its predecessor in the
    schedule has completed); what the caller got is decided by TLC in Pool_Trace.  Worker counts 1..16 with
    batch sizes below/at/above the worker count, parallel_execute with shell commands that obey the same
    barriers, and secmet Records through the pool / pickle / the pre-processing functions are validated by
    the same trace spec.  The python side builds inputs, forces schedules and projects; it decides nothing.
"""

import os
import pickle
import random
import shutil
import tempfile
import time
from concurrent.futures import ProcessPoolExecutor, ThreadPoolExecutor
import multiprocessing

from .. import tlc, tlaval
from .. import project as P
from .. import trace as tracemod
from ..common import CPUS, MachineryError, canon, chunks

MC_CFG = """SPECIFICATION Spec
CONSTANTS
  NSet = {%(nset)s}
  CpuSet = {%(cpuset)s}
  MaxFaults = %(maxfaults)d
  Variant = "%(variant)s"
%(checks)s
"""
POOL_CHECKS = """INVARIANT ResultsInArgumentOrder
INVARIANT FailureSurfaces
INVARIANT TimeoutSurfaces
INVARIANT NeverShorter
INVARIANT ListOnlyWhenAllOk
INVARIANT AtMostCpusBusy
INVARIANT ChunkInOrder
INVARIANT ReplayAgrees
INVARIANT ReplayIncomplete
PROPERTY Terminates"""
REC_CFG = """SPECIFICATION Spec
CONSTANTS
  L = 90
INVARIANT GenesWellFormed
INVARIANT UniverseCovers
"""

# wall-clock constants: generous on purpose, no verdict depends on them
TIMEOUT_POOL = 2        # the caller's timeout when some task "hangs" (cpus > 1)
HANG_POOL = 25.0        # how long a hanging task sleeps in a worker (killed by the pool long before)
TIMEOUT_SEQ = 1         # cpus = 1: the timeout is ignored by design, the hanging task really sleeps
HANG_SEQ = 1.2
GENEROUS = 120          # timeout handed over when nothing hangs
BARRIER_DEADLINE = 30.0  # a task waiting longer than this for its predecessor gives up: schedule not enforceable
POLL = 0.002
SETTLE = 0.003
RECORD_LENGTH = 90


# ---- the functions that run inside the workers (module level: they must pickle) --------------------
class TaskError(Exception):
    """ What a task with outcome "raise" raises. """


class ScheduleStuck(Exception):
    """ A task gave up waiting for its predecessor: the schedule could not be enforced (machinery). """


def payload(idx: int, outcome: str) -> int:
    """ The function of the model: F(a) = 7a + 3, raising for outcome "raise". """
    if outcome == "raise":
        raise TaskError(idx)
    return 7 * idx + 3


def slow_task(idx: int, each_ms: int) -> int:
    """ a task that needs at least each_ms (module level: must be picklable) """
    time.sleep(each_ms / 1000.0)
    return idx


def _timed_batches(first_id: int):
    """ batches in which no single task outlasts the timeout but the batch as a whole cannot finish within it """
    from ..common import import_repo  # pylint: disable=import-outside-toplevel
    import_repo()
    from antismash.common.subprocessing import parallel_function  # pylint: disable=import-outside-toplevel
    events, by_id = [], {}
    configs = [(8, 2, 300, 800), (6, 3, 400, 600), (9, 4, 250, 500), (5, 2, 300, 700), (4, 1, 100, 300), (6, 2, 20, 5000)]
    for offset, (count, cpus, each_ms, timeout_ms) in enumerate(configs):
        ret = P.result(lambda: parallel_function(slow_task, [[i + 1, each_ms] for i in range(count)], cpus=cpus,
                                                 timeout=timeout_ms / 1000.0), [], _ints)
        ident = first_id + offset
        events.append({"id": ident, "op": "timed", "n": count, "cpus": cpus, "each_ms": each_ms, "timeout_ms": timeout_ms, "ret": ret})
        by_id[ident] = {"op": "timed", "input": {"n": count, "cpus": cpus, "each_ms": each_ms, "timeout_ms": timeout_ms},
                        "call": f"parallel_function(slow_task, [[i + 1, {each_ms}] for i in range({count})], cpus={cpus}, "
                                f"timeout={timeout_ms / 1000.0})", "observed": ret, "features": ["timed_batch"], "sampled": False}
    return events, by_id


def forced_task(case_dir: str, idx: int, wait_for: int, outcome: str, hang_s: float) -> int:
    """ payload() behind a barrier: completes only after task `wait_for` (0: nobody) has completed. """
    if outcome == "hang":
        time.sleep(hang_s)
    elif wait_for > 0:
        deadline = time.monotonic() + BARRIER_DEADLINE
        target = os.path.join(case_dir, f"done_{wait_for}")
        stuck = os.path.join(case_dir, "stuck")
        while not os.path.exists(target):
            if os.path.exists(stuck) or time.monotonic() > deadline:
                open(stuck, "a", encoding="utf-8").close()
                raise ScheduleStuck(idx)
            time.sleep(POLL)
        time.sleep(SETTLE)
    handle = os.open(os.path.join(case_dir, "ran"), os.O_WRONLY | os.O_APPEND | os.O_CREAT, 0o600)
    os.write(handle, f"{idx}\n".encode())
    os.close(handle)
    open(os.path.join(case_dir, f"done_{idx}"), "w", encoding="utf-8").close()
    return payload(idx, outcome)


def echo_record(record):
    """ Identity on a record: whatever comes back crossed the process boundary twice. """
    return record


def stub_genefinding(record, _options) -> None:
    """ Stands in for prodigal/glimmerhmm: 'finds' one gene. """
    from antismash.common.secmet.locations import FeatureLocation
    from antismash.common.secmet.test.helpers import DummyCDS
    record.add_cds_feature(DummyCDS(location=FeatureLocation(12, 42, 1), locus_tag="found_by_stub",
                                    translation="M" + "A" * 9))


def stub_genefinding_some(record, _options) -> None:
    """ A gene finder that comes back empty-handed for every second record (those are then skipped by ensure_cds_info). """
    if int(record.record_index or 0) % 2 == 0:
        return
    stub_genefinding(record, _options)


def stub_genefinding_refusing(record, _options) -> None:
    """ A gene finder that refuses the third record of a batch the way real ones do (two genes at one location). """
    if int(record.record_index or 0) == 3:
        raise ValueError("Multiple CDS features have the same location")
    stub_genefinding(record, _options)


def _failing_step_child(conn, shapes, cpus):
    """ child process: the whole pre-processing step with a gene finder that refuses one record """
    try:
        import logging
        from ..common import import_repo
        import_repo()
        logging.disable(logging.CRITICAL)
        from antismash.common import record_processing
        from antismash.config import build_config, destroy_config, update_config
        destroy_config()
        module = _GenefindingModule()
        module.run_on_record = stub_genefinding_refusing
        options = build_config(["--cpus", str(cpus), "--taxon", "bacteria"], isolated=True, modules=[module])
        update_config({"triggered_limit": False, "minlength": 0, "limit": -1, "genefinding_tool": "prodigal"})
        records = [build_record(shape, idx + 1, dirty=True) for idx, shape in enumerate(shapes)]
        try:
            record_processing.pre_process_sequences(records, options, module)
            conn.send("")
        except Exception as err:  # pylint: disable=broad-except
            conn.send(type(err).__name__)
    except Exception as err:  # pylint: disable=broad-except
        conn.send("Machinery:" + type(err).__name__ + ":" + str(err)[:80])


FAKE_PRODIGAL = '''#!%s
import sys
import time
args = sys.argv[1:]
sequence = "".join(line.strip() for line in sys.stdin if not line.startswith(">"))
meta = any(flag == "-p" and value in ("meta", "anon") for flag, value in zip(args, args[1:]))
if len(sequence) < 20000:
    time.sleep(0.4)     # meanwhile other workers take the other records
print("# Sequence Data: seqnum=1;seqlen=%%d" %% len(sequence))
print("# Model Data: mode=%%s" %% ("meta" if meta else "single"))
print(">1_1_300_+")
if not meta:
    print(">2_401_1000_-")
'''


def _prodigal_step_child(conn, lengths, cpus, fake):
    """ child process: the whole pre-processing step on unannotated records with the shipped gene finding module, the
        prodigal binary replaced by a stand-in that - like the real one - finds other genes in its "-p meta" mode, which the
        runner asks for on contigs under 20 kb """
    try:
        import hashlib
        import logging
        import multiprocessing
        # this process was spawned (nothing inherited from the harness); the pools of the code under test fork, as they
        # do in a run started from the command line
        multiprocessing.set_start_method("fork", force=True)
        from ..common import import_repo
        import_repo()
        logging.disable(logging.CRITICAL)
        from antismash.common import record_processing
        from antismash.common.secmet import Record
        from antismash.config import build_config, destroy_config
        from antismash.support import genefinding
        destroy_config()
        options = build_config(["--cpus", str(cpus), "--taxon", "bacteria", "--genefinding-tool", "prodigal",
                                "--executable-paths", f"prodigal={fake}", "--minlength", "1000"], isolated=True,
                               modules=[genefinding])
        records = [Record(seq="GCA" * (length // 3), id=f"contig_{idx + 1}") for idx, length in enumerate(lengths)]
        try:
            out = record_processing.pre_process_sequences(records, options, genefinding)
            projected = _project_records(out)
            for item in projected:
                item["seq"] = "sha1:" + hashlib.sha1(item["seq"].encode()).hexdigest()
                for cds in item["cds"]:
                    cds["translation"] = "sha1:" + hashlib.sha1(cds["translation"].encode()).hexdigest()
            conn.send({"exc": "", "v": projected})
        except Exception as err:  # pylint: disable=broad-except
            conn.send({"exc": type(err).__name__, "v": []})
    except Exception as err:  # pylint: disable=broad-except
        conn.send("Machinery:" + type(err).__name__ + ":" + str(err)[:80])


def _prodigal_step(lengths, cpus, scratch):
    import multiprocessing
    import stat
    import sys
    import tempfile
    folder = tempfile.mkdtemp(prefix="c18p_", dir=scratch)
    fake = os.path.join(folder, "prodigal")
    with open(fake, "w", encoding="utf-8") as handle:
        handle.write(FAKE_PRODIGAL % sys.executable)
    os.chmod(fake, os.stat(fake).st_mode | stat.S_IXUSR)
    context = multiprocessing.get_context("spawn")
    ours, theirs = context.Pipe(duplex=False)
    child = context.Process(target=_prodigal_step_child, args=(theirs, lengths, cpus, fake))
    child.start()
    outcome = ours.recv() if ours.poll(120) else {"exc": "Hang", "v": []}
    if outcome == {"exc": "Hang", "v": []}:
        child.kill()
        os.system(f"pkill -P {child.pid} >/dev/null 2>&1")
    else:
        child.join(20)
    shutil.rmtree(folder, ignore_errors=True)
    if isinstance(outcome, str):
        raise MachineryError(outcome)
    return outcome


class _GenefindingModule:
    """ the shape pre_process_sequences expects of a gene finding module; run_on_record must survive pickling """
    run_on_record = staticmethod(stub_genefinding_some)

    @staticmethod
    def get_arguments():
        from antismash.config import args
        module_args = args.ModuleArgs("genefinding", "genefinding")
        module_args.add_option("gff3", default="", type=str, help="dummy", dest="gff3")
        module_args.add_option("tool", default="", type=str, help="dummy", dest="tool")
        return module_args


# ---- materialiser and projection of records --------------------------------------------------------
GENES = {
    "g1": ([[3, 30]], 1),
    "g2": ([[33, 60]], -1),
    "g3": ([[42, 51], [57, 66]], 1),
    "g4": ([[RECORD_LENGTH - 9, RECORD_LENGTH], [0, 9]], 1),
    "g5": ([[0, 6], [RECORD_LENGTH - 6, RECORD_LENGTH]], -1),
}
AREAS = {
    "mid": ([[33, 60]], [[30, 66]]),
    "origin": ([[RECORD_LENGTH - 9, RECORD_LENGTH], [0, 9]], [[RECORD_LENGTH - 15, RECORD_LENGTH], [0, 15]]),
}


def build_record(shape: dict, index: int, dirty: bool = False, renamed: bool = False):
    """ Abstract record of Pool_RecMC -> secmet Record with genes, protoclusters, candidates, regions. """
    from .. import build as B
    from antismash.common.secmet.features import Protocluster
    from antismash.common.secmet.test.helpers import DummyCDS, DummyRecord
    seq = ("ACGTTGCAAC" * 9)[:RECORD_LENGTH]
    if dirty:   # what sanitise_sequence is for: lower case and ambiguity codes (no gaps: coordinates stay valid)
        seq = ("acgtRYacgn" * 9)[:RECORD_LENGTH]
    record = DummyRecord(seq=seq, circular=shape["circ"], record_id=f"rec{index}")
    record.record_index = index
    if renamed and index % 2 == 0:
        # a record whose identifier had to be changed remembers the one it came with
        record.original_id = f"contig|{index}:1"
    for name in sorted(shape["genes"]):
        parts, strand = GENES[name]
        location = B.loc({"parts": parts, "strand": strand})
        if name == "g1" and index % 2:
            # a gene running off the contig edge, as draft assemblies have them: <4..30
            from Bio.SeqFeature import BeforePosition
            from antismash.common.secmet.locations import FeatureLocation
            location = FeatureLocation(BeforePosition(parts[0][0]), parts[0][1], strand)
        if name == "g2" and index % 3 == 0:
            from Bio.SeqFeature import AfterPosition
            from antismash.common.secmet.locations import FeatureLocation
            location = FeatureLocation(parts[0][0], AfterPosition(parts[0][1]), strand)
        record.add_cds_feature(DummyCDS(location=location, locus_tag=name,
                                        translation="M" + "A" * (sum(e - s for s, e in parts) // 3 - 1)))
    for name in sorted(shape["areas"]):
        core, surrounds = AREAS[name]
        record.add_protocluster(Protocluster(B.loc({"parts": core, "strand": 1}), B.loc({"parts": surrounds, "strand": 1}),
                                             tool="verif", product=f"prod{name}", cutoff=5, neighbourhood_range=6,
                                             detection_rule="r"))
    if shape["areas"]:
        record.create_candidate_clusters()
        record.create_regions()
    # the pipeline has looked at the children of every area long before records travel: the cached
    # (sectioned) tuples are part of what is pickled
    for area in list(record.get_protoclusters()) + list(record.get_candidate_clusters()) + list(record.get_regions()):
        assert area.cds_children is not None
    return record


def _names(features):
    return [cds.get_name() for cds in features]


def project_record(record) -> dict:
    regions = []
    for region in record.get_regions():
        children = region.cds_children
        regions.append({"loc": P.loc(region.location), "number": region.get_region_number(), "cds": _names(children),
                        "pre": _names(getattr(children, "pre_origin", ())),
                        "cross": _names(getattr(children, "cross_origin", ())),
                        "post": _names(getattr(children, "post_origin", ())),
                        "products": list(region.products)})
    return {
        "id": str(record.id), "seq": str(record.seq), "circular": bool(record.is_circular()),
        "skip": record.skip or "", "index": int(record.record_index or 0), "orig": str(record.original_id or ""),
        "cds": [{"name": cds.get_name(), "loc": P.loc(cds.location), "translation": str(cds.translation),
                 "open": [type(cds.location.start).__name__ == "BeforePosition", type(cds.location.end).__name__ == "AfterPosition"],
                 "region": cds.region.get_region_number() if cds.region else 0} for cds in record.get_cds_features()],
        "protoclusters": [{"loc": P.loc(proto.location), "core": P.loc(proto.core_location), "product": proto.product,
                           "number": proto.get_protocluster_number(), "cds": _names(proto.cds_children)}
                          for proto in record.get_protoclusters()],
        "candidates": [{"loc": P.loc(cand.location), "kind": str(cand.kind),
                        "protos": [proto.get_protocluster_number() for proto in cand.protoclusters]}
                       for cand in record.get_candidate_clusters()],
        "regions": regions,
    }


def _project_records(records) -> list:
    return [project_record(record) for record in records]


# ---- observation -------------------------------------------------------------------------------------
def _ints(value) -> list:
    return [item if isinstance(item, int) and not isinstance(item, bool) else -999 for item in list(value)]


def _read_ran(case_dir) -> list:
    path = os.path.join(case_dir, "ran")
    if not os.path.exists(path):
        return []
    with open(path, encoding="utf-8") as handle:
        return [int(line) for line in handle.read().split()]


def _note_stuck(scratch):
    if scratch:
        with open(os.path.join(scratch, "stuck_log"), "a", encoding="utf-8") as handle:
            handle.write("stuck\n")


def _stuck_budget_spent(scratch) -> bool:
    """ After a few schedules proved unenforceable the remaining forced runs are not attempted: the run is
        going to end as a machinery failure (or with the violations found so far) anyway. """
    path = os.path.join(scratch, "stuck_log") if scratch else ""
    return bool(path) and os.path.exists(path) and os.path.getsize(path) >= 3 * len("stuck\n")


def observe_call(case: dict, scratch: str = None) -> dict:
    """ One real parallel_function run with the schedule of `case` forced on it. """
    from ..common import import_repo
    import_repo()
    from antismash.common.subprocessing import parallel_function
    conf = case["c"]
    # one worker means one possible order: nothing to force (and forcing another one could only deadlock)
    forced = case["forced"] and conf["cpus"] > 1
    if forced and _stuck_budget_spent(scratch):
        return {"op": "call", "c": conf, "forced": forced, "sched": case["sched"], "ran": [], "ret": {"exc": "", "v": []},
                "seq": {"exc": "", "v": []}, "_stuck": True, "_skipped": True}
    case_dir = tempfile.mkdtemp(prefix="c18c_", dir=scratch)
    wait = {}
    if forced:
        for pos, task in enumerate(case["sched"]):
            wait[task] = case["sched"][pos - 1] if pos else 0
    hangs = "hang" in conf["out"]
    if conf["cpus"] == 1:
        hang_s, timeout = HANG_SEQ, (TIMEOUT_SEQ if hangs else GENEROUS)
    else:
        hang_s, timeout = HANG_POOL, (TIMEOUT_POOL if hangs else GENEROUS)
    if not conf["timeout"]:
        timeout = None
    args = [[case_dir, task, wait.get(task, 0), conf["out"][task - 1], hang_s] for task in range(1, conf["n"] + 1)]
    started = time.monotonic()
    ret = P.result(lambda: parallel_function(forced_task, args, cpus=conf["cpus"], timeout=timeout), [], _ints)
    elapsed = time.monotonic() - started
    seq = P.result(lambda: [payload(task, conf["out"][task - 1]) for task in range(1, conf["n"] + 1)], [], _ints)
    event = {"op": "call", "c": conf, "forced": forced, "sched": case["sched"], "ran": _read_ran(case_dir),
             "ret": ret, "seq": seq}
    event["_stuck"] = os.path.exists(os.path.join(case_dir, "stuck")) or ret["exc"] == "ScheduleStuck"
    if event["_stuck"]:
        _note_stuck(scratch)
    event["_elapsed_ms"] = int(elapsed * 1000)
    shutil.rmtree(case_dir, ignore_errors=True)
    return event


def _shell(case_dir, task, wait_for, code):
    wait = ""
    if wait_for:
        wait = (f"i=0; while [ ! -e {case_dir}/done_{wait_for} ]; do sleep 0.01; i=$((i+1)); "
                f"if [ -e {case_dir}/stuck ] || [ $i -gt 2400 ]; then : > {case_dir}/stuck; exit 97; fi; done; ")
    return ["sh", "-c", f"{wait}echo {task} >> {case_dir}/ran; : > {case_dir}/done_{task}; exit {code}"]


def observe_exec(case: dict, scratch: str = None) -> dict:
    """ parallel_execute on shell commands that obey the same barrier files. """
    from ..common import import_repo
    import_repo()
    from antismash.common.subprocessing import parallel_execute
    case_dir = tempfile.mkdtemp(prefix="c18e_", dir=scratch)
    wait = {}
    if case["cpus"] > 1:
        for pos, task in enumerate(case["sched"]):
            wait[task] = case["sched"][pos - 1] if pos else 0
    commands = []
    for task in range(1, case["n"] + 1):
        if case["hang"][task - 1]:
            commands.append(["sleep", "9"])
        else:
            commands.append(_shell(case_dir, task, wait.get(task, 0), case["codes"][task - 1]))
    timeout = None
    if case["timeout"]:
        timeout = TIMEOUT_POOL if any(case["hang"]) else GENEROUS
    ret = P.result(lambda: parallel_execute(commands, cpus=case["cpus"], timeout=timeout, verbose=False), [], _ints)
    event = dict(case, op="exec", ran=_read_ran(case_dir), ret=ret)
    event["_stuck"] = os.path.exists(os.path.join(case_dir, "stuck"))
    if event["_stuck"]:
        _note_stuck(scratch)
    shutil.rmtree(case_dir, ignore_errors=True)
    return event


def observe_transport(case: dict, _scratch: str = None) -> dict:
    """ Records through a process boundary; `before` is what staying in-process gives. """
    from ..common import import_repo
    import_repo()
    import functools
    from antismash.common import record_processing
    from antismash.common.subprocessing import parallel_function
    from antismash.config import destroy_config
    via, cpus = case["via"], case["cpus"]
    dirty = via in ("sanitise_sequence", "pre_process")

    # (the transports that hand over a timeout: a worker lost on the way shows as an error there, not as a hang)
    renamed = via in ("pickle", "echo", "sanitise_sequence", "ensure_cds_info")

    def fresh():
        return [build_record(shape, idx + 1, dirty=dirty, renamed=renamed) for idx, shape in enumerate(case["shapes"])]
    destroy_config()
    try:
        if via == "pickle":
            before = _project_records(fresh())
            after = P.result(lambda: [pickle.loads(pickle.dumps(rec, pickle.HIGHEST_PROTOCOL)) for rec in fresh()],
                             [], _project_records)
        elif via == "echo":
            before = _project_records(fresh())
            after = P.result(lambda: parallel_function(echo_record, [[rec] for rec in fresh()], cpus=cpus, timeout=GENEROUS),
                             [], _project_records)
        elif via == "sanitise_sequence":
            before = _project_records([record_processing.sanitise_sequence(rec) for rec in fresh()])
            after = P.result(lambda: parallel_function(record_processing.sanitise_sequence, ([rec] for rec in fresh()),
                                                       cpus=cpus, timeout=GENEROUS), [], _project_records)
        elif via == "ensure_cds_info":
            opts = {"genefinding_tool": "prodigal", "genefinding_gff3": "", "taxon": "bacteria"}
            partial = functools.partial(record_processing.ensure_cds_info, stub_genefinding, **opts)
            before = []
            for rec in fresh():
                destroy_config()
                before.append(project_record(partial(rec)))
            destroy_config()
            after = P.result(lambda: parallel_function(partial, ([rec] for rec in fresh()), cpus=cpus, timeout=GENEROUS),
                             [], _project_records)
        elif via == "pre_process_error":
            import multiprocessing
            opts = {"genefinding_tool": "prodigal", "genefinding_gff3": "", "taxon": "bacteria"}
            partial = functools.partial(record_processing.ensure_cds_info, stub_genefinding_refusing, **opts)
            before_exc = ""
            for rec in fresh():
                destroy_config()
                try:
                    partial(record_processing.sanitise_sequence(rec))
                except Exception as err:  # pylint: disable=broad-except
                    before_exc = type(err).__name__
                    break
            destroy_config()
            context = multiprocessing.get_context("spawn")
            ours, theirs = context.Pipe(duplex=False)
            child = context.Process(target=_failing_step_child, args=(theirs, case["shapes"], cpus))
            child.start()
            outcome = ours.recv() if ours.poll(60) else "Hang"
            child.kill() if outcome == "Hang" else child.join(20)
            if outcome == "Hang":
                os.system(f"pkill -P {child.pid} >/dev/null 2>&1")
            if outcome.startswith("Machinery:"):
                raise MachineryError(outcome)
            return {"op": "transport", "via": via, "cpus": cpus, "shapes": case["shapes"], "before": [], "before_exc": before_exc,
                    "after": {"exc": outcome, "v": []}, "_stuck": False}
        elif via == "pre_process_prodigal":
            # unannotated contigs, some under 20 kb, through the shipped gene finding module: one worker (the calls one
            # after another) against the configured number of workers, each run in a process of its own
            sequential = _prodigal_step(case["lengths"], 1, _scratch)
            if sequential["exc"]:
                raise MachineryError(f"the sequential reference run failed: {sequential['exc']}")
            before = sequential["v"]
            after = _prodigal_step(case["lengths"], cpus, _scratch)
        elif via == "pre_process":
            # the whole pre-processing step (ids, sanitisation and gene finding through the parallel helper with the
            # configured number of workers) against its steps applied to one record after another in this process
            from antismash.config import build_config, update_config
            opts = {"genefinding_tool": "prodigal", "genefinding_gff3": "", "taxon": "bacteria"}
            partial = functools.partial(record_processing.ensure_cds_info, stub_genefinding_some, **opts)
            before = []
            for rec in fresh():
                destroy_config()
                before.append(project_record(partial(record_processing.sanitise_sequence(rec))))
            destroy_config()

            def whole_step():
                module = _GenefindingModule()
                options = build_config(["--cpus", str(cpus), "--taxon", "bacteria"], isolated=True, modules=[module])
                update_config({"triggered_limit": False, "minlength": 0, "limit": -1, "genefinding_tool": "prodigal"})
                return record_processing.pre_process_sequences(fresh(), options, module)
            after = P.result(whole_step, [], _project_records)
        else:
            raise MachineryError(f"unknown transport {via}")
    finally:
        destroy_config()
    return {"op": "transport", "via": via, "cpus": cpus, "shapes": case["shapes"], "before": before, "after": after,
            "_stuck": False}


OBSERVERS = {"call": observe_call, "exec": observe_exec, "transport": observe_transport}


def _observe_many(job):
    scratch, cases = job
    out = []
    for case in cases:
        event = OBSERVERS[case["op"]](case["input"], scratch)
        event["id"] = case["id"]
        out.append(event)
    return out


def _fanout(jobs, procs):
    """ Like common.pmap, but the helper processes are not daemonic (they start pools themselves). """
    if not jobs:
        return []
    context = multiprocessing.get_context("fork")
    pool = ProcessPoolExecutor(max_workers=max(1, min(procs, len(jobs))), mp_context=context)
    try:
        # (a helper process lost abruptly can leave the executor waiting for ever: give up with a machinery failure instead)
        return list(pool.map(_observe_many, jobs, timeout=2400))
    except TimeoutError as err:
        for proc in list((pool._processes or {}).values()):  # pylint: disable=protected-access
            proc.kill()
        raise MachineryError("the helper processes of the C18 harness did not come back within 40 minutes") from err
    finally:
        pool.shutdown(wait=False, cancel_futures=True)


# ---- cases ------------------------------------------------------------------------------------------------
def _plain(value):
    if isinstance(value, dict):
        return {k: _plain(v) for k, v in value.items()}
    if isinstance(value, list):
        return [_plain(v) for v in value]
    return value


def _finished_blocks(path):
    """ The text blocks of a TLC dump whose state is finished (unfinished ones are not parsed: most of a dump). """
    block = []
    with open(path, encoding="utf-8") as handle:
        for line in handle:
            if line.startswith("State "):
                if block:
                    yield "".join(block)
                block = []
            else:
                block.append(line)
    if block:
        yield "".join(block)


def _schedules(run):
    """ Finished states of a Pool_MC dump -> [(config, completion order)] (one per schedule). """
    seen = {}
    for text in _finished_blocks(run.dump_path):
        if 'caller |-> "waiting"' in text or not text.strip():
            continue
        start_c, start_p = text.index("c = "), text.index("/\\ p = ")
        conf = _plain(tlaval.parse(text[start_c + 4:start_p]))
        state = tlaval.parse(text[start_p + 7:])
        conf["out"] = list(conf["out"]) if not isinstance(conf["out"], dict) else [conf["out"][k] for k in sorted(conf["out"])]
        sched = list(_plain(state["hist"]))
        seen[canon([conf, sched])] = (conf, sched)
    return [seen[key] for key in sorted(seen)]


def propose_schedule(n: int, cpus: int, rng: random.Random = None) -> list:
    """ A completion order for an all-ok batch, proposed by simulating eager workers and letting the task of
        the *latest* started chunk finish first (random choice with rng).  Only a proposal: TLC decides in
        Pool_Trace whether it is a behaviour of the model (machinery failure if not). """
    if cpus == 1 or n == 0:
        return list(range(1, n + 1))
    size = -(-n // (4 * cpus))
    batches = [list(range(start, min(start + size, n + 1))) for start in range(1, n + 1, size)]
    running, order = [], []
    while batches or running:
        while batches and len(running) < cpus:
            running.append(batches.pop(0))
        pick = rng.randrange(len(running)) if rng else len(running) - 1
        order.append(running[pick].pop(0))
        if not running[pick]:
            running.pop(pick)
    return order


def _call_features(case):
    conf = case["c"]
    feats = {"cpus_1" if conf["cpus"] == 1 else "pooled", "forced" if case["forced"] else "free_running"}
    if "raise" in conf["out"]:
        feats.add("has_raise")
    if "hang" in conf["out"]:
        feats.add("has_hang")
    if conf["timeout"]:
        feats.add("timeout_given")
    if conf["n"] > 4 * conf["cpus"]:
        feats.add("chunks_longer_than_one")
    if conf["n"] < conf["cpus"]:
        feats.add("batch_smaller_than_pool")
    if case["sched"] != sorted(case["sched"]):
        feats.add("completion_order_differs_from_argument_order")
    return sorted(feats)


def _features(op, data):
    if op == "call":
        return _call_features(data)
    if op == "exec":
        return sorted({"parallel_execute", "has_hang" if any(data["hang"]) else "no_hang"})
    shapes = data["shapes"]
    feats = {"via_" + data["via"], "cpus_1" if data["cpus"] == 1 else "pooled"}
    if any(s["circ"] for s in shapes):
        feats.add("circular")
    if any({"g4", "g5"} & set(s["genes"]) for s in shapes):
        feats.add("origin_spanning_gene")
    if any("origin" in s["areas"] for s in shapes):
        feats.add("origin_spanning_region")
    return sorted(feats)


def _call_text(op, data):
    return f"from harness.props import c18; c18.observe_{op}({data!r})"


_OBSERVED_KEYS = ("ran", "ret", "seq", "after", "before")


def _select_cases(ctx, rng, small, chunked):
    """ Which of the TLC schedules are executed: all without hangs (hang cases cost seconds: seeded sample). """
    limits = {"hang": 24, "chunked": 80, "chunked_hang": 4} if ctx.quick else {"hang": 400, "chunked": 1500,
                                                                                   "chunked_hang": 40}
    cases = []
    plain = [(c, s) for c, s in small if "hang" not in c["out"]]
    hanging = [(c, s) for c, s in small if "hang" in c["out"]]
    if not ctx.quick and len(plain) > 12000:
        keep = [(c, s) for c, s in plain if c["n"] <= 4]
        rest = [(c, s) for c, s in plain if c["n"] > 4]
        plain = keep + rng.sample(rest, 12000 - len(keep))
        ctx.notes["schedules_without_hang_sampled_above_n4"] = True
    for conf, sched in plain:
        cases.append({"op": "call", "input": {"c": conf, "forced": True, "sched": sched}, "sampled": False})
    for conf, sched in rng.sample(hanging, min(limits["hang"], len(hanging))):
        cases.append({"op": "call", "input": {"c": conf, "forced": True, "sched": sched}, "sampled": True})
    plain = [(c, s) for c, s in chunked if "hang" not in c["out"]]
    hanging = [(c, s) for c, s in chunked if "hang" in c["out"]]
    for conf, sched in rng.sample(plain, min(limits["chunked"], len(plain))):
        cases.append({"op": "call", "input": {"c": conf, "forced": True, "sched": sched}, "sampled": True})
    for conf, sched in rng.sample(hanging, min(limits["chunked_hang"], len(hanging))):
        cases.append({"op": "call", "input": {"c": conf, "forced": True, "sched": sched}, "sampled": True})
    ctx.notes["schedules_from_tlc"] = {"small": len(small), "chunked": len(chunked)}
    return cases


def _sweep_cases(ctx, rng):
    """ Worker counts 1..16 with batches smaller than, equal to, larger than the pool, and one large enough for
        chunks of two; latest-first and random proposed orders, one raising task in a second pass. """
    cases = []
    for cpus in range(1, 17):
        sizes = sorted({max(cpus - 1, 0), cpus, cpus + 1, 4 * cpus + 1})
        if ctx.quick and cpus > 8:
            sizes = [cpus - 1, cpus + 1] if cpus % 2 else [cpus, 4 * cpus + 1]
        for n in sizes:
            variants = [(None, None)] if ctx.quick else [(None, None), (rng, None), (rng, "raise")]
            if ctx.quick and (cpus + n) % 5 == 0 and n:
                variants.append((rng, "raise"))
            for chooser, fault in variants:
                out = ["ok"] * n
                sched = propose_schedule(n, cpus, chooser)
                if fault and n:
                    bad = rng.randrange(1, n + 1)
                    out[bad - 1] = fault
                    if cpus == 1:
                        sched = list(range(1, bad + 1))
                    else:   # the rest of the failing task's chunk never runs
                        size = -(-n // (4 * cpus))
                        last = min(((bad - 1) // size + 1) * size, n)
                        sched = [t for t in sched if not bad < t <= last]
                conf = {"n": n, "cpus": cpus, "out": out, "timeout": bool((cpus + n) % 2)}
                cases.append({"op": "call", "input": {"c": conf, "forced": True, "sched": sched}, "sampled": chooser is not None})
        # one run left to the scheduler: nothing forced
        conf = {"n": cpus + 2, "cpus": cpus, "out": ["ok"] * (cpus + 2), "timeout": False}
        cases.append({"op": "call", "input": {"c": conf, "forced": False, "sched": []}, "sampled": False})
    return cases


def _exec_cases(ctx, rng, small):
    cases = []
    usable = [(c, s) for c, s in small if c["cpus"] > 1 and c["n"] >= 2 and set(c["out"]) <= {"ok"} and not c["timeout"]]
    picked = rng.sample(usable, min(24 if ctx.quick else 200, len(usable)))
    for conf, sched in picked:
        codes = [rng.choice([0, 0, 1, 3, 7]) for _ in range(conf["n"])]
        cases.append({"op": "exec", "input": {"n": conf["n"], "cpus": conf["cpus"], "codes": codes,
                                               "hang": [False] * conf["n"], "timeout": bool(rng.randrange(2)),
                                               "sched": sched}, "sampled": True})
    for cpus in (1, 2, 3):     # `true`, `false`, `sleep` past the timeout
        cases.append({"op": "exec", "input": {"n": 3, "cpus": cpus, "codes": [0, 1, 0], "hang": [False, False, True],
                                               "timeout": True, "sched": [1, 2] if cpus == 1 else [2, 1]}, "sampled": False})
        cases.append({"op": "exec", "input": {"n": 3, "cpus": cpus, "codes": [1, 0, 5], "hang": [False] * 3,
                                               "timeout": False, "sched": [1, 2, 3] if cpus < 3 else [3, 2, 1]}, "sampled": False})
    return cases


def _transport_cases(ctx, rng, shapes):
    cases = []
    order = list(shapes)
    rng.shuffle(order)
    batches = chunks(order, max(1, len(order) // 6))
    for number, batch in enumerate(batches):
        size = len(batch)
        cases.append({"op": "transport", "input": {"via": "pickle", "cpus": 1, "shapes": batch}, "sampled": False})
        worker_counts = [1, 2, size, size + 3] if not ctx.quick else [[1, size + 3], [2, size], [3, size - 1]][number % 3]
        for cpus in worker_counts:
            for via in ("echo", "sanitise_sequence", "ensure_cds_info"):
                cases.append({"op": "transport", "input": {"via": via, "cpus": max(1, cpus), "shapes": batch}, "sampled": False})
        # the whole pre-processing step: some records without genes in between (the stub finder fills every other one)
        mixed = [dict(shape, genes=[], areas=[]) if pos % 3 != 2 else shape for pos, shape in enumerate(batch[:8])]
        for cpus in (1, 2, len(mixed) + 1):
            cases.append({"op": "transport", "input": {"via": "pre_process", "cpus": cpus, "shapes": mixed}, "sampled": False})
        if number < 2:
            # a gene finder that refuses the third record: the error has to come out for every number of workers
            geneless = [dict(shape, genes=[], areas=[]) for shape in batch[:5]]
            for cpus in (1, 2, 4):
                cases.append({"op": "transport", "input": {"via": "pre_process_error", "cpus": cpus, "shapes": geneless}, "sampled": False})
    # unannotated contigs through the shipped gene finding module (stand-in prodigal binary): short and long contigs mixed
    for lengths, worker_counts in (([6000, 24000, 27000, 21000], (2, 4, 8)), ([24000, 6000, 30000, 3000, 21000, 27000], (3, 6))):
        for cpus in (worker_counts if not ctx.quick else worker_counts[1:2]):
            cases.append({"op": "transport", "input": {"via": "pre_process_prodigal", "cpus": cpus, "shapes": [], "lengths": lengths},
                          "sampled": False})
    return cases


def _shapes(run):
    seen = {}
    for state in tlaval.read_dump(run.dump_path):
        shape = _plain(state["shape"])
        shape = {"circ": shape["circ"], "genes": sorted(shape["genes"]), "areas": sorted(shape["areas"])}
        seen[canon(shape)] = shape
    return [seen[key] for key in sorted(seen)]


def _canaries(ctx, events):
    """ Corrupted copies of accepted events must be rejected: the verdicts come from TLC, not from here. """
    calls = [ev for ev in events if ev["op"] == "call"]
    good = next((ev for ev in calls if ev["ret"]["exc"] == "" and ev["c"]["n"] >= 3 and ev["c"]["cpus"] > 1), None)
    bad = next((ev for ev in calls if "raise" in ev["c"]["out"] and ev["ret"]["exc"]), None)
    moved = next((ev for ev in events if ev["op"] == "transport" and ev["after"]["exc"] == "" and
                  any(rec["cds"] for rec in ev["before"])), None)
    if good is None or bad is None or moved is None:
        if ctx.failures:
            ctx.notes["binding_canaries_rejected"] = "skipped: no accepted event of the needed kind"
            return
        raise MachineryError("no accepted event to build the binding canaries from")
    values = list(good["ret"]["v"])
    swapped = [values[1], values[0]] + values[2:]
    altered = [dict(rec) for rec in moved["after"]["v"]]
    target = next(i for i, rec in enumerate(altered) if rec["cds"])
    altered[target] = dict(altered[target], cds=altered[target]["cds"][1:])
    canaries = [
        (dict(good, ret={"exc": "", "v": swapped}), "results_in_argument_order"),
        (dict(good, ret={"exc": "", "v": values[:-1]}), "never_a_shorter_list"),
        (dict(good, ret={"exc": "", "v": values[:-1] + [values[-1] + 1]}), "results_equal_sequential"),
        (dict(bad, ret={"exc": "", "v": [7 * t + 3 for t in range(1, bad["c"]["n"] + 1) if bad["c"]["out"][t - 1] == "ok"]}),
         "failure_surfaces"),
        (dict(good, sched=list(reversed(range(1, good["c"]["n"] + 20)))), "schedule_not_a_model_behaviour"),
        (dict(moved, after={"exc": "", "v": altered}), "record_content_preserved"),
    ]
    shipped = [dict(event, id=idx) for idx, (event, _) in enumerate(canaries)]
    res = tracemod.validate("Pool_Trace", shipped, ctx.workdir, shards=1)
    for idx, (_, clause) in enumerate(canaries):
        got = [c.split("/", 1)[-1] for c in res.rejects.get(idx, [])]
        if clause not in got:
            raise MachineryError(f"binding canary {idx}: corrupted event was not rejected with {clause!r} (got {got})")
    ctx.notes["binding_canaries_rejected"] = len(canaries)


def _strip(event):
    return {k: v for k, v in event.items() if not k.startswith("_")}


def run(ctx):
    rng = random.Random(ctx.seed)
    if ctx.quick:
        small_params = {"nset": "0, 1, 2, 3, 4", "cpuset": "1, 2, 3", "maxfaults": 4}
        chunk_params = {"nset": "9", "cpuset": "2", "maxfaults": 1}
    else:
        small_params = {"nset": "0, 1, 2, 3, 4, 5", "cpuset": "1, 2, 3, 4", "maxfaults": 5}
        chunk_params = {"nset": "9, 10", "cpuset": "2", "maxfaults": 2}
    actions = ["Take", "Finish", "Raise", "Collect", "Timeout", "SeqStep"]
    tiny = {"nset": "0, 1, 2, 3", "cpuset": "1, 2, 3", "maxfaults": 3}
    share = max(2, CPUS // 3)
    plans = {
        "small": lambda: tlc.run("Pool_MC", MC_CFG % dict(small_params, variant="pool", checks=POOL_CHECKS), ctx.workdir,
                                 dump=True, coverage=True, tag="_small", timeout=3000, heap="6g", workers=share),
        "chunked": lambda: tlc.run("Pool_MC", MC_CFG % dict(chunk_params, variant="pool", checks=POOL_CHECKS), ctx.workdir,
                                   dump=True, coverage=True, tag="_chunked", timeout=3000, heap="6g", workers=share),
        "unordered": lambda: tlc.run("Pool_MC", MC_CFG % dict(tiny, variant="unordered",
                                                              checks="INVARIANT ResultsInArgumentOrder"),
                                     ctx.workdir, tag="_unordered", heap="2g", workers=2),
        "drop": lambda: tlc.run("Pool_MC", MC_CFG % dict(tiny, variant="drop", checks="INVARIANT FailureSurfaces"),
                                ctx.workdir, tag="_drop", heap="2g", workers=2),
        "recs": lambda: tlc.run("Pool_RecMC", REC_CFG, ctx.workdir, dump=True, coverage=True, tag="_rec", heap="2g",
                                workers=2),
    }
    tlc.stage(ctx.workdir)
    with ThreadPoolExecutor(max_workers=len(plans)) as pool:     # the five TLC runs are independent
        futures = {name: pool.submit(plan) for name, plan in plans.items()}
        runs = {name: future.result() for name, future in futures.items()}
    small, chunked, recs = runs["small"], runs["chunked"], runs["recs"]
    ctx.model(small, f"Pool_MC all completion orders, n in {{{small_params['nset']}}}, cpus in {{{small_params['cpuset']}}}, "
                     "every outcome vector", vacuity=actions)
    ctx.model(chunked, f"Pool_MC chunks of two tasks, n in {{{chunk_params['nset']}}}, cpus = 2, at most "
                       f"{chunk_params['maxfaults']} failing/hanging tasks", vacuity=["Take", "Finish", "Raise", "Collect"])
    ctx.expect_violation(runs["unordered"], "ResultsInArgumentOrder",
                         "Pool_MC results collected in completion order (negative control)")
    ctx.expect_violation(runs["drop"], "FailureSurfaces", "Pool_MC failed chunk dropped from the result (negative control)")
    ctx.model(recs, "Pool_RecMC record contents crossing the process boundary", vacuity=["Check"])

    ctx.notes["phase_s"] = {"model_checking": ctx.timer.elapsed()}
    small_scheds = _schedules(small)
    chunk_scheds = _schedules(chunked)
    shapes = _shapes(recs)
    if not small_scheds or not chunk_scheds or not shapes:
        raise MachineryError("no cases read from the TLC dumps")
    # batches that as a whole cannot finish within the timeout (independent of any forced schedule): run first
    timed_events, timed_by_id = _timed_batches(10 ** 7)
    ctx.validate("Pool_Trace", timed_events, timed_by_id, min_per_shard=50)
    ctx.notes["timed_batches"] = len(timed_events)
    cases = _select_cases(ctx, rng, small_scheds, chunk_scheds)
    cases += _sweep_cases(ctx, rng)
    cases += _exec_cases(ctx, rng, small_scheds)
    cases += _transport_cases(ctx, rng, shapes)
    for idx, case in enumerate(cases):
        case["id"] = idx
    # interleave cheap and slow (hanging) cases over the helper processes
    order = list(cases)
    rng.shuffle(order)
    jobs = [(ctx.workdir, part) for part in chunks(order, CPUS * 6)]
    observed = {}
    for part in _fanout(jobs, CPUS):
        for event in part:
            observed[event["id"]] = event
    ctx.notes["phase_s"]["real_runs_done"] = ctx.timer.elapsed()
    stuck = [case for case in cases if observed[case["id"]]["_stuck"]]
    events = [_strip(observed[case["id"]]) for case in cases if not observed[case["id"]]["_stuck"]]
    by_id = {}
    for case in cases:
        event = observed[case["id"]]
        by_id[case["id"]] = {"op": case["op"], "input": case["input"], "call": _call_text(case["op"], case["input"]),
                             "observed": {k: event[k] for k in _OBSERVED_KEYS if k in event},
                             "features": _features(case["op"], case["input"]), "sampled": case["sampled"]}
        data = case["input"]
        if case["op"] == "call" and (data["sched"] != sorted(data["sched"]) or set(data["c"]["out"]) != {"ok"}):
            ctx.nontrivial_case(case["id"])
        if case["op"] == "transport" and any(shape["genes"] for shape in data["shapes"]):
            ctx.nontrivial_case(case["id"])
        if case["op"] == "exec" and data["sched"] != sorted(data["sched"]):
            ctx.nontrivial_case(case["id"])
    ctx.evaluations = len(cases)
    ctx.validate("Pool_Trace", events, by_id)
    ctx.notes["phase_s"]["trace_validation_done"] = ctx.timer.elapsed()
    drift = [f for f in ctx.failures if f["op"] == "drift"]
    broken = [f for f in ctx.failures if f["op"] in ("machinery", "trace")]
    ctx.failures = [f for f in ctx.failures if f["op"] not in ("drift", "machinery", "trace")]
    ctx.notes["drift_observed_order_not_in_model"] = len(drift)
    really_stuck = [case for case in stuck if not observed[case["id"]].get("_skipped")]
    ctx.notes["schedules_not_enforced"] = len(really_stuck) + len(broken)
    ctx.notes["forced_runs_skipped_after_stuck_budget"] = len(stuck) - len(really_stuck)
    if (stuck or broken) and not ctx.failures:
        if broken:
            what = broken[0]["clause"] + " on " + canon(broken[0]["input"])[:300]
        else:
            what = ("a task waited more than %.0f s for its predecessor, e.g. %s (%d further forced runs were not attempted)"
                    % (BARRIER_DEADLINE, canon(really_stuck[0]["input"])[:300] if really_stuck else "?",
                       len(stuck) - len(really_stuck)))
        raise MachineryError(f"{len(really_stuck) + len(broken)} schedules could not be enforced on the real pool "
                             f"(its chunking or worker count differs from Pool.tla, or the machine is overloaded): {what}")
    _canaries(ctx, events)
    kinds = {}
    for case in cases:
        kinds[case["op"]] = kinds.get(case["op"], 0) + 1
    shown = set()
    for case in cases:
        key = (case["op"], tuple(_features(case["op"], case["input"]))[:3])
        if case["op"] not in shown and (case["op"] != "call" or "has_raise" in key[1] or len(shown) > 1):
            shown.add(case["op"])
            sample = dict(by_id[case["id"]]["observed"])
            if case["op"] == "transport":
                sample = {"after_exc": sample["after"]["exc"], "records": len(sample["before"]),
                          "first_record": sample["before"][0] if sample["before"] else {}}
            ctx.sample({"case": case["input"] if case["op"] != "transport" else
                        {"via": case["input"]["via"], "cpus": case["input"]["cpus"], "shapes": case["input"]["shapes"][:2]},
                        "observed": sample})
    first_call = next(case for case in cases if case["op"] == "call" and "hang" in case["input"]["c"]["out"])
    ctx.sample({"case": first_call["input"], "observed": by_id[first_call["id"]]["observed"]})
    ctx.exhaustive = False
    ctx.rule = ("TLC explores every interleaving of workers and tasks for the listed batch sizes, worker counts and outcome "
                "vectors (ok / raises / hangs per task); every finished state is a completion order.  All orders without a "
                "hanging task are forced on the real parallel_function (barrier files), hanging ones and the chunked "
                "configuration (n > 4 cpus) by seeded sample; worker counts 1..16 with batches below/at/above the pool size "
                "use proposed orders that TLC first accepts as model behaviours; parallel_execute runs shell commands "
                "behind the same barriers; every record content of Pool_RecMC goes through the pool (identity, "
                "sanitise_sequence, ensure_cds_info with a stub gene finder) and pickle.  non-trivial = completion order "
                "differs from argument order or some task fails/hangs; for transports: the records carry genes")
    ctx.notes["cases_by_kind"] = kinds
    ctx.notes["record_shapes"] = len(shapes)
    ctx.notes["max_call_wall_ms"] = max((ev.get("_elapsed_ms", 0) for ev in observed.values()), default=0)
    ctx.assumptions += [
        "completion means 'the task function returned or raised'; the order in which the pool's result handler sees the "
        "chunks can differ from it by scheduling noise, which no verdict depends on",
        "with cpus = 1 the timeout is ignored (documented in the docstring): a hanging task may either surface as an "
        "error or simply take long; never a shorter or reordered list",
        "which exception type surfaces when several tasks fail is left open; an error must surface",
        "gene finding is a stub (no prodigal binary): what is checked is the transport of records through "
        "ensure_cds_info in workers, not gene finding itself",
    ]


def replay(ctx, record):
    data = record["input"]
    if "each_ms" in data:
        from ..common import import_repo  # pylint: disable=import-outside-toplevel
        import_repo()
        from antismash.common.subprocessing import parallel_function  # pylint: disable=import-outside-toplevel
        ret = P.result(lambda: parallel_function(slow_task, [[i + 1, data["each_ms"]] for i in range(data["n"])],
                                                 cpus=data["cpus"], timeout=data["timeout_ms"] / 1000.0), [], _ints)
        event = dict(data, id=0, op="timed", ret=ret)
        res = ctx.validate("Pool_Trace", [event], {0: {"op": "timed", "input": data, "observed": ret}})
        ctx.failures = [f for f in ctx.failures if f["clause"] == record["clause"]]
        return res
    op = "call" if "c" in data else ("exec" if "codes" in data else "transport")
    event = _strip(OBSERVERS[op](data, ctx.workdir))
    event["id"] = 0
    by_id = {0: {"op": op, "input": data, "call": _call_text(op, data),
                 "observed": {k: event[k] for k in _OBSERVED_KEYS if k in event}}}
    res = ctx.validate("Pool_Trace", [event], by_id)
    ctx.failures = [f for f in ctx.failures if f["op"] == record["op"] and f["clause"] == record["clause"]]
    return res
