""" C17 - same input, same output: results do not depend on the process or hash seed.

    spec: Determinism.tla (iteration order as the schedule; stage shapes and when they are order-free);
    Determinism_MC explores every input set and every pair of iteration orders (all schedules), with the partial-key
    sort as negative control; binding: tie-rich inputs are pushed through the real stages (hit refinement, detection,
    candidate clusters, regions, numbering, JSON and GenBank output) in K child interpreters with different
    PYTHONHASHSEED and heap noise; Determinism_Trace requires equal digests per stage across all runs.
"""

import json
import os
import random
import subprocess
import sys
from concurrent.futures import ThreadPoolExecutor

from .. import tlc
from ..common import CPUS, REPO, VERIF, MachineryError
from . import c03, c17_child

MC_CFG = """SPECIFICATION Spec
CONSTANTS
  MaxItems = %d
INVARIANT TotalKeyHidesOrder
INVARIANT PartialKeyHidesOrderIffNoTie
INVARIANT ListingLeaksOrder
"""
NEG_CFG = """SPECIFICATION Spec
CONSTANTS
  MaxItems = 3
INVARIANT PartialKeyAlwaysFine
"""
RICH_HITS = [[{"p": p, "s": s} for p, s in combo] for combo in (
    (("a", 60), ("b", 30), ("c", 70)), (("a", 60), ("b", 30), ("c", 70), ("d", 55), ("e", 55)), (("a", 40), ("c", 70), ("e", 20)),
    (("b", 30), ("d", 55)), (("a", 60), ("d", 55), ("e", 55), ("b", 30)), ())]


def make_case(rng, rules, genes):
    key = rng.choice(sorted(genes))
    scene = c03.make_scene(rng, genes, key, rng.choice([3, 4, 4]), hit_pool=RICH_HITS)
    ruleset = c03.make_ruleset(rng, rules, 3)
    # raw hits with equal starts / equal scores for the refinement stage
    raw = {}
    for g in range(1, 3):
        hsps = []
        for _ in range(rng.randrange(2, 6)):
            start = rng.choice([0, 0, 5, 10])
            hsps.append([rng.choice(["A", "B", "C", "D"]), start, start + rng.choice([20, 30]), float(rng.choice([50, 50, 60])), 1e-5])
        raw[f"q{g}"] = hsps
    return {"scene": scene, "rules": ruleset, "raw_hits": raw, "hmm_lengths": {"A": 30, "B": 30, "C": 40, "D": 25}}


def run_children(ctx, cases, seeds):
    path = os.path.join(ctx.workdir, "c17_cases.json")
    with open(path, "w", encoding="utf-8") as handle:
        json.dump(cases, handle)

    def one(seed):
        out = os.path.join(ctx.workdir, f"c17_out_{seed}.json")
        env = dict(os.environ)
        env["PYTHONHASHSEED"] = str(seed)
        env["VERIF_REPO"] = REPO
        proc = subprocess.run([sys.executable, "-m", "harness.props.c17_child", path, out, str(seed * 7919 + ctx.seed)],
                              cwd=VERIF, env=env, stdout=subprocess.PIPE, stderr=subprocess.STDOUT, check=False)
        if proc.returncode != 0 or not os.path.exists(out):
            raise MachineryError(f"C17 child with seed {seed} failed: {proc.stdout.decode()[-800:]}")
        with open(out, encoding="utf-8") as handle:
            return seed, json.load(handle)

    with ThreadPoolExecutor(max_workers=min(CPUS, len(seeds))) as pool:
        return list(pool.map(one, seeds))


def run(ctx):
    rng = random.Random(ctx.seed)
    mc = tlc.run("Determinism_MC", MC_CFG % (4 if ctx.quick else 5), ctx.workdir, coverage=True, timeout=3000)
    ctx.model(mc, "Determinism_MC: all input sets x all pairs of iteration orders", vacuity=["PickInput", "PickOrders"])
    neg = tlc.run("Determinism_MC", NEG_CFG, ctx.workdir, tag="_neg", timeout=600)
    ctx.expect_violation(neg, "PartialKeyAlwaysFine", "sorting a set by a partial key leaks the iteration order")
    cat = tlc.run("Detect_MC", c03.MC_CFG % 1, ctx.workdir, dump=True, timeout=3000, tag="_cat")
    ctx.model(cat, "Detect_MC catalogue of rules and gene locations (inputs of the pipeline stages)")
    rules, genes = c03.load_catalogues(cat)
    cases = [make_case(rng, rules, genes) for _ in range(400 if ctx.quick else 5000)]
    for idx, case in enumerate(cases):
        case["id"] = str(idx)
    seeds = list(range(0, 6 if ctx.quick else 32))
    outcomes = run_children(ctx, cases, seeds)
    events, by_id = [], {}
    for idx, case in enumerate(cases):
        runs = []
        orders = set()
        for seed, results in outcomes:
            res = results[str(idx)]
            runs.append({"seed": seed, "exc": res["exc"], "d": res["d"]})
            orders.add(res["orders"])
        events.append({"id": idx, "stages": c17_child.STAGES, "runs": runs})
        by_id[idx] = {"op": "pipeline", "input": {k: case[k] for k in ("scene", "rules", "raw_hits", "hmm_lengths")},
                      "call": f"harness.props.c17_child.run_case(case) under PYTHONHASHSEED in {seeds}",
                      "observed": runs[:3], "features": ["tie_rich"], "sampled": True}
        if len(orders) > 1:
            ctx.nontrivial_case(idx)
    ctx.evaluations = len(cases) * len(seeds)
    ctx.notes["interpreters"] = len(seeds)
    ctx.notes["pipeline_executions"] = len(cases) * len(seeds)
    ctx.validate("Determinism_Trace", events, by_id, min_per_shard=100)
    ctx.impl_runs = len(cases) * len(seeds)
    for case in cases[:2]:
        ctx.sample({"scene": case["scene"], "rules": [(r["name"], r["cutoff"], r["nbhd"]) for r in case["rules"]], "raw_hits": case["raw_hits"],
                    "digests_seed0": outcomes[0][1][case["id"]]["d"]})
    ctx.exhaustive = False
    ctx.rule = (f"seeded tie-rich inputs (3-5 profiles per gene incl. equal scores, 3 rules, equal starts / equal scores in raw hits) are run "
                f"through {len(c17_child.STAGES)} stage dumps ({', '.join(c17_child.STAGES)}) in {len(seeds)} interpreters with "
                "PYTHONHASHSEED = 0..K-1 and seeded heap noise; non-trivial = at least two different iteration orders of the case's "
                "profile-name / rule-name sets were actually observed across the interpreters")
    ctx.assumptions += ["stage-level dumps, not the full command line run (needs HMMER/prodigal)",
                        "address-dependent iteration orders are sampled through heap noise, not enumerated"]


def replay(ctx, record):
    case = dict(record["input"])
    case["id"] = "0"
    outcomes = run_children(ctx, [case], list(range(0, 8)))
    runs = [{"seed": seed, "exc": res["0"]["exc"], "d": res["0"]["d"]} for seed, res in outcomes]
    ctx.validate("Determinism_Trace", [{"id": 0, "stages": c17_child.STAGES, "runs": runs}],
                 {0: {"op": "pipeline", "input": record["input"], "observed": runs[:3]}})
    ctx.failures = [f for f in ctx.failures if f["op"] == record["op"]]
