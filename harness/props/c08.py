""" C08 - genes belong to exactly the areas that contain them, whatever the build order.

    Lookup half: spec Genes.tla; Genes_MC (locations universe, oracle meta-properties, negative control: the
    bisect-and-early-exit shape misses shadowed genes); binding: every layout of <= 3 genes over the universe
    (sampled for 4) x every query span x with_overlapping through Record.get_cds_features_within_location;
    Genes_Trace decides membership and order.
    Build-order half (area membership, cds.region, defining genes whatever the order of adding genes and areas):
    histories from props/c06.build_order_cases replayed on a real Record, membership clauses of RecordSM_Trace.
"""

import itertools
import random

from .. import tlc, tlaval
from ..common import CPUS, MachineryError, chunks, pmap
from .. import project as P

MC_CFG = """SPECIFICATION Spec
CONSTANTS
  LenSet = {%s}
INVARIANT WithinIsTouching
INVARIANT RotationFree
INVARIANT SortedSatisfies
"""
NEG_CFG = """SPECIFICATION Spec
CONSTANTS
  LenSet = {6}
INVARIANT ImplAgrees
"""


def _bridging(loc):
    parts = loc["parts"][::-1] if loc.get("strand") == -1 else loc["parts"]
    return any(a[0] > b[0] for a, b in zip(parts, parts[1:]))


def _observe(case):
    from .. import build as B
    from antismash.common.secmet.test.helpers import DummyCDS
    record = B.record(case["L"], case["circ"])
    names = {}
    order = list(range(len(case["genes"])))
    if case.get("shuffle"):
        random.Random(case["shuffle"]).shuffle(order)
    for idx in order:
        cds = DummyCDS(location=B.loc(case["genes"][idx]), locus_tag=f"g{idx + 1}")
        record.add_cds_feature(cds)
        names[cds.get_name()] = idx + 1
    queries = []
    for query in case["queries"]:
        ret = P.result(lambda query=query: [names[f.get_name()] for f in record.get_cds_features_within_location(
            B.loc(query["q"]), with_overlapping=query["ov"])], [])
        queries.append({"q": query["q"], "ov": query["ov"], "ret": ret})
    return {"id": case["id"], "op": "lookup", "L": case["L"], "circ": case["circ"], "genes": case["genes"], "queries": queries}


def _observe_many(cases):
    return [_observe(case) for case in cases]


def _features(case, query):
    feats = ["circular" if case["circ"] else "linear"]
    genes = case["genes"]
    if any(_bridging(g) for g in genes):
        feats.append("gene_spans_origin")
    if any(len(g["parts"]) > 1 and not _bridging(g) or len(g["parts"]) > 2 for g in genes):
        feats.append("gene_in_several_exons")
    if _bridging(query["q"]):
        feats.append("query_spans_origin")
    plain = [(g["parts"][0][0], g["parts"][0][1]) for g in genes if len(g["parts"]) == 1]
    for i, (s1, e1) in enumerate(plain):
        for j, (s2, e2) in enumerate(plain):
            if i != j and s1 <= s2 and e2 <= e1:
                feats.append("gene_shadowed_by_nested_or_same_start_gene")
            if i != j and s1 < s2 < e1:
                feats.append("genes_overlap")
    return sorted(set(feats))


def _call(case, query):
    return (f"rec=DummyRecord(seq='A'*{case['L']}, circular={case['circ']}); [rec.add_cds_feature(DummyCDS(location=build.loc(g), "
            f"locus_tag=f'g{{i+1}}')) for i, g in enumerate({case['genes']})]; "
            f"rec.get_cds_features_within_location(build.loc({query['q']}), with_overlapping={query['ov']})")


def run(ctx):
    rng = random.Random(ctx.seed)
    lens = "6, 7" if ctx.quick else "6, 7, 8, 9"
    mc = tlc.run("Genes_MC", MC_CFG % lens, ctx.workdir, dump=True, coverage=True, timeout=3000)
    ctx.model(mc, "Genes_MC oracle meta-properties", vacuity=["PickLoc", "PickLayout"])
    neg = tlc.run("Genes_MC", NEG_CFG, ctx.workdir, tag="_neg", timeout=1200, workers=1, seed=1)  # sampled model: fixed draw
    ctx.expect_violation(neg, "ImplAgrees", "bisect-and-early-exit lookup shape misses shadowed genes (P8 on the model)")
    universe, spliced = {}, {}
    for state in tlaval.read_dump(mc.dump_path, keep=lambda text: "stage = 1" in text or "stage = 3" in text):
        key = (state["R"]["L"], state["R"]["circ"])
        (universe if state["stage"] == 1 else spliced).setdefault(key, []).append(
            {"parts": [list(p) for p in state["a"]["parts"]], "strand": 1})
    if not spliced:
        raise MachineryError("vacuous model run: no spliced gene location")
    cases = []
    exhaustive_up_to = 6 if ctx.quick else 7
    for key in sorted(universe):
        length, circ = key
        locs = sorted(universe[key], key=lambda x: (len(x["parts"]), x["parts"]))
        queries = [{"q": q, "ov": ov} for q in locs for ov in (False, True)]
        layouts = []
        if length <= exhaustive_up_to:
            for count in (1, 2, 3):
                layouts += [list(c) for c in itertools.combinations(locs, count)]
            sampled = False
        else:
            layouts = [rng.sample(locs, rng.choice([2, 3])) for _ in range(1500 if ctx.quick else 6000)]
            sampled = True
        layouts += [rng.sample(locs, 4) for _ in range(600 if ctx.quick else 8000)]
        # genes in several exons: alone, paired with every arc (short records), and in sampled layouts of three
        exons = sorted(spliced.get(key, []), key=lambda x: (len(x["parts"]), x["parts"]))
        with_exons = [[gene] for gene in exons]
        if length <= exhaustive_up_to:
            with_exons += [[gene, other] for gene in exons for other in locs]
        else:
            with_exons += [[rng.choice(exons), rng.choice(locs)] for _ in range(1500 if ctx.quick else 6000)]
        with_exons += [[rng.choice(exons), rng.choice(exons + locs), rng.choice(locs)] for _ in range(600 if ctx.quick else 8000)]
        with_exons = [layout for layout in with_exons if len({str(g["parts"]) for g in layout}) == len(layout)]
        first_spliced = len(layouts)
        layouts += with_exons
        for idx, layout in enumerate(layouts):
            is_sampled = sampled or len(layout) == 4 or (idx >= first_spliced and len(layout) > 1)
            genes = []
            for gene in layout:
                gene = dict(gene)
                gene["strand"] = rng.choice([1, -1])
                if gene["strand"] == -1:
                    gene["parts"] = gene["parts"][::-1]
                genes.append(gene)
            limit = 24 if idx >= first_spliced else 80
            qs = queries if not is_sampled or len(queries) <= limit else rng.sample(queries, limit)
            cases.append({"L": length, "circ": circ, "genes": genes, "queries": qs, "sampled": is_sampled,
                          "shuffle": rng.randrange(1, 10 ** 6) if idx % 2 else 0})
    # larger random records
    for _ in range(300 if ctx.quick else 5000):
        length = rng.choice([30, 45, 60])
        circ = rng.random() < 0.6
        genes = []
        for _ in range(rng.randrange(4, 13)):
            size = rng.choice([rng.randrange(1, 14), rng.randrange(1, 14), rng.randrange(14, 28)])
            start = rng.randrange(0, length)
            strand = rng.choice([1, -1])
            if start + size <= length:
                parts = [[start, start + size]]
            elif circ:
                parts = [[start, length], [0, start + size - length]]
                if strand == -1:
                    parts.reverse()
            else:
                parts = [[length - size, length]]
            if len(parts) == 1 and size >= 3 and rng.random() < 0.25:
                # two exons around an intron: the gene spans more of the record than it has bases
                first = rng.randrange(1, size - 1)
                second = rng.randrange(first + 1, size)
                begin = parts[0][0]
                parts = [[begin, begin + first], [begin + second, begin + size]]
                if strand == -1:
                    parts.reverse()
            gene = {"parts": parts, "strand": strand}
            if all(g["parts"] != gene["parts"] or g["strand"] != gene["strand"] for g in genes):
                genes.append(gene)
        queries = []
        for _ in range(30):
            size = rng.randrange(1, length)
            start = rng.randrange(0, length)
            if start + size <= length:
                query = {"parts": [[start, start + size]], "strand": 1}
            elif circ:
                query = {"parts": [[start, length], [0, start + size - length]], "strand": 1}
            else:
                query = {"parts": [[start, length]], "strand": 1}
            queries.append({"q": query, "ov": rng.random() < 0.5})
        cases.append({"L": length, "circ": circ, "genes": genes, "queries": queries, "sampled": True,
                      "shuffle": rng.randrange(1, 10 ** 6)})
    for idx, case in enumerate(cases):
        case["id"] = idx
    by_case = {case["id"]: case for case in cases}
    samples = {}
    for start in range(0, len(cases), 6000):
        part = cases[start:start + 6000]
        events = [ev for sub in pmap(_observe_many, chunks(part, CPUS * 4)) for ev in sub]
        res = ctx.validate("Genes_Trace", events, None, min_per_shard=100)
        # rejections come back as "op/clause@k": turn each into a failure naming the exact query
        ctx.failures = [f for f in ctx.failures if set(f.get("input", {})) != {"event"}]
        by_event = {ev["id"]: ev for ev in events}
        for ident in (cases[len(cases) // 5]["id"], cases[-1]["id"]):
            if ident in by_event:
                case = by_case[ident]
                samples[ident] = {"L": case["L"], "circ": case["circ"], "genes": case["genes"],
                                  "first_queries": by_event[ident]["queries"][:3]}
        for ident, clauses in sorted(res.rejects.items()):
            case = by_case[ident]
            for text in sorted(set(clauses)):
                head, qidx = text.rsplit("@", 1)
                op, clause = head.split("/", 1)
                query = case["queries"][int(qidx) - 1]
                ctx.fail({"op": op, "clause": clause, "input": {"L": case["L"], "circ": case["circ"], "genes": case["genes"],
                                                                 "q": query["q"], "ov": query["ov"]},
                          "call": _call(case, query), "observed": by_event[ident]["queries"][int(qidx) - 1]["ret"],
                          "features": _features(case, query), "sampled": case["sampled"]})
        del events, by_event
    # build-order half: histories in which genes are added before / after / between the areas and region creation,
    # replayed on a real Record; RecordSM_Trace decides the membership clauses for every logged step
    from . import c06  # pylint: disable=import-outside-toplevel
    order_cases, _ = c06.build_order_cases(rng, 1200 if ctx.quick else 40000, 10 ** 7)
    membership = ("protocluster_lists_contained_genes", "defining_genes_are_core_annotated_genes_in_core",
                  "subregion_lists_contained_genes", "candidate_lists_contained_genes", "region_lists_contained_genes",
                  "gene_points_to_the_region_containing_it", "no_exception", "genes_as_added")
    ctx.notes["build_order_calls_validated"] = c06.validate_cases(ctx, order_cases, only_clauses=membership)
    ctx.notes["build_order_histories"] = len(order_cases)
    lookups = sum(len(case["queries"]) for case in cases)
    ctx.evaluations = lookups
    ctx.notes["lookups"] = lookups
    ctx.notes["layouts"] = len(cases)
    for case in cases:
        if len(case["genes"]) >= 2 and (any(_bridging(g) for g in case["genes"])
                                        or "gene_shadowed_by_nested_or_same_start_gene" in _features(case, case["queries"][0])):
            ctx.nontrivial_case(case["id"])
    for ident in sorted(samples):
        ctx.sample(samples[ident])
    ctx.exhaustive = True
    ctx.rule = ("TLC enumerates all simple and origin-spanning arcs of the listed record lengths (linear and circular); the harness "
                "forms every layout of 1-3 genes (4 genes and longer records: seeded samples), every gene in several exons (one intron; an "
                "exon cut by the origin plus another exon) alone and next to every arc, sampled layouts of three with such genes, random strands and insertion orders, "
                "and asks for every arc as query with and without with_overlapping; non-trivial layout = contains an origin-spanning "
                "gene or a gene nested in / starting with another")
    ctx.assumptions += ["exhaustive for layouts of <= 3 genes on records up to the stated length; sampled beyond"]


def replay(ctx, record):
    inp = record["input"]
    case = {"id": 0, "L": inp["L"], "circ": inp["circ"], "genes": inp["genes"], "queries": [{"q": inp["q"], "ov": inp["ov"]}]}
    event = _observe(case)
    res = ctx.validate("Genes_Trace", [event], None)
    ctx.failures = []
    for text in res.rejects.get(0, []):
        head, _ = text.rsplit("@", 1)
        op, clause = head.split("/", 1)
        if clause == record["clause"]:
            ctx.fail({"op": op, "clause": clause, "input": inp, "observed": event["queries"][0]["ret"]})
