""" C16 - sanitised record identifiers are unique, short and filesystem-safe.

    spec: RecordIds.tla; model run: RecordIds_MC (all lists of <= 3 ids from a pool x both settings;
    the repaired pipeline satisfies the post-condition, the pipeline as implemented violates it:
    negative controls exhibiting P7 and the over-long shortened id inside TLC; its stage-2 states are
    the cases replayed); binding: every list goes through the real pre_process_sequences (real
    Config, 1 cpu, stub gene finding) and the observed ids / names / original ids are decided by TLC
    in RecordIds_Trace, as are direct calls of fix_record_name_id, generate_unique_id and
    Record.add_cds_feature with colliding gene identifiers.  No oracle on the python side.
"""

import itertools
import random
import re
from concurrent.futures import ThreadPoolExecutor

from .. import tlc, tlaval
from ..common import chunks, pmap, CPUS
from .. import project as P

L17 = "ABCDEFGHIJKLMNOPQ"
# (identifier, contig number written inside it; 0 = none)
POOL_QUICK = [
    ("a", 0), ("ab", 0), ("a:b", 0), ("a b", 0), (":", 0), ("a_0", 0), ("ab_0", 0), ("a.1", 0),
    ("ABCDEFGHIJKLMNOP", 0), (L17, 0), ("ABCDEFGHIJKLMNOPR", 0), ("ABC:DEFGHIJKLMNOPQ", 0),
    ("ABCDEFGHIJKLMNO.1", 0), ("ABCDEFGHIJKLMNO", 0), ("c00001_ABCDEFG..", 0), ("ABCDEFGHIJKL_0", 0),
    ("ABC:DEFGHIJ_contig7", 7), ("ABCD:EFGHIJ_contig7", 7), ("ABCDEFGHIJ_contig123456", 123456),
]
POOL_MORE = [
    ("ab:", 0), ("::", 0), ("a:b_0", 0), ("a;b", 0), ("ABCDEFGH:IJKLMNOPQ", 0), ("ABCDEFGHIJKLMNO.2", 0),
    ("ABCDEFGHIJKL:MNO.1", 0), ("c00002_ABCDEFG..", 0), ("c00001_ABCDEF..", 0), ("ABCDEFGHIJK_contig7", 7),
    ("c00007_ABCDEFG..", 0), (":::::::::::::::::", 0), ("ABCDEFGHIJKLMNO:Q", 0), ("AB CDEFGHIJKLMNOPQ", 0),
]
ILLEGAL = set('''!"#$%&()*+,:;=>?@[]^`'{|}/ ''')     # only used to label inputs (features), never to judge results

MC_CFG = """SPECIFICATION Spec
CONSTANTS
  Pool <- MC_Pool
  MaxIds = %(max)d
INVARIANT RepairedSatisfies
INVARIANT ImplOtherClauses
INVARIANT RepairConservative
INVARIANT StageOneDistinct
"""
NEG_CFG = """SPECIFICATION Spec
CONSTANTS
  Pool <- MC_Pool
  MaxIds = 2
INVARIANT %s
"""
WRAPPER = """---- MODULE MC_RecordIds ----
EXTENDS RecordIds_MC
MC_Pool == %s
====
"""


def enc(string) -> list:
    return [ord(ch) for ch in string]


def dec(codes) -> str:
    return "".join(chr(c) for c in codes)


# ---- observation (worker processes) ---------------------------------------------------------------
_STATE = {}


def _setup():
    """ real Config (isolated), one cpu, stub gene finding; once per worker process """
    if _STATE:
        return _STATE
    from .. import build  # noqa: F401  pylint: disable=unused-import,import-outside-toplevel
    import logging  # pylint: disable=import-outside-toplevel
    from antismash import config  # pylint: disable=import-outside-toplevel

    class Genefinding:
        def get_arguments(self):
            args = config.args.ModuleArgs("genefinding", "genefinding")
            args.add_option("gff3", default="", type=str, help="dummy", dest="gff3")
            args.add_option("tool", default="", type=str, help="dummy", dest="tool")
            return args

        def run_on_record(self, _record, _options):
            return None

    logging.disable(logging.CRITICAL)
    config.destroy_config()
    stub = Genefinding()
    options = config.build_config(["--cpus", "1"], isolated=True, modules=[stub])
    config.update_config({"triggered_limit": False, "minlength": 0, "limit": -1})
    _STATE.update({"config": config, "options": options, "genefinding": stub})
    return _STATE


def _make_record(ident, name, index=0):
    from antismash.common.secmet.test.helpers import DummyCDS, DummyRecord  # pylint: disable=import-outside-toplevel
    record = DummyRecord(seq="ACGTACGTACGT", record_id=ident, features=[DummyCDS(0, 9, locus_tag="gene", translation="MAA")])
    record.name = name
    record.record_index = index
    return record


def _project_record(record):
    return {"id": enc(record.id), "name": enc(record.name), "orig": enc(record.original_id or "")}


def _observe_ids(case):
    state = _setup()
    from antismash.common import record_processing  # pylint: disable=import-outside-toplevel
    state["config"].update_config({"allow_long_headers": bool(case["allow"])})
    records = [_make_record(dec(item["id"]), dec(item["name"])) for item in case["in"]]
    # every third case only the first record is analysed, the others are skipped by the record limit
    limit = 1 if sum(len(item["id"]) for item in case["in"]) % 3 == 0 else -1
    state["config"].update_config({"limit": limit})
    event = dict(case)
    kept = {}

    def run():
        kept["out"] = record_processing.pre_process_sequences(records, state["options"], state["genefinding"])
        return kept["out"]
    event["res"] = P.result(run, [], lambda out: [_project_record(rec) for rec in out])
    state["config"].update_config({"limit": -1})

    def through_results_file():
        # what a later run reusing the results gets to see of these records
        import os  # pylint: disable=import-outside-toplevel
        import tempfile  # pylint: disable=import-outside-toplevel
        from antismash.common import serialiser  # pylint: disable=import-outside-toplevel
        out = kept["out"]
        handle, path = tempfile.mkstemp(suffix=".json")
        os.close(handle)
        try:
            serialiser.AntismashResults("in.gbk", out, [{} for _ in out], "verif").write_to_file(path)
            # read the way a run with --reuse-results reads them (main.read_data: from_file, annotations stripped)
            from antismash import main as core  # pylint: disable=import-outside-toplevel
            state["config"].update_config({"reuse_results": path})
            try:
                return core.read_data(None, state["options"]).records
            finally:
                state["config"].update_config({"reuse_results": ""})
        finally:
            os.unlink(path)
    def through_genbank_comments():
        # what the GenBank outputs of this run say about these records (the antiSMASH-Data comment of each)
        from antismash import main as core  # pylint: disable=import-outside-toplevel
        out = kept["out"]
        pairs = [(rec, rec.to_biopython()) for rec in out]
        core.add_antismash_comments(pairs, state["options"])
        return [bio.annotations["structured_comment"]["antiSMASH-Data"].get("Original ID", "") for _, bio in pairs]
    if event["res"]["exc"]:
        event["saved"] = {"exc": "", "v": []}
        event["gbk"] = {"exc": "", "v": []}
    else:
        event["saved"] = P.result(through_results_file, [], lambda out: [_project_record(rec) for rec in out])
        event["gbk"] = P.result(through_genbank_comments, [], lambda out: [enc(orig) for orig in out])
    return event


def _observe_fix(case):
    _setup()
    from antismash.common import record_processing  # pylint: disable=import-outside-toplevel
    record = _make_record(dec(case["in"]["id"]), dec(case["in"]["name"]), case["index"])
    taken = {dec(item) for item in case["taken"]}
    event = {k: v for k, v in case.items() if k != "index"}

    def run():
        record_processing.fix_record_name_id(record, taken, case["allow"])
        return {"rec": _project_record(record), "taken": sorted(enc(item) for item in taken)}
    event["res"] = P.result(run, {"rec": {"id": [], "name": [], "orig": []}, "taken": []})
    return event


def _observe_unique(case):
    _setup()
    from antismash.common import record_processing  # pylint: disable=import-outside-toplevel
    existing = {dec(item) for item in case["existing"]}
    event = dict(case)
    event["res"] = P.result(lambda: record_processing.generate_unique_id(dec(case["prefix"]), existing, 0, case["max"])[0],
                            [], enc)
    return event


def _observe_genes(case):
    _setup()
    from antismash.common.secmet.features import CDSFeature  # pylint: disable=import-outside-toplevel
    from antismash.common.secmet.locations import FeatureLocation  # pylint: disable=import-outside-toplevel
    from antismash.common.secmet.test.helpers import DummyRecord  # pylint: disable=import-outside-toplevel
    event = {"id": case["id"], "op": "genes",
             "genes": [{"tag": g["tag"], "pid": g["pid"], "gene": g["gene"], "loc": g["loc"]} for g in case["genes"]]}
    progress = {"at": 0}
    added = []

    def run():
        record = DummyRecord(seq="A" * 90)
        for idx, gene in enumerate(case["genes"]):
            start, end, strand = gene["loc"][:3]
            location = FeatureLocation(start, end, strand)
            if len(gene["loc"]) > 3:
                from antismash.common.secmet.locations import CompoundLocation  # pylint: disable=import-outside-toplevel
                middle = start + 6 + 6 * gene["loc"][3]
                location = CompoundLocation([FeatureLocation(start, start + 6, strand), FeatureLocation(middle, middle + 6, strand),
                                             FeatureLocation(end - 6, end, strand)])
            feature = CDSFeature(location, translation="MA",
                                 locus_tag=dec(gene["tag"]) or None, protein_id=dec(gene["pid"]) or None,
                                 gene=dec(gene["gene"]) or None)
            progress["at"] = idx + 1
            record.add_cds_feature(feature)
            added.append(feature)
        progress["at"] = 0
        names = [feature.get_name() for feature in added]
        found = []
        for name in names:
            hit = record.get_cds_by_name(name)
            found.append(1 + next((i for i, feature in enumerate(added) if feature is hit), -1))
        return {"names": [enc(name) for name in names], "found": found, "at": 0}
    res = P.result(run, {"names": [], "found": [], "at": 0})
    if res["exc"]:
        res["v"] = {"names": [], "found": [], "at": progress["at"]}
    event["res"] = res
    return event


def _observe(case):
    return {"ids": _observe_ids, "fix": _observe_fix, "unique": _observe_unique, "genes": _observe_genes}[case["op"]](case)


def _observe_many(cases):
    return [_observe(case) for case in cases]


# ---- inputs --------------------------------------------------------------------------------------------
def _ids_features(case):
    ids = [dec(item["id"]) for item in case["in"]]
    feats = ["long_headers_allowed" if case["allow"] else "long_headers_refused"]
    if any(ch in ILLEGAL for ident in ids for ch in ident):
        feats.append("has_illegal_character")
    if len(set(ids)) < len(ids):
        feats.append("has_duplicate_ids")
    if any(len(ident) > 16 for ident in ids):
        feats.append("has_long_id")
    if any(len(dec(item["name"])) > 16 for item in case["in"]):
        feats.append("has_long_name")
    if any(re.search(r"\d{6,}", dec(item[key])) for item in case["in"] for key in ("id", "name")):
        feats.append("digit_run_over_five")
    if any(ident and all(ch in ILLEGAL for ch in ident) or not ident for ident in ids):
        feats.append("id_without_usable_character")
    return sorted(feats)


def _ids_call_text(case):
    pairs = [(dec(item["id"]), dec(item["name"])) for item in case["in"]]
    return (f"update_config({{'allow_long_headers': {case['allow']}}}); pre_process_sequences([record(id, name) for id, name in "
            f"{pairs}], options, stub_genefinding) -> [(r.id, r.name, r.original_id)]")


def case_input(case):
    return {k: v for k, v in case.items() if k not in ("id", "sampled", "impl")}


def _wire(event):
    out = {k: v for k, v in event.items() if k not in ("sampled", "impl")}
    if out["op"] == "ids":
        out["in"] = [{"id": item["id"], "name": item["name"]} for item in out["in"]]
    return out


RANDOM_PIECES = ["a", "b", "ab", ":", " ", "_", ".1", "_0", "_1", "/", "|", "x", "contig12", "scaffold3", "c5 ",
                 "ABCDEFGH", "IJKLMNOPQ", "contig123456", "'", "(", "="]


def _random_id(rng):
    ident = "".join(rng.choice(RANDOM_PIECES) for _ in range(rng.choice([1, 2, 2, 3, 4, 5])))
    return ident[:rng.choice([40, 17, 16, 40])]


def _random_ids_case(rng):
    base = [_random_id(rng) for _ in range(rng.choice([2, 3, 4, 5, 6]))]
    if rng.random() < 0.4:
        base.append(rng.choice(base))
    if rng.random() < 0.5:
        victim = rng.choice(base)
        pos = rng.randrange(len(victim) + 1)
        base.append(victim[:pos] + rng.choice(":; /|") + victim[pos:])
    rng.shuffle(base)
    items = []
    for ident in base:
        name = ident if rng.random() < 0.6 else _random_id(rng)
        items.append({"id": enc(ident), "name": enc(name)})
    return {"op": "ids", "allow": rng.random() < 0.4, "in": items, "sampled": True}


def _fix_cases(rng, pool, count):
    cases = []
    strings = [s for s, _ in pool]
    for _ in range(count):
        ident = rng.choice(strings)
        taken = set(rng.sample(strings, rng.randrange(0, 6))) | {ident}
        stripped = "".join(ch for ch in ident if ch not in ILLEGAL)     # input construction: make the clash likely
        if rng.random() < 0.5:
            taken.add(stripped)
        if rng.random() < 0.3:
            taken.add(f"c{3:05d}_{ident[:7]}..")
        name = ident if rng.random() < 0.7 else rng.choice(strings)
        cases.append({"op": "fix", "allow": rng.random() < 0.3, "index": 3, "in": {"id": enc(ident), "name": enc(name)},
                      "taken": sorted(enc(item) for item in taken), "sampled": True})
    return cases


def _fix_features(case):
    ident = dec(case["in"]["id"])
    feats = ["long_headers_allowed" if case["allow"] else "long_headers_refused"]
    if any(ch in ILLEGAL for ch in ident):
        feats.append("has_illegal_character")
    if len(ident) > 16:
        feats.append("has_long_id")
    if re.search(r"\d{6,}", ident) or re.search(r"\d{6,}", dec(case["in"]["name"])):
        feats.append("digit_run_over_five")
    return sorted(feats)


def _unique_cases():
    cases = []
    prefixes = ["a", "ab", "a_0", ""]
    for prefix in prefixes:
        names = [f"{prefix}_{k}" for k in range(12)]
        for taken_upto, extra, maximum in itertools.product((0, 1, 3, 10, 11), ((), ("a_1",), ("a_0_0", "ab")), (-1, 0, 3, 4, 5, 16)):
            existing = sorted(set(names[:taken_upto]) | set(extra))
            cases.append({"op": "unique", "prefix": enc(prefix), "existing": [enc(x) for x in existing], "max": maximum})
    return cases


GENE_TAGS = ["", "g1", "g:1", "g_1", "g 1", "g2"]
GENE_PIDS = ["", "p1", "p:1", "g1"]
GENE_NAMES = ["", "x", "g1"]
GENE_LOCS = [[0, 9, 1], [3, 12, 1], [3, 12, -1], [30, 39, 1], [30, 36, -1]]
# splice variants: same start, end and strand, another middle exon (fourth entry: which one)
SPLICED_LOCS = [[0, 45, 1, 1], [0, 45, 1, 2], [0, 45, 1, 3]]


def _gene_universe():
    genes = []
    for tag, pid, name in itertools.product(GENE_TAGS, GENE_PIDS, GENE_NAMES):
        if tag or pid or name:
            genes.append((tag, pid, name))
    return genes


def _genes_cases(rng, exhaustive_pairs, count):
    universe = _gene_universe()
    cases = []

    def gene(ident, loc):
        return {"tag": enc(ident[0]), "pid": enc(ident[1]), "gene": enc(ident[2]), "loc": loc}
    if exhaustive_pairs:
        # every ordered pair of identifier triples with a name from the first id slot, on overlapping / equal / disjoint locations
        core = [g for g in universe if (g[0] and not g[1] and not g[2]) or (not g[0] and g[1] and not g[2])
                or (not g[0] and not g[1] and g[2]) or g in (("g1", "p1", "x"), ("g:1", "g1", ""), ("", "p:1", "g1"), ("", "g1", "x"))]
        for one, two in itertools.product(core, repeat=2):
            for loc_two in (GENE_LOCS[0], GENE_LOCS[1], GENE_LOCS[3]):
                cases.append({"op": "genes", "genes": [gene(one, GENE_LOCS[0]), gene(two, loc_two)]})
    for _ in range(count):
        picked = [gene(rng.choice(universe), rng.choice(GENE_LOCS + SPLICED_LOCS)) for _ in range(rng.choice([2, 3, 3, 4]))]
        cases.append({"op": "genes", "genes": picked, "sampled": True})
    # splice variants of one gene: the same name three or four times, two or three of them with the same extent
    for ident in [g for g in universe if g[0]][:12]:
        for first in (GENE_LOCS[0], SPLICED_LOCS[0]):
            cases.append({"op": "genes", "genes": [gene(ident, first)] + [gene(ident, loc) for loc in SPLICED_LOCS[1:]], "sampled": True})
    return cases


def _genes_features(case):
    feats = []
    names = [dec(g["tag"]) or dec(g["gene"]) or dec(g["pid"]) for g in case["genes"]]
    if len(set(names)) < len(names):
        feats.append("equal_names")
    if any(ch in ILLEGAL for name in names for ch in name):
        feats.append("has_illegal_character")
    locs = [tuple(g["loc"]) for g in case["genes"]]
    if any(len(loc) > 3 for loc in locs):
        feats.append("splice_variants")
    if len(set(locs)) < len(locs):
        feats.append("equal_locations")
    return sorted(feats)


def _genes_call_text(case):
    genes = [(dec(g["tag"]) or None, dec(g["pid"]) or None, dec(g["gene"]) or None, g["loc"]) for g in case["genes"]]
    return (f"rec=DummyRecord(seq='A'*90); [rec.add_cds_feature(CDSFeature(FeatureLocation(s, e, d), translation='MA', locus_tag=t, "
            f"protein_id=p, gene=g)) for t, p, g, (s, e, d) in {genes}]")


def _meta(case):
    op = case["op"]
    if op == "ids":
        return {"call": _ids_call_text(case), "features": _ids_features(case)}
    if op == "fix":
        return {"call": (f"rec=record({dec(case['in']['id'])!r}, name={dec(case['in']['name'])!r}, record_index=3); "
                         f"taken={sorted(dec(x) for x in case['taken'])}; fix_record_name_id(rec, taken, {case['allow']})"),
                "features": _fix_features(case)}
    if op == "unique":
        return {"call": (f"generate_unique_id({dec(case['prefix'])!r}, {sorted(dec(x) for x in case['existing'])}, 0, "
                         f"{case['max']})"), "features": []}
    return {"call": _genes_call_text(case), "features": _genes_features(case)}


def _load_cases(run):
    cases = []
    for state in tlaval.read_dump(run.dump_path):
        if state["stage"] != 2:
            continue
        items = [{"id": list(x["id"]), "name": list(x["id"]), "no": x["no"]} for x in state["ids"]]
        cases.append({"op": "ids", "allow": state["allow"], "in": items,
                      "impl": {"rejected": state["impl"]["rejected"], "ids": [list(x) for x in state["impl"]["ids"]]}})
    cases.sort(key=lambda c: (c["allow"], [x["id"] for x in c["in"]]))
    return cases


def run(ctx):
    rng = random.Random(ctx.seed)
    pool = POOL_QUICK if ctx.quick else POOL_QUICK + POOL_MORE
    wrapper = {"MC_RecordIds.tla": WRAPPER % tlaval.to_tla(tlaval.TSet({"id": tuple(enc(s)), "no": no} for s, no in pool))}
    tlc.stage(ctx.workdir, wrapper)
    negatives = ("ImplDistinct", "ImplShort", "NeverRejected", "NeverChanged")
    with ThreadPoolExecutor(max_workers=5) as pool_exec:
        main = pool_exec.submit(tlc.run, "MC_RecordIds", MC_CFG % {"max": 3}, ctx.workdir, dump=True, coverage=True,
                                timeout=3000, workers=max(2, CPUS - 4))
        negs = [pool_exec.submit(tlc.run, "MC_RecordIds", NEG_CFG % inv, ctx.workdir, tag=f"_neg_{inv}", timeout=600, workers=1)
                for inv in negatives]
        mc = main.result()
        neg_runs = [f.result() for f in negs]
    ctx.model(mc, f"RecordIds_MC: repaired pipeline satisfies IdsOK on all lists of <= 3 ids from a pool of {len(pool)}, both settings",
              vacuity=["PickFirst", "PickRest"])
    for inv, neg in zip(negatives, neg_runs):
        ctx.expect_violation(neg, inv, f"RecordIds_MC negative control {inv}"
                             + (" (P7: strip after the uniqueness bookkeeping)" if inv == "ImplDistinct" else ""))

    cases = _load_cases(mc)
    exhaustive_lists = len(cases)
    for _ in range(3000 if ctx.quick else 60000):
        cases.append(_random_ids_case(rng))
    cases += _fix_cases(rng, POOL_QUICK + POOL_MORE, 2000 if ctx.quick else 30000)
    cases += _unique_cases()
    cases += _genes_cases(rng, True, 2000 if ctx.quick else 40000)
    for idx, case in enumerate(cases):
        case["id"] = idx
    events = [ev for part in pmap(_observe_many, chunks(cases, CPUS * 4)) for ev in part]
    observed = {ev["id"]: ev for ev in events}

    by_id = {}
    drift = []
    for case in cases:
        ident = case["id"]
        meta = _meta(case)
        res = observed[ident]["res"]
        by_id[ident] = {"op": case["op"], "input": case_input(case), "call": meta["call"], "features": meta["features"],
                        "sampled": case.get("sampled", False), "observed": res}
        if case["op"] == "ids":
            changed = res["exc"] or any(out["id"] != item["id"] for out, item in zip(res["v"], case["in"]))
            if changed:
                ctx.nontrivial_case(ident)
            if "impl" in case:
                seen = {"rejected": bool(res["exc"]), "ids": [] if res["exc"] else [out["id"] for out in res["v"]]}
                predicted = {"rejected": case["impl"]["rejected"], "ids": [] if case["impl"]["rejected"] else case["impl"]["ids"]}
                if seen != predicted:
                    drift.append({"in": [dec(x["id"]) for x in case["in"]], "allow": case["allow"],
                                  "code": [dec(x) for x in seen["ids"]], "model": [dec(x) for x in predicted["ids"]]})
        elif case["op"] == "genes" and (res["exc"] or [enc(dec(g["tag"]) or dec(g["gene"]) or dec(g["pid"])) for g in case["genes"]]
                                        != res["v"]["names"]):
            ctx.nontrivial_case(ident)
    ctx.evaluations = len(cases)
    ctx.validate("RecordIds_Trace", [_wire(ev) for ev in events], by_id)

    for case in (cases[exhaustive_lists // 2], next(c for c in cases if c["op"] == "fix"),
                 next(c for c in cases if c["op"] == "genes")):
        ctx.sample({"case": case_input(case), "call": _meta(case)["call"], "observed": observed[case["id"]]["res"]})
    ctx.exhaustive = True
    ctx.rule = (f"TLC enumerates every list of 1..3 ids from a pool of {len(pool)} (duplicates, ids differing only by illegal "
                "characters, ids equal to another's shortened / numbered form, versioned accessions, ids over 16 sharing a "
                "prefix, contig numbers, an id of illegal characters only) x both settings of allow_long_headers; each list is "
                "run through the real pre_process_sequences; plus seeded random lists of 2-8 ids with independent names, "
                "direct calls of fix_record_name_id / generate_unique_id, and add_cds_feature on every ordered pair of "
                "gene-identifier triples (plus random lists of 2-4 genes); non-trivial = some id was changed or the input "
                "refused (ids), a gene renamed or refused (genes)")
    ctx.notes["pool"] = [s for s, _ in pool]
    ctx.notes["exhaustive_lists"] = exhaustive_lists
    ctx.notes["impl_model_drift"] = {"lists_where_code_differs_from_ImplIds": len(drift), "examples": drift[:5]}
    ctx.assumptions += [
        "illegal characters are those of the constant in fix_record_name_id (also the documented reason: file names / "
        "GenBank headers); the spec carries its own copy",
        "refusing the whole input (AntismashInputError) is accepted only when some id has no usable character",
        "record names are checked for length and characters, not for uniqueness",
        "gene identifiers: unique among the accepted genes, every name finds its gene; refusal "
        "(SecmetInvalidInputError) only when the gene collides in (sanitised) name or location with an earlier one",
        "ids reach pre_process_sequences as secmet Records built in memory (not through file parsing); 1 cpu, in-process",
    ]


def replay(ctx, record):
    case = dict(record["input"])
    case["id"] = 0
    event = _observe(case)
    by_id = {0: {"op": case["op"], "input": record["input"], "call": _meta(case)["call"]}}
    res = ctx.validate("RecordIds_Trace", [_wire(event)], by_id)
    ctx.failures = [f for f in ctx.failures if f["op"] == record["op"] and f["clause"] == record["clause"]]
    return res
