""" C02 - rule text is parsed by the documented grammar, precedence and aliases.

    spec: RuleGrammar.tla (tokeniser, Render, the reference recursive-descent parser Denote and the
    parser state machine ParseFile/ParseFiles).  Model run: RuleGrammar_MC (round trip
    Denote(Render(ast, style)) = ast, constructed multi-rule / multi-file states, alias = inlining,
    constructive corruptions are ill-formed, separator independence of the tokeniser); its states
    of stage >= 2 are the cases.  Binding: the token texts of every case are joined with the
    chosen separators / comments and run through the real Parser (create_rules on temporary files
    for several files, Ruleset.from_files for the multiplier path); every rule is projected and
    RuleGrammar_Trace re-runs Denote on the tokens and decides.  Trace direction: the shipped
    strict/relaxed/loose rule files, tokenised and parsed by the real code, are validated item by
    item against the stateful model.
"""

import hashlib
import os
import signal
import sys
import tempfile
import types

from .. import tlc, tlaval
from ..common import CPUS, MachineryError, canon, pmap

ENV_SIGS = ["a", "b", "c", "d", "e", "f"]
ENV_CATS = ["C", "D"]
PUNCT = {"(", ")", "[", "]", ",", "."}
SEPARATORS = [" ", "\t", "\n", "  \n ", " # and or ) not\n", "#glued to the symbol before it, the next one starts its line\n"]
PARSE_TIMEOUT = 3.0
LEAD = "# leading comment RULE\n\n"
TRAIL = "   # trailing comment"

MC_CFG = """SPECIFICATION Spec
CONSTANTS
  MaxLeaves = %(leaves)d
  StyleMode = %(styles)d
  ReplVocab = {%(vocab)s}
  BaseMode = %(base)d
  Depth3Samples = %(deep)d
  CP <- MC_CP
  SepCP <- MC_SepCP
INVARIANT RoundTrip
INVARIANT EquivSane
INVARIANT FileDenotes
INVARIANT SuperiorsTransitive
INVARIANT AliasIsInlining
INVARIANT ConstructiveIsIllFormed
INVARIANT MultiplierOnlyScales
INVARIANT SeparatorsIrrelevant
INVARIANT InVocabulary
%(extra)s"""

VOCAB_QUICK = ["RULE", "CATEGORY", "CUTOFF", "CONDITIONS", "EXTENDERS", "DEFINE", "SUPERIORS", "(", ")", ",", "and", "or",
               "not", "cds", "minimum", "minscore", "a", "d", "zz", "x1", "r1", "C", "0", "2", "cluster", "1-200", "a!b"]
VOCAB_ALL = ["RULE", "CATEGORY", "DESCRIPTION", "EXAMPLE", "RELATED", "SUPERIORS", "CUTOFF", "NEIGHBOURHOOD", "CONDITIONS",
             "EXTENDERS", "DEFINE", "AS", "(", ")", "[", "]", ",", ".", "and", "or", "not", "minimum", "cds", "minscore",
             "a", "b", "d", "zz", "x1", "x2", "r1", "r2", "C", "NCBI", "0", "2", "007", "cluster", "score", "1-200", "9-3",
             "-1", "a!b"]
# every token text the generator can emit (for the code point table handed to the model)
ALL_TEXTS = sorted(set(VOCAB_ALL) | {"r0", "r3", "r4", "r5", "r9", "D", "Nope", "c", "e", "f", "some", "text", "more", "x", "AB123", "CD5",
                                     "compound", "name", "1", "3", "4", "5", "7", "10", "15", "20"})


# ---- text construction ------------------------------------------------------------------------
def join_tokens(tokens: list, sep: int) -> str:
    """ Token texts -> rule text.  sep 0..4: that separator everywhere; 5: no separator next to
        punctuation, single spaces elsewhere; 6: separators in rotation (the sixth, a comment glued to the symbol before
        it, only appears here), comment lines around. """
    out = []
    for idx, token in enumerate(tokens):
        if idx:
            if sep <= 4:
                out.append(SEPARATORS[sep])
            elif sep == 5:
                out.append("" if (token in PUNCT or tokens[idx - 1] in PUNCT) else " ")
            else:
                out.append(SEPARATORS[idx % len(SEPARATORS)])
        out.append(token)
    text = "".join(out)
    if sep == 6:
        text = LEAD + text + TRAIL
    return text


# ---- projection (mirrors the classes' attributes; all normalisation happens in TLC) -------------
def _tree(cond) -> dict:
    from antismash.common.hmm_rule_parser import rule_parser as rp
    if isinstance(cond, rp.MinimumCondition):
        return {"k": "min", "neg": bool(cond.negated), "n": int(cond.count), "opts": sorted(cond.options)}
    if isinstance(cond, rp.ScoreCondition):
        return {"k": "score", "neg": bool(cond.negated), "name": cond.name, "n": int(cond.score)}
    if isinstance(cond, rp.SingleCondition):
        return {"k": "id", "neg": bool(cond.negated), "name": cond.name}
    kind = "cds" if isinstance(cond, rp.CDSCondition) else "conds"
    return {"k": kind, "neg": bool(cond.negated), "items": [_tree(sub) for sub in cond.operands],
            "ops": [str(op) for op in cond.operators]}


def _whole(value) -> int:
    if isinstance(value, int):
        return value
    return int(value) if float(value).is_integer() else -1


NO_TREE = {"k": "none"}
DUMMY_RULE = {"name": "", "category": "", "cutoff": 0, "nbhd": 0, "superiors": [], "tree": NO_TREE,
              "ext": {"has": False, "tree": NO_TREE}}


def project_rule(rule) -> dict:
    return {"name": rule.name, "category": rule.category, "cutoff": _whole(rule.cutoff), "nbhd": _whole(rule.neighbourhood),
            "superiors": list(rule.superiors or []), "tree": _tree(rule.conditions),
            "ext": {"has": rule.extenders is not None, "tree": _tree(rule.extenders) if rule.extenders is not None else NO_TREE}}


class _Timeout(Exception):
    pass


def _alarm(_signum, _frame):
    raise _Timeout()


def guarded(func, shape, proj=None) -> dict:
    """ project.result with a wall-clock guard (a parser that never returns is an observation) """
    signal.signal(signal.SIGALRM, _alarm)
    signal.setitimer(signal.ITIMER_REAL, PARSE_TIMEOUT)
    try:
        value = func()
        signal.setitimer(signal.ITIMER_REAL, 0)
    except _Timeout:
        return {"exc": "Timeout", "v": shape}
    except Exception as err:  # pylint: disable=broad-except
        signal.setitimer(signal.ITIMER_REAL, 0)
        return {"exc": type(err).__name__, "v": shape}
    finally:
        signal.setitimer(signal.ITIMER_REAL, 0)
    return {"exc": "", "v": proj(value) if proj else value}


def _multipliers(mult):
    from antismash.common.hmm_rule_parser.structures import Multipliers
    return Multipliers(cutoff=mult[0] / mult[1], neighbourhood=mult[2] / mult[3])


def _write_files(texts, directory):
    paths = []
    for idx, text in enumerate(texts):
        path = os.path.join(directory, f"rules_{idx}.txt")
        with open(path, "w", encoding="utf-8") as handle:
            handle.write(text)
        paths.append(path)
    return paths


def _signature_files(directory):
    """ a signature table + equivalence-group file for Ruleset.from_files with the profiles of ENV_SIGS """
    sig_path = os.path.join(directory, "hmmdetails.txt")
    if not os.path.exists(sig_path):
        with open(os.path.join(directory, "seed.hmm"), "w", encoding="utf-8") as handle:
            handle.write("HMMER3/f\nNAME  x\nNSEQ  1\n")
        with open(sig_path, "w", encoding="utf-8") as handle:
            for name in ENV_SIGS:
                handle.write(f"{name}\tprofile {name}\t10\tseed.hmm\n")
        with open(os.path.join(directory, "filter.txt"), "w", encoding="utf-8") as handle:
            handle.write("")
    return sig_path, os.path.join(directory, "seed.hmm"), os.path.join(directory, "filter.txt")


def _parse_case(case: dict, texts: list, directory: str):
    """ runs the real code on the texts of one case; returns the list of rules """
    from antismash.common.hmm_rule_parser import rule_parser as rp, cluster_prediction as cp
    sigs, cats = set(ENV_SIGS), set(ENV_CATS)
    via = case["via"]
    if via == "parser":
        return rp.Parser(texts[0], sigs, cats, multipliers=_multipliers(case["mult"])).rules
    if via == "chain":
        rules, aliases = [], {}
        for text in texts:
            parser = rp.Parser(text, sigs, cats, rules, aliases, _multipliers(case["mult"]))
            rules, aliases = parser.rules, parser.aliases
        return rules
    paths = _write_files(texts, directory)
    if via == "files":
        return cp.create_rules(paths, sigs, cats, _multipliers(case["mult"]))
    if via == "ruleset":
        sig_file, seeds, filter_file = _signature_files(directory)
        return list(cp.Ruleset.from_files(sig_file, seeds, paths, cats, filter_file, "verif",
                                          multipliers=_multipliers(case["mult"])).rules)
    raise ValueError(via)


def _round_trip(rule) -> dict:
    from antismash.common.hmm_rule_parser import rule_parser as rp

    def again():
        text = rule.reconstruct_rule_text()
        rules = rp.Parser(text, set(ENV_SIGS), set(ENV_CATS)).rules
        if len(rules) != 1:
            raise IndexError(f"{len(rules)} rules from one reconstructed text")
        return rules[0]
    return guarded(again, DUMMY_RULE, project_rule)


def _observe(case: dict, directory: str) -> dict:
    texts = [join_tokens(tokens, case["sep"]) for tokens in case["files"]]
    kept = []

    def parse():
        rules = _parse_case(case, texts, directory)
        kept.extend(rules)
        return rules
    res = guarded(parse, [], lambda rules: [project_rule(rule) for rule in rules])
    round_trips = []
    if not res["exc"] and case["mult"] == [1, 1, 1, 1] and case["must"] == "denote":
        round_trips = [_round_trip(rule) for rule in kept]
    return {"id": case["id"], "op": "parse", "via": case["via"], "files": case["files"], "sigs": ENV_SIGS, "cats": ENV_CATS,
            "mult": case["mult"], "must": case["must"], "res": res, "rt": round_trips}


def _lex_event(ident: int, text: str) -> dict:
    from antismash.common.hmm_rule_parser import rule_parser as rp
    res = guarded(lambda: [(tok.token_text, str(tok.type)) for tok in rp.Tokeniser(text.expandtabs()).tokens], None)
    if res["exc"]:
        return {"id": ident, "op": "lex", "chars": [ord(ch) for ch in text.expandtabs()], "toks": [[-1]], "texts": [], "types": []}
    return {"id": ident, "op": "lex", "chars": [ord(ch) for ch in text.expandtabs()],
            "toks": [[ord(ch) for ch in tok] for tok, _ in res["v"]], "texts": [tok for tok, _ in res["v"]],
            "types": [kind for _, kind in res["v"]]}


# ---- the shipped rule files (trace direction) ---------------------------------------------------
def _shipped_events(first_id: int):
    """ one "begin" event, then one event per DEFINE / RULE item of strict, relaxed, loose.txt """
    from ..common import import_repo
    import_repo()
    from antismash.common.hmm_rule_parser import rule_parser as rp
    from antismash.detection import hmm_detection
    from antismash.detection.hmm_detection.signatures import get_signature_profiles
    from antismash.detection.hmm_detection.categories import get_rule_categories
    sigs = {sig.name for sig in get_signature_profiles()} | set(hmm_detection.DYNAMIC_PROFILES)
    cats = {cat.name for cat in get_rule_categories()}
    events = [{"id": first_id, "op": "begin", "sigs": sorted(sigs), "cats": sorted(cats)}]
    info = {first_id: {"file": "", "item": "begin"}}
    rules, aliases = [], {}
    lex_lines = []
    for path in hmm_detection._get_rule_files_for_strictness("loose"):  # pylint: disable=protected-access
        with open(path, encoding="utf-8") as handle:
            text = handle.read()
        lex_lines.extend(line for line in text.splitlines() if line.strip())
        parsed = guarded(lambda: (rp.Tokeniser(text.expandtabs()).tokens, rp.Parser(text, sigs, cats, rules, dict(aliases))), None)
        ident = first_id + len(events)
        events.append({"id": ident, "op": "file", "file": os.path.basename(path), "exc": parsed["exc"]})
        info[ident] = {"file": os.path.basename(path), "item": "whole file"}
        if parsed["exc"]:
            continue
        tokens, parser = parsed["v"]
        rules, aliases = parser.rules, parser.aliases
        by_name = {rule.name: rule for rule in rules}
        starts = [idx for idx, token in enumerate(tokens) if token.type in (rp.TokenTypes.RULE, rp.TokenTypes.DEFINE)]
        if not starts or starts[0] != 0:
            raise MachineryError(f"{path}: does not start with RULE or DEFINE")
        for start, end in zip(starts, starts[1:] + [len(tokens)]):
            item = tokens[start:end]
            ident = first_id + len(events)
            event = {"id": ident, "op": "item", "kind": item[0].token_text, "name": item[1].token_text,
                     "toks": [{"s": tok.token_text, "cp": [ord(ch) for ch in tok.token_text]} for tok in item],
                     "obs": DUMMY_RULE, "alias": []}
            if item[0].type == rp.TokenTypes.RULE:
                event["obs"] = project_rule(by_name[item[1].token_text])
            else:
                event["alias"] = [{"s": tok.token_text, "cp": [ord(ch) for ch in tok.token_text]}
                                  for tok in aliases[item[1].token_text]]
            events.append(event)
            info[ident] = {"file": os.path.basename(path), "item": f"{item[0].token_text} {item[1].token_text}"}
    # the production path: get_ruleset parses with unit multipliers and scales once
    for mult in ([3, 2, 1, 2], [1, 1, 5, 2]):
        options = types.SimpleNamespace(hmmdetection_strictness="loose", hmmdetection_limit_to_rules=[],
                                        hmmdetection_limit_to_categories=[], taxon="fungi",
                                        hmmdetection_fungal_cutoff_multiplier=mult[0] / mult[1],
                                        hmmdetection_fungal_neighbourhood_multiplier=mult[2] / mult[3])
        ident = first_id + len(events)
        res = guarded(lambda: [{"name": rule.name, "cutoff": _whole(rule.cutoff), "nbhd": _whole(rule.neighbourhood)}
                               for rule in hmm_detection.get_ruleset(options).rules], [])
        events.append({"id": ident, "op": "scaled", "mult": mult, "rules": res["v"], "exc": res["exc"]})
        info[ident] = {"file": "strict+relaxed+loose", "item": f"get_ruleset(fungi, multipliers {mult})"}
    return events, info, lex_lines


# ---- cases from the model -----------------------------------------------------------------------
# The dump is cut into byte ranges; a worker parses the states of its range, runs the real code on
# them and returns the events.  A case is addressed as (range index, position within the range), so
# that the description of a failing case can be rebuilt on demand instead of being kept for every case.
RANGE_STRIDE = 100_000


def _digest(case: dict) -> int:
    return int(hashlib.sha1(canon([case["files"], case["mult"], case["sep"]]).encode()).hexdigest()[:8], 16)


def _route(case: dict) -> str:
    """ which public entry point parses the case (a function of the case only) """
    if len(case["files"]) > 1:
        return "files" if _digest(case) % 10 < 7 else "chain"
    if case["kind"] in ("chain", "extras") and case["mult"] != [1, 1, 1, 1] and case["sep"] == 0:
        return "ruleset"
    return "parser"


def _dump_ranges(dump_path: str, count: int) -> list:
    """ byte ranges [start, end) of the dump, each starting at a "State " line """
    size = os.path.getsize(dump_path)
    marks = [0]
    with open(dump_path, "rb") as handle:
        for k in range(1, count):
            handle.seek(size * k // count)
            handle.readline()
            while True:
                pos = handle.tell()
                line = handle.readline()
                if not line or line.startswith(b"State "):
                    break
            if pos > marks[-1] and line:
                marks.append(pos)
    marks.append(size)
    return [(marks[k], marks[k + 1]) for k in range(len(marks) - 1)]


def _cases_of_range(dump_path: str, span: tuple) -> list:
    with open(dump_path, "rb") as handle:
        handle.seek(span[0])
        text = handle.read(span[1] - span[0]).decode("utf-8")
    cases = []
    for block in text.split("State ")[1:]:
        stage = int(block[block.index("stage = ") + 8:].split()[0])
        if stage < 2:
            continue
        start = block.index("case = ") + len("case = ")
        rest = block.find("\n/\\ ", start)
        value = tlaval.parse(block[start:rest if rest >= 0 else len(block)])
        case = {"stage": stage, "kind": value["kind"], "files": [[sys.intern(tok) for tok in f] for f in value["files"]],
                "mult": list(value["mult"]), "sep": value["sep"], "must": value["must"]}
        case["via"] = _route(case)
        cases.append(case)
    return cases


def _work(job: tuple) -> dict:
    """ one dump range: cases, observations, a sample of tokeniser events """
    from ..common import import_repo
    import_repo()
    dump_path, index, span, lex_every = job
    cases = _cases_of_range(dump_path, span)
    if len(cases) >= RANGE_STRIDE // 2:
        raise MachineryError("dump range holds too many cases for the id scheme")
    events, kinds, nontrivial = [], {}, 0
    with tempfile.TemporaryDirectory(prefix="c02_") as directory:
        for pos, case in enumerate(cases):
            case["id"] = index * RANGE_STRIDE + pos
            events.append(_observe(case, directory))
            kinds[case["kind"]] = kinds.get(case["kind"], 0) + 1
            nontrivial += case["stage"] == 3 or case["kind"] != "ast"
            if _digest(case) % lex_every == 0:
                for number, tokens in enumerate(case["files"][:2]):
                    events.append(_lex_event(index * RANGE_STRIDE + RANGE_STRIDE // 2 + 2 * pos + number,
                                             join_tokens(tokens, case["sep"])))
    sample = None
    if cases:
        sample = {"case": case_input(cases[0]), "call": call_text(cases[0]), "observed": events[0]["res"]}
    return {"events": events, "kinds": kinds, "nontrivial": nontrivial, "cases": len(cases), "sample": sample}


class _Describe(dict):
    """ by_id for ctx.validate: rebuilds the description of a case (and observes it again) on demand """
    def __init__(self, dump_path, spans):
        super().__init__()
        self.dump_path, self.spans, self.cached = dump_path, spans, (None, [])

    def __bool__(self):
        return True

    def __contains__(self, ident):
        return dict.__contains__(self, ident) or 0 <= ident // RANGE_STRIDE < len(self.spans)

    def __getitem__(self, ident):
        if dict.__contains__(self, ident):
            return dict.__getitem__(self, ident)
        index, pos = divmod(ident, RANGE_STRIDE)
        if self.cached[0] != index:
            self.cached = (index, _cases_of_range(self.dump_path, self.spans[index]))
        cases = self.cached[1]
        with tempfile.TemporaryDirectory(prefix="c02_") as directory:
            if pos >= RANGE_STRIDE // 2:
                case = cases[(pos - RANGE_STRIDE // 2) // 2]
                text = join_tokens(case["files"][(pos - RANGE_STRIDE // 2) % 2], case["sep"])
                return {"op": "lex", "input": {"text": text}, "call": f"Tokeniser({text!r}).tokens", "features": ["lex"],
                        "sampled": False, "observed": {"toks": _lex_event(0, text)["toks"]}}
            case = dict(cases[pos], id=ident)
            return {"op": case["via"], "input": case_input(case), "call": call_text(case), "features": _features(case),
                    "sampled": False, "observed": _observe(case, directory)["res"]}


def _features(case: dict) -> list:
    tokens = [tok for f in case["files"] for tok in f]
    feats = {case["kind"], "via_" + case["via"]}
    if "EXTENDERS" in tokens:
        feats.add("has_extenders")
    if "DEFINE" in tokens:
        feats.add("has_alias")
    if "EXAMPLE" in tokens:
        feats.add("has_example")
    if case["mult"] != [1, 1, 1, 1]:
        feats.add("non_unit_multiplier")
    if len(case["files"]) > 1:
        feats.add("several_files")
    return sorted(feats)


def call_text(case: dict) -> str:
    texts = [join_tokens(tokens, case["sep"]) for tokens in case["files"]]
    mult = f"Multipliers({case['mult'][0]}/{case['mult'][1]}, {case['mult'][2]}/{case['mult'][3]})"
    if case["via"] == "parser":
        return f"rule_parser.Parser({texts[0]!r}, {set(ENV_SIGS)}, {set(ENV_CATS)}, multipliers={mult}).rules"
    if case["via"] == "chain":
        return f"rule_parser.Parser(text, sigs, cats, rules, aliases, {mult}) for text in {texts!r} (rules/aliases carried over)"
    if case["via"] == "files":
        return f"cluster_prediction.create_rules(<files holding {texts!r}>, {set(ENV_SIGS)}, {set(ENV_CATS)}, {mult})"
    return f"Ruleset.from_files(<signatures {ENV_SIGS}>, seeds, <files holding {texts!r}>, {set(ENV_CATS)}, filter, 'verif', multipliers={mult})"


def case_input(case: dict) -> dict:
    return {"files": case["files"], "mult": case["mult"], "sep": case["sep"], "must": case["must"], "via": case["via"]}


def _wrapper() -> str:
    table = {text: [ord(ch) for ch in text] for text in ALL_TEXTS}
    seps = [[ord(ch) for ch in sep.expandtabs()] for sep in SEPARATORS + [LEAD, TRAIL]]
    return ("---- MODULE MC_RuleGrammar ----\nEXTENDS RuleGrammar_MC\n"
            f"MC_CP == {tlaval.to_tla(table)}\nMC_SepCP == {tlaval.to_tla(seps)}\n====\n")


def _deep_stack():
    """ the tokeniser of the spec recurses once per character: TLC's threads need a deeper stack """
    if "-Xss" not in os.environ.get("JAVA_TOOL_OPTIONS", ""):
        os.environ["JAVA_TOOL_OPTIONS"] = (os.environ.get("JAVA_TOOL_OPTIONS", "") + " -Xss64m").strip()


NEEDED_KINDS = ["ast", "chain", "alias", "extras", "delete", "replace", "duplicate", "swap", "truncate", "insert",
                "unknown_profile", "extender_profile", "unknown_category", "duplicate_rule", "duplicate_alias",
                "alias_name_clash", "alias_as_rule_name", "repeated_operand", "repeated_option", "nested_in_cds", "missing_section",
                "unbalanced_group", "no_positive", "superior_undefined", "superior_duplicated", "trailing_not", "empty_input"]


def run(ctx):
    _deep_stack()
    from ..common import import_repo
    import_repo()
    if ctx.quick:
        params = {"leaves": 4, "styles": 0, "vocab": VOCAB_QUICK, "base": 0, "deep": 0}
    else:
        params = {"leaves": 6, "styles": 1, "vocab": VOCAB_ALL, "base": 1, "deep": 1500}
    cfg = MC_CFG % dict(params, vocab=", ".join(tlaval.to_tla(v) for v in params["vocab"]), extra="")
    wrapper = {"MC_RuleGrammar.tla": _wrapper()}
    mc = tlc.run("MC_RuleGrammar", cfg, ctx.workdir, dump=True, extra_files=wrapper, timeout=3000, seed=ctx.seed)
    ctx.model(mc, "RuleGrammar_MC: round trip, constructed states, alias = inlining, corruptions ill-formed, separators")
    phases = {"model_s": ctx.timer.elapsed()}
    # negative control: without the parentheses precedence requires, trees must not read back
    neg_cfg = (MC_CFG % dict(leaves=3, styles=0, vocab='"a"', base=0, deep=0, extra="")).split("INVARIANT")[0]
    neg = tlc.run("MC_RuleGrammar", neg_cfg + "INVARIANT ParenthesesNeverNeeded\n", ctx.workdir, extra_files=wrapper,
                  timeout=600, tag="_neg", workers=2)
    ctx.expect_violation(neg, "ParenthesesNeverNeeded", "RuleGrammar_MC without the needed parentheses (must be violated)")
    phases["negative_control_s"] = ctx.timer.elapsed()

    spans = _dump_ranges(mc.dump_path, max(CPUS * 2, os.path.getsize(mc.dump_path) // 6_000_000))
    describe = _Describe(mc.dump_path, spans)
    lex_every = 30 if ctx.quick else 100
    kinds, total, validated = {}, 0, 0
    group = CPUS * 4
    for first in range(0, len(spans), group):
        jobs = [(mc.dump_path, index, spans[index], lex_every) for index in range(first, min(first + group, len(spans)))]
        events = []
        for part in pmap(_work, jobs):
            events.extend(part["events"])
            total += part["cases"]
            ctx.nontrivial_extra += part["nontrivial"]
            for kind, count in part["kinds"].items():
                kinds[kind] = kinds.get(kind, 0) + count
            if part["sample"] and (not ctx.samples or len(ctx.samples) < 3 and first):
                ctx.sample(part["sample"])
        ctx.validate("RuleGrammar_Trace", events, describe)
        validated += len(events)
    phases["cases_observed_and_validated_s"] = ctx.timer.elapsed()
    dead = [kind for kind in NEEDED_KINDS if not kinds.get(kind)]
    if dead:
        raise MachineryError(f"vacuous generator: no case of kind {dead}")

    # trace direction: the shipped rule files, item by item, and their lines through the tokeniser
    shipped, shipped_info, lines = _shipped_events(len(spans) * RANGE_STRIDE + RANGE_STRIDE)
    for event in shipped:
        info = shipped_info[event["id"]]
        entry = {"op": event["op"], "input": info, "call": f"Parser(<{info['file']}>): {info['item']}",
                 "features": ["shipped_rule_file"], "sampled": False, "observed": {}}
        if event["op"] == "scaled":
            entry["observed"] = {"rules": event["rules"][:5]}
        elif event["op"] == "item":
            entry["observed"] = event["obs"] if event["kind"] == "RULE" else {"alias": [t["s"] for t in event["alias"]]}
        describe[event["id"]] = entry
    ctx.validate("RuleGrammar_Trace", shipped, describe, shards=1)
    line_events = []
    for line in lines:
        ident = len(spans) * RANGE_STRIDE + 2 * RANGE_STRIDE + len(line_events)
        line_events.append(_lex_event(ident, line))
        describe[ident] = {"op": "lex", "input": {"text": line}, "call": f"Tokeniser({line!r}).tokens", "features": ["lex"],
                           "sampled": False, "observed": {"toks": line_events[-1]["toks"]}}
    ctx.validate("RuleGrammar_Trace", line_events, describe)
    first_rule = next((event for event in shipped if event["op"] == "item" and event["kind"] == "RULE"), None)
    if first_rule:
        ctx.sample({"shipped": shipped_info[first_rule["id"]], "observed": first_rule["obs"]})
    phases["shipped_files_s"] = ctx.timer.elapsed()
    ctx.notes["phases_cumulative_wall"] = phases
    ctx.evaluations = validated + len(shipped) + len(line_events)
    ctx.exhaustive = params["deep"] == 0
    ctx.rule = ("TLC enumerates condition trees (all shapes of depth <= 2 over the listed leaf counts, every negation, leaf kinds "
                "minscore/minimum/cds substituted; thorough adds sampled depth-3 trees), renders each in several parenthesisation "
                "and separator styles, builds superiors chains over 1-3 files with multipliers, alias definitions with their "
                "inlined twins and rules with optional sections, and derives from base cases every constructive ill-formedness "
                "class and every single-token delete/duplicate/swap/replace/insert/truncate edit; each case is parsed by the real "
                "code; non-trivial = a corrupted text, or a well-formed one with several rules, files, aliases or optional sections")
    ctx.notes["case_kinds"] = dict(sorted(kinds.items()))
    ctx.notes["cases"] = total
    ctx.notes["shipped_items"] = sum(1 for event in shipped if event["op"] == "item")
    ctx.notes["tokeniser_events"] = validated - total + len(line_events)
    ctx.assumptions += ["identifiers, integers and free text come from the closed vocabulary of RuleGrammar.tla (ASCII only)",
                        "DESCRIPTION / EXAMPLE free text is limited to a few fixed payloads",
                        "multipliers are the exact binary fractions 1, 2, 3/2, 1/2, 5/2",
                        "a parse that has not returned after 3 s is recorded as the observation 'Timeout'"]


def replay(ctx, record):
    _deep_stack()
    from ..common import import_repo
    import_repo()
    case = dict(record["input"])
    case["id"] = 0
    if "files" in case:
        case.setdefault("kind", "replay")
        with tempfile.TemporaryDirectory(prefix="c02_") as directory:
            event = _observe(case, directory)
        by_id = {0: {"op": case["via"], "input": record["input"], "call": call_text(case), "observed": event["res"]}}
        res = ctx.validate("RuleGrammar_Trace", [event], by_id)
    elif "text" in case:
        event = _lex_event(0, case["text"])
        by_id = {0: {"op": "lex", "input": record["input"], "call": record.get("call", ""), "observed": {"toks": event["toks"]}}}
        res = ctx.validate("RuleGrammar_Trace", [event], by_id)
    else:
        # an item of the shipped rule files: the stateful trace is replayed as a whole
        shipped, info, _ = _shipped_events(1)
        by_id = {event["id"]: {"op": event["op"], "input": info[event["id"]], "call": record.get("call", ""), "observed": {}}
                 for event in shipped}
        res = ctx.validate("RuleGrammar_Trace", shipped, by_id, shards=1)
        ctx.failures = [f for f in ctx.failures if f["input"] == record["input"]]
    ctx.failures = [f for f in ctx.failures if f["op"] == record["op"] and f["clause"] == record["clause"]]
    return res
