""" C06 - regions are the disjoint connected components of overlapping areas (and numbering / links / histories).

    spec: RecordSM.tla (the Record as a state machine; candidates through Candidates.tla); RecordSM_MC explores every
    history of <= Depth public mutator calls over three small universes and checks the region invariants on the model;
    every model state is a behaviour that is replayed on a real Record, logging the projected record before and after
    its last call; RecordSM_Trace decides the transition relation and the state invariants (numbering, membership,
    gene -> region, parent links). Trace direction: seeded random universes and call sequences on larger records.
"""

import random

from .. import tlc, tlaval
from ..batch import run_batches
from ..common import MachineryError

MC_CFG = """SPECIFICATION Spec
CONSTANTS
  Depth = %d
  UniverseIds = {1, 2, 3}
CONSTRAINT Bounded
INVARIANT RegionsAreComponents
INVARIANT NoStaleLinks
INVARIANT RecreateIsCreate
"""
OPS0 = ["CreateCandidates", "CreateRegions", "ClearRegions", "ClearSubs", "ClearCands", "ClearProtos"]


def norm_loc(loc):
    return {"parts": [list(p) for p in loc["parts"]], "strand": loc["strand"]}


def norm_uni(uni):
    return {"L": uni["L"], "circ": uni["circ"],
            "genes": [{"loc": norm_loc(g["loc"]), "core_for": list(g["core_for"])} for g in uni["genes"]],
            "areas": [{"kind": a["kind"], "core": norm_loc(a["core"]), "extent": norm_loc(a["extent"]), "product": a["product"]}
                      for a in uni["areas"]]}


def observe(case):
    from .. import recordsm
    steps = recordsm.run_history(case["uni"], case["hist"], log_from=case["log_from"])
    events = []
    for offset, step in enumerate(steps):
        events.append({"id": case["id"] + offset, "uni": case["uni"], "call": step["call"], "before": step["before"],
                       "after": step["after"], "exc": step["exc"]})
    return events


def observe_many(cases):
    out = []
    for case in cases:
        events = observe(case)
        # one event per case id slot: cases that log several steps reserve consecutive ids
        out.append(events)
    return out


def features(uni, hist):
    feats = ["circular" if uni["circ"] else "linear"]
    if any(len(a["extent"]["parts"]) > 1 for a in uni["areas"]):
        feats.append("area_spans_origin")
    if any(len(g["loc"]["parts"]) > 1 for g in uni["genes"]):
        feats.append("gene_spans_origin")
    feats.append("last_call_" + hist[-1]["op"])
    return sorted(set(feats))


def random_universe(rng):
    circ = rng.random() < 0.6
    length = rng.choice([40, 60, 100, 200])

    def span(max_size):
        size = rng.randrange(1, max_size)
        start = rng.randrange(0, length)
        if start + size <= length:
            return {"parts": [[start, start + size]], "strand": 1}
        if circ:
            return {"parts": [[start, length], [0, start + size - length]], "strand": 1}
        return {"parts": [[length - size, length]], "strand": 1}

    def grow(core, by):
        bases = sum(e - s for s, e in core["parts"])
        if bases + 2 * by >= length:
            return {"parts": [[0, length]], "strand": 1}
        first = core["parts"][0][0]
        last = core["parts"][-1][1]
        if circ:
            start = (first - by) % length
            end = (last + by - 1) % length + 1
            if start < end and len(core["parts"]) == 1 and first - by >= 0 and last + by <= length:
                return {"parts": [[start, end]], "strand": 1}
            return {"parts": [[start, length], [0, end]], "strand": 1}
        return {"parts": [[max(0, first - by), min(length, last + by)]], "strand": 1}

    areas = []
    products = ["a", "b", "c", "d"]
    for _ in range(rng.randrange(2, 6)):
        if rng.random() < 0.3:
            ext = span(length // 3)
            areas.append({"kind": "sub", "core": ext, "extent": ext, "product": "sub"})
        else:
            core = span(length // 8 + 2)
            areas.append({"kind": "proto", "core": core, "extent": grow(core, rng.randrange(0, length // 6)),
                          "product": rng.choice(products)})
    genes = []
    for _ in range(rng.randrange(1, 6)):
        loc = span(6)
        loc["strand"] = rng.choice([1, -1])
        if loc["strand"] == -1:
            loc["parts"] = loc["parts"][::-1]
        if all(g["loc"] != loc for g in genes):
            genes.append({"loc": loc, "core_for": sorted(rng.sample(products, rng.randrange(0, 3)))})
    return {"L": length, "circ": circ, "genes": genes, "areas": areas}


def random_history(rng, uni, length):
    """ a call sequence respecting the enabling conditions of the spec (tracked with plain sets) """
    genes, protos, subs = set(), set(), set()
    have_cands = have_regions = False
    hist = []
    for _ in range(length):
        options = []
        options += [("AddGene", g) for g in range(1, len(uni["genes"]) + 1) if g not in genes]
        options += [("AddProto", a) for a in range(1, len(uni["areas"]) + 1) if uni["areas"][a - 1]["kind"] == "proto" and a not in protos]
        options += [("AddSub", a) for a in range(1, len(uni["areas"]) + 1) if uni["areas"][a - 1]["kind"] == "sub" and a not in subs]
        if protos and not have_cands and not have_regions:
            options += [("CreateCandidates", 0)] * 3
        if not have_regions and (have_cands or subs):
            options += [("CreateRegions", 0)] * 3
        if have_regions:
            options.append(("ClearRegions", 0))
        if subs:
            options.append(("ClearSubs", 0))
        if have_cands:
            options.append(("ClearCands", 0))
        if protos:
            options.append(("ClearProtos", 0))
        if not options:
            break
        op, arg = rng.choice(options)
        hist.append({"op": op, "arg": arg})
        if op == "AddGene":
            genes.add(arg)
        elif op == "AddProto":
            protos.add(arg)
        elif op == "AddSub":
            subs.add(arg)
        elif op == "CreateCandidates":
            have_cands = True
        elif op == "CreateRegions":
            have_regions = True
        elif op == "ClearRegions":
            have_regions = False
        elif op == "ClearSubs":
            subs.clear()
            have_regions = have_regions and have_cands
        elif op == "ClearCands":
            have_cands = False
            have_regions = have_regions and bool(subs)
        elif op == "ClearProtos":
            protos.clear()
            have_cands = False
            have_regions = have_regions and bool(subs)
    return hist


def build_order_cases(rng, count, next_id):
    """ small universes where every gene is added only after the regions exist (or all before any area); every step from
        region creation on is validated (C08: membership whatever the build order) """
    cases = []
    for _ in range(count):
        length = rng.choice([12, 16, 20, 30])
        circ = rng.random() < 0.8

        def arc(max_size, length=length, circ=circ):
            size = rng.randrange(1, max_size)
            start = rng.randrange(0, length)
            if start + size <= length:
                return {"parts": [[start, start + size]], "strand": 1}
            if circ:
                return {"parts": [[start, length], [0, start + size - length]], "strand": 1}
            return {"parts": [[length - size, length]], "strand": 1}

        areas = []
        for _ in range(rng.randrange(2, 5)):
            ext = arc(max(3, length // 3))
            if rng.random() < 0.5:
                areas.append({"kind": "sub", "core": ext, "extent": ext, "product": "sub"})
            else:
                # the core is a stretch of the extent (often a proper one: genes in the neighbourhood but outside the core)
                walk = [b for s, e in ext["parts"] for b in range(s, e)]
                first = rng.randrange(0, len(walk))
                last = rng.randrange(first, len(walk))
                if rng.random() < 0.3:
                    first, last = 0, len(walk) - 1
                inner, begin = [], walk[first]
                for pos in range(first + 1, last + 2):
                    if pos > last or walk[pos] != walk[pos - 1] + 1:
                        inner.append([begin, walk[pos - 1] + 1])
                        begin = walk[pos] if pos <= last else None
                areas.append({"kind": "proto", "core": {"parts": inner, "strand": 1}, "extent": ext, "product": rng.choice("abc")})
        genes = []
        for _ in range(rng.randrange(2, 6)):
            loc = arc(4)
            loc["strand"] = rng.choice([1, -1])
            if loc["strand"] == -1:
                loc["parts"] = loc["parts"][::-1]
            if all(g["loc"] != loc for g in genes):
                genes.append({"loc": loc, "core_for": sorted(rng.sample("abc", rng.randrange(0, 3)))})
        if circ and rng.random() < 0.3:
            # a protocluster whose core spans the origin inside a wider neighbourhood, with genes annotated as core genes
            # for its product inside the core and in the neighbourhood only
            reach = rng.randrange(1, 3)
            side = rng.randrange(2, 4)
            areas.append({"kind": "proto", "core": {"parts": [[length - reach, length], [0, reach]], "strand": 1},
                          "extent": {"parts": [[length - reach - side, length], [0, reach + side]], "strand": 1}, "product": "c"})
            del genes[3:]   # (the trace module orders genes by enumeration: keep records small)
            for loc in ({"parts": [[length - 1, length]], "strand": 1}, {"parts": [[reach + 1, reach + 2]], "strand": -1},
                        {"parts": [[length - reach - 2, length - reach - 1]], "strand": 1}):
                if all(g["loc"] != loc for g in genes):
                    genes.append({"loc": loc, "core_for": ["c"]})
        if rng.random() < 0.3 and length >= 12:
            # two overlapping subregions and a gene over the edge of both: inside their region, inside neither of them
            at = rng.randrange(0, length - 7)
            for first, last in ((at, at + 4), (at + 3, at + 7)):
                ext = {"parts": [[first, last]], "strand": 1}
                areas.append({"kind": "sub", "core": ext, "extent": ext, "product": "sub"})
            loc = {"parts": [[at + 2, at + 5]], "strand": rng.choice([1, -1])}
            del genes[4:]
            if all(g["loc"] != loc for g in genes):
                genes.append({"loc": loc, "core_for": []})
        uni = {"L": length, "circ": circ, "genes": genes, "areas": areas}
        build = [{"op": "AddSub" if a["kind"] == "sub" else "AddProto", "arg": i + 1} for i, a in enumerate(areas)]
        rng.shuffle(build)
        if any(a["kind"] == "proto" for a in areas):
            build.append({"op": "CreateCandidates", "arg": 0})
        build.append({"op": "CreateRegions", "arg": 0})
        add_genes = [{"op": "AddGene", "arg": i + 1} for i in range(len(genes))]
        rng.shuffle(add_genes)
        pick = rng.random()
        if pick < 0.25 and len(areas) >= 2:
            # some areas join only after the regions exist (they stay outside any region), then the genes arrive
            adds = build[:len(areas)]
            tail = build[len(areas):]
            cut = rng.randrange(1, len(adds))
            hist, log_from = adds[:cut] + [t for t in tail if t["op"] != "CreateCandidates" or any(
                a["op"] == "AddProto" for a in adds[:cut])] + adds[cut:] + add_genes, 0
            hist = [c for c in hist if c["op"] != "CreateCandidates" or any(x["op"] == "AddProto" for x in hist[:hist.index(c)])]
        elif pick < 0.6:
            hist, log_from = build + add_genes, len(build) - 1
        elif pick < 0.8:
            hist, log_from = add_genes + build, len(add_genes) + len(build) - 1
        else:   # interleaved: areas and genes in random order, regions created last
            mixed = build[:-1 - (1 if build[-2]["op"] == "CreateCandidates" else 0)] + add_genes
            rng.shuffle(mixed)
            tail = build[len(build) - (2 if build[-2]["op"] == "CreateCandidates" else 1):]
            hist, log_from = mixed + tail, 0
        if rng.random() < 0.4:
            # areas are taken away again (and regions rebuilt from what is left): genes point to what contains them now
            tails = [["ClearRegions"], ["ClearRegions", "CreateRegions"]]
            if any(a["kind"] == "sub" for a in areas):
                tails.append(["ClearSubs"])
            if any(a["kind"] == "proto" for a in areas):
                tails.append(["ClearProtos"])
            hist = hist + [{"op": op, "arg": 0} for op in rng.choice(tails)]
        cases.append({"id": next_id, "uni": uni, "hist": hist, "log_from": log_from, "sampled": True})
        next_id += len(hist)
    return cases, next_id


def validate_cases(ctx, cases, samples=None, sample_ids=(), only_clauses=None):
    """ replays the histories, ships every logged step to RecordSM_Trace; returns the number of validated calls """
    from ..common import CPUS, chunks, pmap  # pylint: disable=import-outside-toplevel
    calls = 0
    for start in range(0, len(cases), 20000):
        part = cases[start:start + 20000]
        nested = [evs for sub in pmap(observe_many, chunks(part, CPUS * 4)) for evs in sub]
        events, by_id = [], {}
        for case, evs in zip(part, nested):
            for event in evs:
                upto = case["log_from"] + (event["id"] - case["id"]) + 1
                hist = case["hist"][:upto]
                by_id[event["id"]] = {"op": event["call"]["op"], "input": {"uni": case["uni"], "hist": hist},
                                      "call": f"harness.recordsm.run_history(uni, hist)[-1] with uni={case['uni']} hist={hist}",
                                      "observed": {"exc": event["exc"], "after": event["after"]},
                                      "features": features(case["uni"], hist), "sampled": case["sampled"]}
                if event["after"]["regions"]:
                    ctx.nontrivial_case(event["id"])
                events.append(event)
                calls += 1
            if samples is not None and evs and (case["id"] in sample_ids or (case["sampled"] and len(samples) < 3)):
                samples[case["id"]] = {"universe": case["uni"], "history": case["hist"], "record_after": evs[-1]["after"]}
        before = len(ctx.failures)
        ctx.validate("RecordSM_Trace", events, by_id, min_per_shard=150)
        if only_clauses is not None:
            ctx.failures[before:] = [f for f in ctx.failures[before:] if any(f["clause"].startswith(c) for c in only_clauses)]
        del events, by_id, nested
    return calls


def reload_stage(ctx, rng, first_id):
    """ "the numbers shown on a feature always identify that same feature" - also once the record has been written and read
        again: records as real annotated records (harness/persist.py) through GenBank text, JSON and the results file; of
        the verdicts of Persist_Trace only the numbering clauses are kept here (the rest is C10's) """
    from .. import persist  # pylint: disable=import-outside-toplevel
    from ..common import CPUS, chunks, pmap  # pylint: disable=import-outside-toplevel
    from . import c10  # pylint: disable=import-outside-toplevel
    cases = []
    while len(cases) < (150 if ctx.quick else 4000):
        uni = persist.random_universe(rng)
        same = {}
        for area in uni["areas"]:
            same.setdefault((area["kind"], str(area["extent"])), []).append(area)
        if len(cases) % 2 and not any(len(group) > 1 for group in same.values()):
            continue      # every other record holds areas of one kind with equal coordinates
        if len(cases) % 3 == 0 and uni["circ"] and uni["L"] >= 12:
            # in front of the origin two areas of one kind that start at the same base: one ends before the origin, the
            # other runs over it (their order in a region file is not the order of that file's coordinates alone)
            length = uni["L"]
            start = rng.randrange(length - 6, length - 4)
            over = {"parts": [[start, length], [0, rng.randrange(1, 3)]], "strand": 1}
            short = {"parts": [[start, length - 1]], "strand": 1}
            if rng.random() < 0.5:
                uni["areas"] += [{"kind": "sub", "core": ext, "extent": ext, "product": "sub", "pay": 0} for ext in (short, over)]
            else:
                uni["areas"] += [{"kind": "proto", "core": {"parts": [[start + 1 + i, start + 2 + i]], "strand": 1}, "extent": ext,
                                  "product": "ab"[i], "pay": 0} for i, ext in enumerate((short, over))]
        cases.append({"id": first_id + len(cases), "uni": uni, "hist": persist.pipeline_history(rng, uni), "seed": 2000 + ctx.seed,
                      "sampled": True})
    events = [ev for sub in pmap(c10.observe_many, chunks(cases, CPUS * 2)) for ev in sub]
    by_id, shipped = {}, []
    for case, event in zip(cases, events):
        if event["build"]:
            continue
        event.pop("build")
        by_id[case["id"]] = {"op": "reload", "input": {"uni": case["uni"], "hist": case["hist"], "seed": case["seed"]},
                             "call": persist.call_text(case) + "; persist.roundtrip_genbank(record); persist.roundtrip_json(record)",
                             "observed": {key: {"exc": event[key]["exc"]} for key in ("gb", "json", "file")},
                             "features": persist.features(case["uni"], case["hist"]), "sampled": True}
        shipped.append(event)
    before = len(ctx.failures)
    ctx.validate("Persist_Trace", shipped, by_id, min_per_shard=40)
    kept = []
    for failure in ctx.failures[before:]:
        if failure["clause"].endswith("_numbering"):
            failure["op"] = "reload_" + failure["op"]
            kept.append(failure)
    ctx.failures[before:] = kept
    ctx.notes["reloaded_records"] = len(shipped)
    # ... and in the region files: the numbers written there identify the same areas once such a file is read (of the
    # verdicts on an extract only the clauses on numbers and cross references are kept, the rest is C12's)
    from . import c12  # pylint: disable=import-outside-toplevel
    by_id, extracts = {}, []
    for case, events in zip(cases, [evs for sub in pmap(c12.observe_many, chunks(cases, CPUS * 2)) for evs in sub]):
        for event in events:
            if event["build"]:
                continue
            event["id"] = first_id + 10 ** 6 + event["id"] - case["id"] * c12.STRIDE + (case["id"] - first_id) * c12.STRIDE
            by_id[event["id"]] = c12.describe(case, event, persist)
            extracts.append(event)
    before = len(ctx.failures)
    ctx.validate("Persist_Trace", extracts, by_id, min_per_shard=40)
    kept = []
    for failure in ctx.failures[before:]:
        if failure["clause"] in ("candidates_keep_their_protoclusters", "cross_references_resolve", "region_has_the_same_members"):
            failure["op"] = "reload_" + failure["op"]
            kept.append(failure)
    ctx.failures[before:] = kept
    ctx.notes["reloaded_region_files"] = len(extracts)
    return len(shipped) + len(extracts)


def run(ctx):
    rng = random.Random(ctx.seed)
    depth = 4 if ctx.quick else 6
    mc = tlc.run("RecordSM_MC", MC_CFG % depth, ctx.workdir, dump=True, timeout=3400)
    ctx.model(mc, f"RecordSM_MC all histories of <= {depth} calls over 3 universes")
    # implementation-shaped companion: the repaired create_regions design is sound for every sequence of span areas in
    # every processing order; the single sweep it replaced is the negative control
    impl_cfg = "SPECIFICATION Spec\nCONSTANTS\n  MaxAreas = %d\n  RingLen = %d\nINVARIANT %s\n"
    impl = tlc.run("RegionsImpl_MC", impl_cfg % (((3, 6) if ctx.quick else (3, 8)) + ("RepairedDesignSound",)), ctx.workdir,
                   tag="_impl", timeout=3000)
    ctx.model(impl, "RegionsImpl_MC: repaired create_regions design vs connected components, all area sequences")
    sweep = tlc.run("RegionsImpl_MC", impl_cfg % (4, 6, "SweepDesignSound"), ctx.workdir, tag="_sweep", timeout=3000)
    ctx.expect_violation(sweep, "SweepDesignSound", "the pre-repair single sweep + first/last merge is not sound (P11 on the model)")
    universes = [norm_uni(u) for u in tlc.printed_value(mc.out, "UNIVERSES")]
    cases = []
    next_id = 0
    for state in tlaval.read_dump(mc.dump_path):
        hist = [{"op": c["op"], "arg": c["arg"]} for c in state["hist"]]
        if not hist:
            continue
        cases.append({"id": next_id, "uni": universes[state["u"] - 1], "hist": hist, "log_from": len(hist) - 1, "sampled": False})
        next_id += 1
    if not cases:
        raise MachineryError("RecordSM_MC produced no histories")
    enumerated = len(cases)
    for _ in range(600 if ctx.quick else 20000):
        uni = random_universe(rng)
        hist = random_history(rng, uni, rng.randrange(4, 14))
        if not hist:
            continue
        cases.append({"id": next_id, "uni": uni, "hist": hist, "log_from": 0, "sampled": True})
        next_id += len(hist)
    # region formation on its own: layouts of 3-6 subregion / protocluster arcs on small rings and lines, regions created once
    layouts = 0
    for _ in range(4000 if ctx.quick else 120000):
        length = rng.choice([8, 9, 12, 16])
        circ = rng.random() < 0.75
        areas = []
        long_ones = rng.random() < 0.3     # areas longer than half the record among short ones
        for _ in range(rng.randrange(3, 7)):
            size = rng.randrange(1, max(2, length // 2))
            if long_ones and rng.random() < 0.4:
                size = rng.randrange(length // 2, length - 1)
            start = rng.randrange(0, length)
            if start + size <= length:
                ext = {"parts": [[start, start + size]], "strand": 1}
            elif circ:
                ext = {"parts": [[start, length], [0, start + size - length]], "strand": 1}
            else:
                ext = {"parts": [[length - size, length]], "strand": 1}
            kind = "sub" if rng.random() < 0.6 else "proto"
            areas.append({"kind": kind, "core": ext, "extent": ext, "product": rng.choice("abc") if kind == "proto" else "sub"})
        uni = {"L": length, "circ": circ, "genes": [], "areas": areas}
        hist = [{"op": "AddSub" if a["kind"] == "sub" else "AddProto", "arg": i + 1} for i, a in enumerate(areas)]
        rng.shuffle(hist)
        if any(a["kind"] == "proto" for a in areas):
            hist.append({"op": "CreateCandidates", "arg": 0})
        hist.append({"op": "CreateRegions", "arg": 0})
        cases.append({"id": next_id, "uni": uni, "hist": hist, "log_from": len(hist) - 1, "sampled": True})
        next_id += 1
        layouts += 1
    # an origin-spanning area, a long one that overlaps it in front of the origin and starts nearer the record start than it
    # ends from the record end, and a small one in the stretch between them that neither covers
    for _ in range(300 if ctx.quick else 6000):
        length = rng.choice([16, 20, 30])
        post_end = rng.randrange(1, 3)
        start = rng.randrange(post_end + 2, length // 3)
        end = length - start - rng.randrange(1, 3)
        pre_start = rng.randrange(end - 3, end)
        small = rng.randrange(post_end + 1, start)
        areas = [{"parts": [[pre_start, length], [0, post_end]], "strand": 1}, {"parts": [[start, end]], "strand": 1},
                 {"parts": [[small, min(start, small + rng.randrange(1, 3))]], "strand": 1}]
        areas = [{"kind": "sub", "core": ext, "extent": ext, "product": "sub"} for ext in areas]
        rng.shuffle(areas)
        uni = {"L": length, "circ": True, "genes": [], "areas": areas}
        hist = [{"op": "AddSub", "arg": i + 1} for i in range(len(areas))] + [{"op": "CreateRegions", "arg": 0}]
        cases.append({"id": next_id, "uni": uni, "hist": hist, "log_from": len(hist) - 1, "sampled": True})
        next_id += 1
        layouts += 1
    ctx.notes["region_layouts"] = layouts
    late_cases, next_id = build_order_cases(rng, 1500 if ctx.quick else 40000, next_id)
    cases += late_cases
    ctx.notes["build_order_histories"] = len(late_cases)
    samples = {}
    calls = validate_cases(ctx, cases, samples, sample_ids=(0, enumerated - 1))
    # the order the numbers are given in: comparison laws and insertion-order independence on real features (spec/Order.tla)
    from .. import order  # pylint: disable=import-outside-toplevel
    calls += order.stage(ctx, rng, 2 * 10 ** 8)
    calls += reload_stage(ctx, rng, 3 * 10 ** 8)
    ctx.evaluations = calls
    for ident in sorted(samples):
        ctx.sample(samples[ident], limit=4)
    ctx.exhaustive = True
    ctx.rule = (f"every history of <= {depth} calls (add gene / protocluster / subregion, create candidates / regions, clear regions / "
                "subregions / candidates / protoclusters) over three universes (ring of 10 with an origin-spanning protocluster and a "
                "bridging subregion; line of 12 with nested and identical coordinates; ring of 9 with an origin-spanning gene and a "
                "whole-record subregion) is replayed on a real Record and its last step validated; plus seeded random universes "
                "(records of 40-200 bases, 2-5 areas, 1-5 genes) with random call sequences of 4-13 calls, every step validated; "
                "non-trivial = the record holds at least one region after the call; plus the location order itself (Order.tla): "
                "comparison matrices of real areas (all spans of a small ring / line at once) and plain features (random dozens incl. "
                "spliced and origin-spanning ones) and the lists a real Record keeps for every / sampled insertion orders of 3-4 areas or genes")
    ctx.notes.update({"enumerated_histories": enumerated, "random_histories": len(cases) - enumerated, "validated_calls": calls})
    ctx.assumptions += ["create_candidate_clusters / create_regions are only called when no candidates / regions exist (documented use)",
                        "region invariants are required where regions were just (re)built; adding an area afterwards legitimately "
                        "leaves it outside any region until regions are rebuilt"]


def replay(ctx, record):
    if record["op"] == "reload_extract":
        from . import c12  # pylint: disable=import-outside-toplevel
        from .. import persist  # pylint: disable=import-outside-toplevel
        case = {"id": 0, "uni": record["input"]["uni"], "hist": record["input"]["hist"], "seed": record["input"].get("seed", 0),
                "sampled": True}
        events = [ev for ev in c12.observe(case) if not ev["build"] and ev["region"] == record["input"]["region"]]
        ctx.validate("Persist_Trace", events, {ev["id"]: c12.describe(case, ev, persist) for ev in events})
        ctx.failures = [dict(f, op="reload_" + f["op"]) for f in ctx.failures if f["clause"] == record["clause"]]
        return
    if record["op"].startswith("reload_"):
        from . import c10  # pylint: disable=import-outside-toplevel
        case = {"id": 0, "uni": record["input"]["uni"], "hist": record["input"]["hist"], "seed": record["input"].get("seed", 0)}
        event = c10.observe(case)
        event.pop("build")
        ctx.validate("Persist_Trace", [event], {0: {"op": "reload", "input": record["input"]}})
        ctx.failures = [dict(f, op="reload_" + f["op"]) for f in ctx.failures if f["clause"] == record["clause"]]
        return
    if record["op"].startswith(("compare_", "insert_")):
        from .. import order  # pylint: disable=import-outside-toplevel
        order.replay(ctx, record)
        ctx.failures = [f for f in ctx.failures if f["clause"] == record["clause"]]
        return
    case = {"id": 0, "uni": record["input"]["uni"], "hist": record["input"]["hist"], "log_from": len(record["input"]["hist"]) - 1}
    events = observe(case)
    ctx.validate("RecordSM_Trace", events, {0: {"op": record["op"], "input": record["input"]}})
    ctx.failures = [f for f in ctx.failures if f["clause"] == record["clause"]]
