""" C20 - a failed or refused write never damages existing results.

    spec: SafeWrite.tla.  Model runs: SafeWrite_MC (the writer under the documented order and under the
    order-free relation the trace spec enforces; two negative controls: open-before-convert, swallowed
    failure) and SafeWrite_DirMC (the directory guard sandwich; negative control: loosened guard).
    Binding: every configuration TLC enumerates (sizes x writer x fault position and kind; every
    directory content set x mode) is executed against the real writers / the real guard; the logged
    events and the state of the bytes afterwards are decided by TLC in SafeWrite_Trace.
    The python side only builds inputs, logs what happened and names the state of the bytes.
"""

import contextlib
import gc
import hashlib
import io
import json
import logging
import os
import shutil
import tempfile

from .. import tlc, tlaval
from .. import trace as tracemod
from ..common import CPUS, MachineryError, canon, chunks, pmap

MC_CFG = """SPECIFICATION Spec
CONSTANTS
  MaxRec = %(maxrec)d
  MaxMod = %(maxmod)d
  Discipline = "%(discipline)s"
%(checks)s
"""
STRICT_CHECKS = """INVARIANT FailedImpliesOld
INVARIANT SuccessImpliesNew
INVARIANT FaultImpliesFailed
INVARIANT TruncatedOnlyWhenSafe
INVARIANT RaisedIsFinal
PROPERTY Terminates"""
FREE_CHECKS = """INVARIANT FailedImpliesOld
INVARIANT FaultImpliesFailed
INVARIANT TruncatedOnlyWhenSafe
INVARIANT RaisedIsFinal"""
DIR_CFG = """SPECIFICATION Spec
CONSTANTS
  GuardModel = "%s"
INVARIANT SandwichConsistent
INVARIANT BandIsWhatIsDocumented
INVARIANT GuardInSandwich
INVARIANT UntouchedRefusalAccepted
"""

OLD_BYTES = ('{"version": "previous run", "records": [], "note": "café – must survive"}\n' * 3).encode("utf-8")
ITEMS = ["input", "log", "region", "json", "file", "dir", "dot", "stem", "stemdir"]
# relative paths (inside the output directory) each abstract item is made of; directories end with "/"
ITEM_PATHS = {
    "input": ["input/", "input/in.gbk"],
    "log": ["log.txt"],
    "region": ["rec1.region001.gbk", "rec1.region002.gbk"],
    "json": ["in.json"],
    "file": ["index.html"],
    "dir": ["svg/", "svg/a.svg"],
    "dot": [".hidden"],
    "stem": ["log"],
    "stemdir": ["lo/", "lo/kept.txt"],
}

# ---- the stub module results (defined lazily: their base class lives in the tree under test) ------
_LOG = []
_CLASSES = {}


def _classes():
    if _CLASSES:
        return _CLASSES
    from ..common import import_repo
    import_repo()
    from antismash.common.module_results import ModuleResults

    class Payload:
        """ Part of a module's JSON that only the final dumps converts (via its to_json). """
        def __init__(self, i, j, kind):
            self.pos = (i, j)
            self.kind = kind

        def to_json(self):
            ok = self.kind not in ("TypeError", "Other")
            _LOG.append({"e": "Ser", "i": self.pos[0], "j": self.pos[1], "ok": ok})
            if self.kind == "TypeError":
                raise TypeError(f"injected fault in dumps at {self.pos}")
            if self.kind == "Other":
                raise ValueError(f"injected fault in dumps at {self.pos}")
            if self.kind == "Unserialisable":
                # something the JSON layer cannot write: an arbitrary object, or - at odd positions - text that cannot be
                # encoded (an undecodable byte of a file name, surrogate-escaped by Python)
                return object() if sum(self.pos) % 2 == 0 else "caf\udce9.gbk"
            return f"payload {self.pos[0]}.{self.pos[1]}"

    class Stub(ModuleResults):
        """ A module result whose to_json logs itself and fails as configured. """
        __slots__ = ["pos", "kind", "dumps_kind"]

        def __init__(self, i, j, kind="", dumps_kind=""):
            super().__init__(f"rec{i}")
            self.pos = (i, j)
            self.kind = kind
            self.dumps_kind = dumps_kind

        def to_json(self):
            ok = self.kind not in ("TypeError", "Other")
            _LOG.append({"e": "Convert", "i": self.pos[0], "j": self.pos[1], "ok": ok})
            if self.kind == "TypeError":
                raise TypeError(f"injected fault in to_json at {self.pos}")
            if self.kind == "Other":
                raise ValueError(f"injected fault in to_json at {self.pos}")
            return {"m": [self.pos[0], self.pos[1]], "p": Payload(self.pos[0], self.pos[1], self.dumps_kind)}

    _CLASSES.update({"Stub": Stub, "Payload": Payload})
    return _CLASSES


class _LoggedFile:
    """ Stands in for the file object of the target path: logs writes, forwards everything. Holding the
        only reference to the real file, it closes it exactly when the writer drops its handle. """
    def __init__(self, real):
        self._real = real

    def write(self, data):
        _LOG.append({"e": "Write", "i": 0, "j": 0, "ok": True})
        return self._real.write(data)

    def __getattr__(self, name):
        return getattr(self._real, name)

    def __enter__(self):
        self._real.__enter__()
        return self

    def __exit__(self, *args):
        return self._real.__exit__(*args)

    def __iter__(self):
        return iter(self._real)


class _OpenHook:
    """ Wraps builtins.open / io.open in this process for the duration of one writer call. """
    def __init__(self, target):
        self.target = os.path.realpath(target)

    def __enter__(self):
        import builtins
        import io
        self.saved = (builtins.open, io.open)
        real_open = builtins.open
        target = self.target

        def logged_open(file, mode="r", *args, **kwargs):
            is_target = isinstance(file, (str, bytes, os.PathLike)) and os.path.realpath(os.fsdecode(file)) == target
            if is_target and "w" in mode:
                _LOG.append({"e": "Open", "i": 0, "j": 0, "ok": True})
            handle = real_open(file, mode, *args, **kwargs)
            if is_target and any(flag in mode for flag in "wax+"):
                return _LoggedFile(handle)
            return handle
        builtins.open = logged_open
        io.open = logged_open
        return self

    def __exit__(self, *args):
        import builtins
        import io
        builtins.open, io.open = self.saved


def _disk_status(path, case):
    """ Names the state of the target's bytes: old | truncated | new | partial. """
    if not os.path.exists(path):
        return "partial"
    with open(path, "rb") as handle:
        data = handle.read()
    if data == OLD_BYTES:
        return "old"
    if data == b"":
        return "truncated"
    try:
        doc = json.loads(data.decode("utf-8"))
    except ValueError:
        return "partial"
    records = doc.get("records") if isinstance(doc, dict) else doc
    if case["writer"] == "write_to_file" and not (isinstance(doc, dict) and doc.get("input_file") == "in.gbk"):
        return "partial"
    if not isinstance(records, list) or len(records) != case["nrec"]:
        return "partial"
    for i, record in enumerate(records, 1):
        modules = record.get("modules") if isinstance(record, dict) else None
        wanted = {f"mod{j}": {"m": [i, j], "p": f"payload {i}.{j}"} for j in range(1, case["nmod"] + 1)}
        if modules != wanted:
            return "partial"
    return "new"


def observe_write(case: dict, scratch: str = None) -> dict:
    """ Runs one real writer call for configuration `case` (= c of the spec); returns the trace event. """
    cls = _classes()
    from antismash.common import serialiser
    from antismash.common.secmet.test.helpers import DummyRecord
    logging.disable(logging.CRITICAL)
    fault = case["fault"]
    workdir = tempfile.mkdtemp(prefix="c20w_", dir=scratch)
    target = os.path.join(workdir, "in.json")
    with open(target, "wb") as handle:
        handle.write(OLD_BYTES)
    records = []
    results = []
    for i in range(1, case["nrec"] + 1):
        records.append(DummyRecord(seq="ACGTTGCA" * 4, record_id=f"rec{i}"))
        if (i + case["nmod"]) % 2 == 0:
            # every other record was skipped by an earlier stage (too short, outside the record limit, no regions):
            # a failure in its results is a failure like any other
            records[-1].skip = "skipped earlier in the run"
        modules = {}
        for j in range(1, case["nmod"] + 1):
            here = (fault["i"], fault["j"]) == (i, j)
            if here and fault["phase"] == "convert" and fault["kind"] == "InvalidType":
                modules[f"mod{j}"] = {"not": "a ModuleResults instance"}
            elif here and fault["phase"] == "convert":
                modules[f"mod{j}"] = cls["Stub"](i, j, kind=fault["kind"])
            elif here and fault["phase"] == "dumps":
                modules[f"mod{j}"] = cls["Stub"](i, j, dumps_kind=fault["kind"])
            else:
                modules[f"mod{j}"] = cls["Stub"](i, j)
        results.append(modules)
    timings = {"rec1": {"mod1": 0.5}}
    if fault["phase"] == "top":
        timings = {"rec1": {"mod1": object()}}
    del _LOG[:]
    exc = ""
    try:
        with _OpenHook(target):
            if case["writer"] == "write_to_file":
                serialiser.AntismashResults("in.gbk", records, results, "0.0-verif", timings=timings).write_to_file(target)
            elif case["writer"] == "dump_records":
                serialiser.dump_records(results, records, handle=target)
            else:
                raise MachineryError(f"unknown writer {case['writer']}")
    except MachineryError:
        raise
    except Exception as err:  # pylint: disable=broad-except
        exc = type(err).__name__
        del err
    gc.collect()
    event = {"op": "write", "c": case, "trace": list(_LOG), "ret": {"exc": exc}, "disk": _disk_status(target, case)}
    shutil.rmtree(workdir, ignore_errors=True)
    return event


def observe_pipeline_write(case: dict, scratch: str = None) -> dict:
    """ The call site of the results writer: antismash.run_antismash in reuse mode, the results file being reused sitting
        where the new one goes; one record carries results of a module this version does not know (they stay a raw
        dict and their conversion fails: the spec's fault kind InvalidType). Prerequisite check and detection are stubbed
        (no HMMER here), the rest is the real pipeline. """
    from unittest import mock
    from ..common import import_repo
    import_repo()
    import antismash
    from antismash import main as as_main
    from antismash.common import serialiser
    from antismash.common.secmet import Record
    from antismash.config import build_config, destroy_config
    logging.disable(logging.CRITICAL)
    fault = case["fault"]
    workdir = tempfile.mkdtemp(prefix="c20p_", dir=scratch)
    outdir = os.path.join(workdir, "out")
    os.mkdir(outdir)
    target = os.path.join(outdir, "prev.json")
    records = [Record("ATGCGTAC" * 50, id=f"rec{i}", name=f"rec{i}", description="verif", annotations={"molecule_type": "DNA"})
               for i in range(1, case["nrec"] + 1)]
    earlier = serialiser.AntismashResults("prev.gbk", records, [{} for _ in records], "earlier-version")
    data = json.loads(json.dumps(earlier.to_json()))
    data["records"][fault["i"] - 1]["modules"]["antismash.modules.retired_module"] = {"schema_version": 1, "record_id": f"rec{fault['i']}"}
    with open(target, "w", encoding="utf-8") as handle:
        handle.write(json.dumps(data))
    with open(target, "rb") as handle:
        before = handle.read()
    del _LOG[:]
    exc = ""
    destroy_config()
    try:
        options = build_config(["--reuse-results", target, "--output-dir", outdir, "--minimal", "--minlength", "1"],
                               isolated=True, modules=antismash.get_all_modules())
        with mock.patch.object(as_main, "check_prerequisites", return_value=None), \
                mock.patch.object(as_main, "run_detection", return_value={}), _OpenHook(target):
            try:
                antismash.run_antismash("", options)
            except Exception as err:  # pylint: disable=broad-except
                exc = type(err).__name__
                del err
    finally:
        destroy_config()
    gc.collect()
    with open(target, "rb") as handle:
        after = handle.read()
    disk = "old" if after == before else ("truncated" if after == b"" else "partial")
    event = {"op": "write", "c": case, "trace": list(_LOG), "ret": {"exc": exc}, "disk": disk}
    shutil.rmtree(workdir, ignore_errors=True)
    return event


def observe_target(case: dict, _scratch: str = None) -> dict:
    """ where the result files of a run with this input path would go """
    from ..common import import_repo
    import_repo()
    from antismash.config import build_config, destroy_config
    from antismash.main import canonical_base_filename
    logging.disable(logging.CRITICAL)
    outdir = os.path.join(os.sep, "verif_nowhere", "new_job")
    destroy_config()
    try:
        options = build_config([], isolated=True)

        def run():
            base = canonical_base_filename(os.path.join(case["dir"], case["name"]) if case["dir"] else case["name"], outdir, options)
            full = os.path.normpath(base)
            return {"inside": os.path.dirname(full) == outdir, "leaf": [ord(ch) for ch in base[len(outdir):].lstrip(os.sep)]
                    if base.startswith(outdir) else [ord(ch) for ch in base]}
        try:
            ret = {"exc": "", "v": run()}
        except Exception as err:  # pylint: disable=broad-except
            ret = {"exc": type(err).__name__, "v": {"inside": False, "leaf": []}}
    finally:
        destroy_config()
    return {"op": "target", "input": case, "ret": ret}


# ---- the directory guard ---------------------------------------------------------------------------
def _snapshot(root):
    """ {relative path: ("dir",) | ("file", sha1 of bytes)} of everything below root (root itself is "."). """
    snap = {}
    if not os.path.lexists(root):
        return snap
    if not os.path.isdir(root):
        with open(root, "rb") as handle:
            snap["."] = ("file", hashlib.sha1(handle.read()).hexdigest())
        return snap
    snap["."] = ("dir",)
    for base, dirs, files in os.walk(root):
        for name in dirs:
            snap[os.path.relpath(os.path.join(base, name), root) + "/"] = ("dir",)
        for name in files:
            path = os.path.join(base, name)
            with open(path, "rb") as handle:
                snap[os.path.relpath(path, root)] = ("file", hashlib.sha1(handle.read()).hexdigest())
    return snap


def _state_of(snap):
    return "absent" if "." not in snap else ("dir" if snap["."] == ("dir",) else "file")


def observe_dir(case: dict, scratch: str = None) -> dict:
    """ Runs prepare_output_directory on a fresh materialisation of directory configuration `case`. """
    from ..common import import_repo
    import_repo()
    from antismash.config import build_config, destroy_config, update_config
    from antismash.main import prepare_output_directory
    logging.disable(logging.CRITICAL)
    base = tempfile.mkdtemp(prefix="c20d_", dir=scratch)
    out = os.path.join(base, "out")
    contents = list(case["contents"])
    if case["state"] == "file":
        with open(out, "wb") as handle:
            handle.write(b"a file where the directory should be\n")
    elif case["state"] == "dir":
        os.mkdir(out)
        for item in contents:
            for rel in ITEM_PATHS[item]:
                path = os.path.join(out, rel)
                if rel.endswith("/"):
                    os.mkdir(path)
                else:
                    with open(path, "wb") as handle:
                        handle.write(OLD_BYTES if item == "json" else f"previous {item}: {rel}\n".encode())
    if case["mode"] == "fresh":
        input_file = os.path.join(base, "elsewhere", "in.gbk")
    elif "json" in contents:
        input_file = os.path.join(out, "in.json")
    else:
        input_file = os.path.join(base, "elsewhere", "in.json")
    destroy_config()
    build_config([], isolated=True)
    update = {"output_dir": out}
    if case["logcfg"]:
        update["logfile"] = os.path.join(out, "log.txt")
    if case["mode"] == "reuse":
        update["reuse_results"] = input_file
    update_config(update)
    before = _snapshot(out)
    exc = ""
    try:
        prepare_output_directory(out, input_file)
    except Exception as err:  # pylint: disable=broad-except
        exc = type(err).__name__
    finally:
        destroy_config()
    after = _snapshot(out)
    status = {}
    for item in ITEMS:
        if item not in contents:
            status[item] = "absent"
            continue
        rels = ITEM_PATHS[item]
        same = [rel in after and after[rel] == before[rel] for rel in rels]
        gone = [rel not in after for rel in rels]
        status[item] = "same" if all(same) else ("missing" if all(gone) else "changed")
    extra = len([rel for rel in after if rel not in before and rel != "."])
    if case["state"] == "file" and after.get(".") != before.get("."):
        extra += 1   # the file standing in the directory's place was modified
    shutil.rmtree(base, ignore_errors=True)
    return {"op": "dir", "d": dict(case, contents=contents), "ret": {"exc": exc}, "status": status, "extra": extra,
            "after": _state_of(after)}


class _StopAfterTheGuard(Exception):
    """ ends a command line run once the output directory has been examined and accepted """


def observe_dir_cli(case: dict, scratch: str = None) -> dict:
    """ The same directory configuration met by the command line entry point: `antismash in.gbk` run in a working
        directory whose default output directory (named after the input) is in the configured state. Prerequisite checks
        are skipped (no databases or binaries here) and the run is stopped where pre-processing would start, i.e. right
        after the directory was examined; everything before that point is the real code. """
    from unittest import mock
    from ..common import import_repo
    import_repo()
    import antismash.__main__ as cli
    from antismash import main as core
    from antismash.common.test.helpers import get_path_to_nisin_genbank
    from antismash.config import destroy_config
    logging.disable(logging.CRITICAL)
    base = tempfile.mkdtemp(prefix="c20c_", dir=scratch)
    out = os.path.join(base, "in")
    contents = list(case["contents"])
    if case["state"] == "file":
        with open(out, "wb") as handle:
            handle.write(b"a file where the directory should be\n")
    elif case["state"] == "dir":
        os.mkdir(out)
        for item in contents:
            for rel in ITEM_PATHS[item]:
                path = os.path.join(out, rel)
                if rel.endswith("/"):
                    os.mkdir(path)
                else:
                    with open(path, "wb") as handle:
                        handle.write(OLD_BYTES if item == "json" else f"previous {item}: {rel}\n".encode())
    shutil.copy(get_path_to_nisin_genbank(), os.path.join(base, "in.gbk"))
    before = _snapshot(out)
    here = os.getcwd()
    exc = ""

    def stop(*_args, **_kwargs):
        raise _StopAfterTheGuard()

    destroy_config()
    try:
        os.chdir(base)
        with mock.patch.object(core, "check_prerequisites", return_value=None), \
                mock.patch.object(core, "_log_found_executables", return_value=None), \
                mock.patch.object(cli, "get_git_version", return_value="verif"), \
                mock.patch.object(core.record_processing, "pre_process_sequences", side_effect=stop), \
                contextlib.redirect_stderr(io.StringIO()), contextlib.redirect_stdout(io.StringIO()):
            try:
                code = cli.main(["in.gbk", "--minimal"])
                exc = "AntismashInputError" if code == 1 else f"exit {code}"
            except _StopAfterTheGuard:
                exc = ""
            except SystemExit as err:
                exc = f"SystemExit {err.code}"
            except Exception as err:  # pylint: disable=broad-except
                exc = type(err).__name__
    finally:
        os.chdir(here)
        destroy_config()
    after = _snapshot(out)
    status = {}
    for item in ITEMS:
        if item not in contents:
            status[item] = "absent"
            continue
        rels = ITEM_PATHS[item]
        same = [rel in after and after[rel] == before[rel] for rel in rels]
        gone = [rel not in after for rel in rels]
        status[item] = "same" if all(same) else ("missing" if all(gone) else "changed")
    extra = len([rel for rel in after if rel not in before and rel != "."])
    if case["state"] == "file" and after.get(".") != before.get("."):
        extra += 1
    shutil.rmtree(base, ignore_errors=True)
    plain = {k: v for k, v in case.items() if k != "via"}
    return {"op": "dir", "d": dict(plain, contents=contents), "via": "cli", "ret": {"exc": exc}, "status": status,
            "extra": extra, "after": _state_of(after)}


def _dir_func(case):
    return observe_dir_cli if case.get("via") == "cli" else observe_dir


def _observe_many(job):
    scratch, cases = job
    out = []
    for case in cases:
        func = observe_target if case["op"] == "target" else _dir_func(case["input"]) if case["op"] != "write" else (
            observe_pipeline_write if case["input"]["writer"] == "run_antismash" else observe_write)
        event = func(case["input"], scratch)
        event["id"] = case["id"]
        out.append(event)
    return out


# ---- cases from the TLC dumps ----------------------------------------------------------------------
def _plain(value):
    if isinstance(value, dict):
        return {k: _plain(v) for k, v in value.items()}
    if isinstance(value, list):
        return [_plain(v) for v in value]
    return value


def _write_cases(run):
    seen = {}
    for state in tlaval.read_dump(run.dump_path):
        case = _plain(state["c"])
        seen[canon(case)] = case
    return [seen[key] for key in sorted(seen)]


def _dir_cases(run):
    seen = {}
    for state in tlaval.read_dump(run.dump_path):
        case = _plain(state["d"])
        case["contents"] = [item for item in ITEMS if item in case["contents"]]
        seen[canon(case)] = case
    return [seen[key] for key in sorted(seen)]


def _features(op, case):
    if op == "target":
        return sorted({"compressed" if case["name"].lower().endswith((".gz", ".bz", ".xz")) else "plain",
                       "with_directory" if case["dir"] else "bare_name"})
    if op == "write":
        return sorted({case["writer"], "fault_" + case["fault"]["phase"], "kind_" + case["fault"]["kind"]})
    return sorted({"mode_" + case["mode"], "state_" + case["state"], "logfile_configured" if case["logcfg"] else
                   "no_logfile", "via_" + case.get("via", "prepare_output_directory")}
                  | {"has_" + item for item in case["contents"]})


def _call_text(op, case):
    func = "observe_target" if op == "target" else _dir_func(case).__name__ if op != "write" else (
        "observe_pipeline_write" if case.get("writer") == "run_antismash" else "observe_write")
    return f"from harness.props import c20; c20.{func}({case!r})"


def _by_id(cases, events):
    table = {}
    for case, event in zip(cases, events):
        observed = {k: v for k, v in event.items() if k in ("trace", "ret", "disk", "status", "extra", "after")}
        table[case["id"]] = {"op": case["op"], "input": case["input"], "call": _call_text(case["op"], case["input"]),
                             "observed": observed, "features": _features(case["op"], case["input"]), "sampled": False}
    return table


def _canaries(ctx, events):
    """ Shows that the binding is real: corrupted copies of accepted events must be rejected by TLC. """
    writes = [ev for ev in events if ev["op"] == "write"]
    dirs = [ev for ev in events if ev["op"] == "dir"]
    good = next((ev for ev in writes if ev["c"]["fault"]["phase"] == "none" and ev["c"]["nrec"] >= 1 and ev["c"]["nmod"] >= 1
                and ev["ret"]["exc"] == "" and ev["disk"] == "new" and ev["trace"]), None)
    bad = next((ev for ev in writes if ev["c"]["fault"]["phase"] == "convert" and ev["c"]["fault"]["kind"] == "TypeError"
               and ev["disk"] == "old" and ev["ret"]["exc"]), None)
    refused = next((ev for ev in dirs if ev["ret"]["exc"] and ev["d"]["state"] == "dir" and "file" in ev["d"]["contents"]),
                   None)
    if good is None or bad is None or refused is None:
        if ctx.failures:     # the tree under test is broken and reported as such; nothing accepted to corrupt
            ctx.notes["binding_canaries_rejected"] = "skipped: no accepted event of the needed kind"
            return
        raise MachineryError("no accepted event to build the binding canaries from")
    open_ev = {"e": "Open", "i": 0, "j": 0, "ok": True}
    canaries = [
        (dict(good, disk="truncated"), "success_implies_new"),
        (dict(good, trace=[open_ev] + [e for e in good["trace"] if e["e"] != "Open"]), "open_only_after_all_conversions"),
        (dict(bad, disk="truncated"), "failed_implies_old"),
        (dict(bad, ret={"exc": ""}), "failure_reported"),
        (dict(bad, trace=bad["trace"] + [open_ev]), "no_open_after_failed_conversion"),
        (dict(refused, status=dict(refused["status"], file="missing")), "refusal_leaves_directory_untouched"),
        (dict(refused, ret={"exc": ""}), "refuses_foreign_contents"),
    ]
    shipped = []
    for idx, (event, _) in enumerate(canaries):
        shipped.append(dict(event, id=idx))
    res = tracemod.validate("SafeWrite_Trace", shipped, ctx.workdir, shards=1)
    for idx, (_, clause) in enumerate(canaries):
        got = [c.split("/", 1)[-1] for c in res.rejects.get(idx, [])]
        if clause not in got:
            raise MachineryError(f"binding canary {idx}: corrupted event was not rejected with {clause!r} (got {got})")
    ctx.notes["binding_canaries_rejected"] = len(canaries)


def run(ctx):
    if ctx.quick:
        strict_size, free_size = (3, 3), (2, 2)
    else:
        strict_size, free_size = (4, 4), (2, 3)
    params = {"maxrec": strict_size[0], "maxmod": strict_size[1]}
    strict = tlc.run("SafeWrite_MC", MC_CFG % dict(params, discipline="strict", checks=STRICT_CHECKS), ctx.workdir,
                     dump=True, coverage=True, tag="_strict")
    ctx.model(strict, f"SafeWrite_MC documented order convert-dumps-open-write, up to {strict_size} records x modules",
              vacuity=["Convert", "Ser", "Open", "Write", "Return"])
    free = tlc.run("SafeWrite_MC", MC_CFG % {"maxrec": free_size[0], "maxmod": free_size[1], "discipline": "free",
                                              "checks": FREE_CHECKS}, ctx.workdir, coverage=True, tag="_free")
    ctx.model(free, f"SafeWrite_MC order-free relation of the trace spec implies the property, up to {free_size}",
              vacuity=["Convert", "Ser", "Open", "Write", "Return"])
    small = {"maxrec": 2, "maxmod": 2}
    wrong = tlc.run("SafeWrite_MC", MC_CFG % dict(small, discipline="open_first", checks="INVARIANT FailedImpliesOld"),
                    ctx.workdir, tag="_openfirst")
    ctx.expect_violation(wrong, "FailedImpliesOld", "SafeWrite_MC open before convert (negative control)")
    wrong = tlc.run("SafeWrite_MC", MC_CFG % dict(small, discipline="swallow", checks="INVARIANT FaultImpliesFailed"),
                    ctx.workdir, tag="_swallow")
    ctx.expect_violation(wrong, "FaultImpliesFailed", "SafeWrite_MC swallowed conversion failure (negative control)")
    dirs = tlc.run("SafeWrite_DirMC", DIR_CFG % "impl", ctx.workdir, dump=True, coverage=True, tag="_dir")
    ctx.model(dirs, "SafeWrite_DirMC glob-shaped guard lies within the refuse/accept sandwich", vacuity=["Decide"])
    loose = tlc.run("SafeWrite_DirMC", DIR_CFG % "loose", ctx.workdir, tag="_loose")
    ctx.expect_violation(loose, "GuardInSandwich", "SafeWrite_DirMC guard ignoring sub-directories (negative control)")

    cases = [{"op": "write", "input": case} for case in _write_cases(strict)]
    # the writer's call site in the pipeline (reuse mode): unknown module results in record i of n
    cases += [{"op": "write", "input": {"nrec": nrec, "nmod": 1, "writer": "run_antismash",
                                        "fault": {"phase": "convert", "i": i, "j": 1, "kind": "InvalidType"}}}
              for nrec in (1, 3) for i in sorted({1, nrec})]
    dir_configs = _dir_cases(dirs)
    cases += [{"op": "dir", "input": case} for case in dir_configs]
    # the same guard met from the command line with the default output directory (named after the input): fresh runs
    # without a log file; every such configuration in the thorough tier, those of at most two items in the quick one
    cases += [{"op": "dir", "input": dict(case, via="cli")} for case in dir_configs
              if case["mode"] == "fresh" and not case["logcfg"] and (not ctx.quick or len(case["contents"]) <= 2)]
    # where the result files go: input files with and without compression suffix, named with and without a directory
    cases += [{"op": "target", "input": {"name": name, "dir": where}}
              for name in ("seq.gbk", "seq.gbk.gz", "seq.fa.bz", "genome.v2.gb.xz", "SEQ.GBK.GZ", "seq.gz")
              for where in ("", "old_job", os.path.join("..", "elsewhere", "old_job"), os.path.join(os.sep, "data", "old_job"))]
    if not any(c["op"] == "write" for c in cases) or not any(c["op"] == "dir" for c in cases):
        raise MachineryError("no cases read from the TLC dumps")
    for idx, case in enumerate(cases):
        case["id"] = idx
    jobs = [(ctx.workdir, part) for part in chunks(cases, CPUS * 2)]
    events = [event for part in pmap(_observe_many, jobs) for event in part]
    by_id = _by_id(cases, events)
    for case in cases:
        data = case["input"]
        if case["op"] == "write" and data["fault"]["phase"] != "none":
            ctx.nontrivial_case(case["id"])
        if case["op"] == "dir" and data["contents"]:
            ctx.nontrivial_case(case["id"])
    ctx.evaluations = len(cases)
    ctx.validate("SafeWrite_Trace", events, by_id)
    broken = [f for f in ctx.failures if f["op"] in ("machinery", "trace")]
    if broken:
        raise MachineryError(f"the harness did not do what the configuration says: {broken[0]['clause']} on "
                             f"{canon(broken[0]['input'])}")
    _canaries(ctx, events)
    writes = [c for c in cases if c["op"] == "write"]
    dir_cases = [c for c in cases if c["op"] == "dir"]
    for case in (writes[len(writes) // 2], writes[-1], dir_cases[len(dir_cases) // 2], dir_cases[-1]):
        ctx.sample({"case": case["input"], "call": by_id[case["id"]]["call"], "observed": by_id[case["id"]]["observed"]})
    refusals = sum(1 for ev in events if ev["op"] == "dir" and ev["ret"]["exc"])
    ctx.exhaustive = True
    ctx.rule = ("TLC enumerates every configuration: 0..N records x 0..M module results x writer (write_to_file, "
                "dump_records) x fault (none; at the to_json call of any module result: TypeError, other exception, "
                "result of invalid type; inside the final dumps at the data of any module result: TypeError, other "
                "exception, unserialisable value; an unserialisable top-level field) and every directory configuration "
                "(absent / a file / a directory holding any subset of input copy, log file, region files, results json, "
                "other file, other directory, dot-file) x mode fresh/reuse x log file configured or not; each is executed "
                "once against the real code (the directory configurations of fresh runs without a log file also through the command line entry point "
                "with the default output directory); plus the writer's call site: run_antismash in reuse mode with results of an unknown module "
                "in the first / last record; non-trivial = a fault is planted / the directory is not empty")
    ctx.notes["write_cases"] = len(writes)
    ctx.notes["dir_cases"] = len(dir_cases)
    ctx.notes["dir_refusals_observed"] = refusals
    ctx.notes["write_failures_observed"] = sum(1 for ev in events if ev["op"] == "write" and ev["ret"]["exc"])
    ctx.notes["sizes"] = {"strict": list(strict_size), "free": list(free_size)}
    ctx.assumptions += [
        "Open/Write are observed through builtins.open / io.open on the target path; a writer going through os.open "
        "directly would only be judged by the bytes found afterwards",
        "dot-files as the only foreign contents of a fresh run, absent directories and reuse from a file outside the "
        "directory are unspecified (either verdict accepted); a refusal must leave the listing untouched in every case",
        "the ordering in _run_antismash (json written before annotate_records/write_outputs) is not executed: the "
        "full pipeline needs external binaries",
    ]


def replay(ctx, record):
    case = record["input"]
    op = "write" if "writer" in case else "dir"
    if "name" in case:
        op = "target"
    func = observe_target if op == "target" else _dir_func(case) if op != "write" else (
        observe_pipeline_write if case["writer"] == "run_antismash" else observe_write)
    event = func(case, ctx.workdir)
    event["id"] = 0
    by_id = {0: {"op": op, "input": case, "call": _call_text(op, case),
                 "observed": {k: v for k, v in event.items() if k in ("trace", "ret", "disk", "status", "extra", "after")}}}
    res = ctx.validate("SafeWrite_Trace", [event], by_id)
    ctx.failures = [f for f in ctx.failures if f["op"] == record["op"] and f["clause"] == record["clause"]]
    return res
