""" C13 - HMM hit refinement keeps the best non-overlapping hits, order-independently.

    spec: Refine.tla; model runs: Refine_MC (three families of inputs: refinement, hmmer.remove_overlapping,
    competition between equivalent profiles; satisfiability of the relations, order-freedom of the repaired
    implementation-shaped model, four negative controls on the current implementation shape);
    binding: every TLC-enumerated input (dump) plus seeded random larger inputs is replayed into the real
    functions for every permutation of the input list, in child interpreters started with fixed
    PYTHONHASHSEED values (refine_hmmscan_results funnels its hits through a set), and the bundle of all
    results of one input is decided by TLC in Refine_Trace (relations + "all results equal").

    This module is also the child: `python -m harness.props.c13 <tasks.json> <results.json>`.
"""

import itertools
import json
import os
import random
import subprocess
import sys
from concurrent.futures import ThreadPoolExecutor

from .. import tlc, tlaval
from ..common import CPUS, VERIF, MachineryError, canon, chunks, import_repo

META = ("id", "sampled", "features", "perms")
BATCH = 40000
EV_SCALE = 2.0 ** 40
GENE = "g"

MC_CFG = """SPECIFICATION Spec
CONSTANTS
  Family = "%(family)s"
  Uni = "%(uni)s"
  Scores = {%(scores)s}
  MaxHits = %(maxhits)d
  Genes = {%(genes)s}
"""

FAMILIES = {
    "refine": ["RefineSat", "FixedOrderFree", "FixedDesignResidual"],
    "nooverlap": ["NoOvSat", "NoOvRankTotal", "NoOvSweepSound", "MustImpliesMay"],
    "compete": ["CompeteSat", "CompeteRefOrderFree"],
}

NEGATIVE_CONTROLS = [
    ("NC_OrderFree", "P5 (design before fix 8cd6c2be): set order + sort by start only makes the greedy passes order-dependent"),
    ("NC_ChainJustified", "P14: chained replacement drops a hit whose replacer is itself dropped"),
    ("NC_MergeSpans", "P24: a merge that takes the other fragment's end does not span its fragments"),
    ("NC_AllChainsKept", "N1: only the last merged domain of a profile survives in default mode"),
]


# =================================================================================================
# child side: materialise, call, project (no verdicts here)
# =================================================================================================
class _ProjectionError(Exception):
    """ The real result cannot be expressed in the abstract vocabulary (e.g. a fractional score). """


def _exact_int(value, what):
    number = float(value)
    if number != int(number):
        raise _ProjectionError(f"{what} {value!r} is not on the integer grid")
    return int(number)


class _HSP:  # duck-typed Bio.SearchIO HSP as used by refine_hmmscan_results (hmmscan: query = gene)
    def __init__(self, hit):
        self.query_id = GENE
        self.hit_id = hit["p"]
        self.query_start = hit["s"]
        self.query_end = hit["e"]
        self.bitscore = float(hit["sc"])
        self.evalue = hit["ev"] / EV_SCALE


class _QueryResult:
    def __init__(self, hsps):
        self.hsps = hsps


class _SearchHSP:
    """ duck-typed HSP as used by filter_results (hmmsearch: query = profile, hit = gene); identity
        equality like the real class, but a scheduled hash so that the iteration order of the sets of
        hits built by the code is reproducible and can be varied """
    def __init__(self, hit, slot):
        self.query_id = hit["p"]
        self.hit_id = hit["g"]
        self.hit_start = hit["s"]
        self.hit_end = hit["e"]
        self.bitscore = float(hit["sc"])
        self.evalue = 1e-10
        self.query_start, self.query_end = hit["s"], hit["e"]      # (carried into the hits find_hmmer_hits returns)
        self._slot = slot

    def __hash__(self):
        return self._slot


def _project_refined(result):
    if not result:
        return []
    if set(result) != {GENE}:
        raise _ProjectionError(f"unexpected genes {sorted(result)}")
    return [{"p": hit.hit_id, "s": int(hit.query_start), "e": int(hit.query_end),
             "sc": _exact_int(hit.bitscore, "bitscore"), "ev": _exact_int(hit.evalue * EV_SCALE, "evalue")}
            for hit in result[GENE]]


def _project_search(hsp):
    return {"g": hsp.hit_id, "p": hsp.query_id, "s": int(hsp.hit_start), "e": int(hsp.hit_end),
            "sc": _exact_int(hsp.bitscore, "bitscore")}


def _result(func, shape):
    try:
        return {"exc": "", "v": func()}
    except Exception as err:  # pylint: disable=broad-except
        return {"exc": type(err).__name__, "v": shape}


def _slot(schedule, index, count):
    if schedule == 0:
        return index
    if schedule == 1:
        return count - 1 - index
    return (index * 5 + 3) % 8


def _run_task(task, mods):
    refinement, hmmer, prediction = mods
    hits = task["hits"]
    out = {"id": task["id"]}
    if task["op"] == "refine":
        lengths = {name: info["len"] for name, info in task["prof"].items()}
        for key, neighbour in (("d", False), ("n", True)):
            results = []
            for perm in task["perms"]:
                def call(perm=perm, neighbour=neighbour):
                    query = _QueryResult([_HSP(hits[i]) for i in perm])
                    return _project_refined(refinement.refine_hmmscan_results([query], dict(lengths),
                                                                              neighbour_mode=neighbour))
                results.append(_result(call, []))
            out[key] = results
    elif task["op"] == "nooverlap":
        cutoffs = {name: float(info["cut"]) for name, info in task["prof"].items()}
        results = []
        for perm in task["perms"]:
            def call(perm=perm):
                real = [hmmer.HmmerHit(location="[0:1]", label=hits[i]["p"], locus_tag=GENE, domain=hits[i]["p"],
                                       evalue=1e-10, score=float(hits[i]["sc"]), identifier=hits[i]["p"],
                                       description="d", protein_start=hits[i]["s"], protein_end=hits[i]["e"],
                                       translation="M" * (hits[i]["e"] - hits[i]["s"])) for i in perm]
                kept = hmmer.remove_overlapping(real, dict(cutoffs), overlap_limit=task["limit"])
                return [{"p": hit.identifier, "s": int(hit.protein_start), "e": int(hit.protein_end),
                         "sc": _exact_int(hit.score, "score")} for hit in kept]
            results.append(_result(call, []))
        out["outs"] = results
    elif task["op"] == "compete":
        groups = [set(group) for group in task["groups"]]
        for key in ("fr", "fm"):
            results = []
            for perm in task["perms"]:
                for schedule in task["schedules"]:
                    ordered = [hits[i] for i in perm]

                    def call(ordered=ordered, schedule=schedule, key=key):
                        objs = [_SearchHSP(hit, _slot(schedule, idx, len(ordered))) for idx, hit in enumerate(ordered)]
                        by_id = {}
                        for obj in objs:
                            by_id.setdefault(obj.hit_id, []).append(obj)
                        if key == "fr":
                            res, res_by_id = prediction.filter_results(list(objs), by_id, [set(g) for g in groups])
                        else:
                            res, res_by_id = prediction.filter_result_multiple(list(objs), by_id)
                        return {"out": [_project_search(h) for h in res],
                                "byid": [_project_search(h) for gene in res_by_id for h in res_by_id[gene]]}
                    res = _result(call, {"out": [], "byid": []})
                    res["hits"] = ordered
                    results.append(res)
            out[key] = results
        # the two filters as the pipeline composes them (find_hmmer_hits, the search itself replaced by the hits of the case):
        # competition between equivalent profiles first, then the best hit of each profile
        import types
        from unittest import mock
        composed = []
        for perm in task["perms"]:
            ordered = [hits[i] for i in perm]
            schedule = task["schedules"][0]

            def call_composed(ordered=ordered, schedule=schedule):
                def fresh():
                    return [_SearchHSP(hit, _slot(schedule, idx, len(ordered))) for idx, hit in enumerate(ordered)]
                objs = fresh()
                by_id = {}
                for obj in objs:
                    by_id.setdefault(obj.hit_id, []).append(obj)
                mid, _ = prediction.filter_results(list(objs), by_id, [set(g) for g in groups])
                search = types.SimpleNamespace(accession="verif.1", hsps=fresh())
                sigs = {hit["p"]: types.SimpleNamespace(cutoff=-1e9, seed_count=1) for hit in ordered}
                with mock.patch.object(prediction, "run_hmmsearch", return_value=[search]), \
                        mock.patch.object(prediction.fasta, "get_fasta_from_record", return_value=""):
                    found = prediction.find_hmmer_hits(None, sigs, "", [set(g) for g in groups])
                final = [{"g": h.hit_id, "p": h.query_id, "s": int(h.query_start), "e": int(h.query_end),
                          "sc": _exact_int(h.bitscore, "bitscore")} for gene in found for h in found[gene]]
                final.sort(key=lambda h: (h["s"], h["e"], h["g"], h["p"]))
                return {"mid": [_project_search(h) for h in mid], "out": final}
            res = _result(call_composed, {"mid": [], "out": []})
            res["hits"] = ordered
            composed.append(res)
        out["fh"] = composed
    else:
        raise ValueError(task["op"])
    return out


def child_main(argv):
    import_repo()
    from antismash.common import hmmscan_refinement, hmmer  # pylint: disable=import-outside-toplevel
    from antismash.common.hmm_rule_parser import cluster_prediction  # pylint: disable=import-outside-toplevel
    with open(argv[0], encoding="utf-8") as handle:
        tasks = json.load(handle)
    mods = (hmmscan_refinement, hmmer, cluster_prediction)
    results = [_run_task(task, mods) for task in tasks]
    with open(argv[1], "w", encoding="utf-8") as handle:
        json.dump({"hashseed": os.environ.get("PYTHONHASHSEED"), "results": results}, handle, separators=(",", ":"))
    return 0


# =================================================================================================
# parent side
# =================================================================================================
def _spawn_children(ctx, batches):
    """ batches: list of (hash seed, [tasks]); returns {seed: {task id: result}} """
    jobs = []
    for seed, tasks in batches:
        for part_no, part in enumerate(_split(tasks, CPUS)):
            stem = os.path.join(ctx.workdir, f"child_s{seed}_{part_no}")
            with open(stem + ".in.json", "w", encoding="utf-8") as handle:
                json.dump(part, handle, separators=(",", ":"))
            jobs.append((seed, stem))

    def one(job):
        seed, stem = job
        env = dict(os.environ)
        env["PYTHONHASHSEED"] = str(seed)
        proc = subprocess.run([sys.executable, "-m", "harness.props.c13", stem + ".in.json", stem + ".out.json"],
                              cwd=VERIF, env=env, stdout=subprocess.PIPE, stderr=subprocess.STDOUT, check=False,
                              timeout=3000)
        if proc.returncode != 0:
            raise MachineryError(f"child interpreter (hash seed {seed}) failed:\n"
                                 + proc.stdout.decode('utf-8', 'replace')[-2000:])
        with open(stem + ".out.json", encoding="utf-8") as handle:
            data = json.load(handle)
        if data["hashseed"] != str(seed):
            raise MachineryError(f"child ran with PYTHONHASHSEED={data['hashseed']!r}, wanted {seed}")
        os.unlink(stem + ".in.json")
        os.unlink(stem + ".out.json")
        return seed, data["results"]

    collected = {}
    with ThreadPoolExecutor(max_workers=CPUS) as pool:
        for seed, results in pool.map(one, jobs):
            bucket = collected.setdefault(seed, {})
            for res in results:
                bucket[res["id"]] = res
    return collected


def _split(items, n):
    return chunks(items, max(1, min(n, len(items) // 200 or 1)))


# ---- abstract helpers used only to build inputs / features (never to judge results) --------------
def _beyond(prof, first, second):
    return 5 * (first["e"] - second["s"]) > max(prof[first["p"]]["len"], prof[second["p"]]["len"])


def _overlaps(prof, a, b):
    return (a["s"] <= b["s"] and _beyond(prof, a, b)) or (b["s"] <= a["s"] and _beyond(prof, b, a))


def _complete(prof, hit):
    return 2 * (hit["e"] - hit["s"]) > prof[hit["p"]]["len"]


def _domains(prof, hits):
    """ what can compete for a stretch of the protein: every hit, and the hull of every same-profile pair
        close enough to be merged into one domain; (p, s, e, indices of the hits it is made of) """
    domains = [{"p": h["p"], "s": h["s"], "e": h["e"], "of": {i}} for i, h in enumerate(hits)]
    for (i, a), (j, b) in itertools.combinations(enumerate(hits), 2):
        if a["p"] != b["p"]:
            continue
        low, high = min(a["s"], b["s"]), max(a["e"], b["e"])
        if 2 * (high - low) < 3 * prof[a["p"]]["len"]:
            domains.append({"p": a["p"], "s": low, "e": high, "of": {i, j}})
    return domains


def _refine_features(case):
    prof, hits = case["prof"], case["hits"]
    feats = set()
    pairs = list(itertools.combinations(hits, 2))
    if any(a["s"] == b["s"] for a, b in pairs):
        feats.add("equal_starts")
    for a, b in pairs:
        if a["p"] != b["p"]:
            continue
        first, second = (a, b) if (a["s"], a["e"]) <= (b["s"], b["e"]) else (b, a)
        if 2 * (second["e"] - first["s"]) >= 3 * prof[a["p"]]["len"]:
            feats.add("same_profile_pair_too_far_to_merge")
        if first["s"] == second["s"] or second["e"] < first["e"]:
            feats.add("same_profile_nested_fragment")
    domains = _domains(prof, hits)
    clash = [(x, y) for x, y in itertools.combinations(domains, 2) if not x["of"] & y["of"] and _overlaps(prof, x, y)]
    if clash:
        feats.add("overlapping_domains")
    # a short (incomplete) hit, or a mergeable pair that stays incomplete, overlapping another hit or pair beyond the margin
    if any(not _complete(prof, x) for pair in clash for x in pair):
        feats.add("incomplete_hit_overlaps_a_domain")
    # the middle of a chain / the hub of a star: a domain that overlaps two others
    for mid in domains:
        partners = [y if x is mid else x for x, y in clash if x is mid or y is mid]
        if any(not a["of"] & b["of"] for a, b in itertools.combinations(partners, 2)):
            feats.add("domain_overlaps_two_others")
            break
    # a hit that starts between two hits which overlap each other beyond their margin: the overlap pass compares
    # neighbours in start order only, so the two are never compared
    ordered = sorted(hits, key=lambda h: (h["s"], h["e"]))
    for i, first in enumerate(ordered):
        for third in ordered[i + 2:]:
            if _overlaps(prof, first, third):
                feats.add("hit_starts_between_two_overlapping_hits")
    return sorted(feats)


def _ov_size(a, b):
    return max(0, min(a["e"], b["e"]) - max(a["s"], b["s"]))


def _components(members):
    comps = []
    for hit in members:
        touching = [c for c in comps if any(_ov_size(hit, other) > 20 for other in c)]
        for comp in touching:
            comps.remove(comp)
        comps.append([hit] + [x for comp in touching for x in comp])
    return comps


def _compete_features(case):
    hits, groups = case["hits"], [set(g) for g in case["groups"]]
    feats = set()
    for gene in {h["g"] for h in hits}:
        mine = [h for h in hits if h["g"] == gene]
        for group in groups:
            if len({h["p"] for h in mine} & group) < 2:
                continue
            feats.add("competing_group_on_gene")
            members = [h for h in mine if h["p"] in group]
            others = [h for h in mine if h["p"] not in group]
            if any(_ov_size(a, b) > 20 for a in members + others for b in others if a is not b):
                feats.add("outsider_overlaps_on_competing_gene")
            for comp in _components(members):
                top = max(h["sc"] for h in comp)
                if len([h for h in comp if h["sc"] == top]) > 1:
                    feats.add("tied_best_scores_in_overlap_group")
    by_key = {}
    for hit in hits:
        by_key.setdefault((hit["g"], hit["p"]), []).append(hit)
    for same in by_key.values():
        top = max(h["sc"] for h in same)
        if len([h for h in same if h["sc"] == top]) > 1:
            feats.add("tied_best_scores_same_profile_same_gene")
    return sorted(feats)


def _nooverlap_features(case):
    hits, limit = case["hits"], case["limit"]
    leftmost = min(h["s"] for h in hits)
    if any(h["s"] == leftmost and h["e"] - h["s"] < limit for h in hits):
        return ["a_leftmost_hit_shorter_than_limit"]
    return []


def _features(case):
    if case["op"] == "refine":
        return _refine_features(case)
    if case["op"] == "compete":
        return _compete_features(case)
    return _nooverlap_features(case)


def _nontrivial(case):
    hits = case["hits"]
    if case["op"] == "refine":
        return any(_overlaps(case["prof"], a, b) or a["p"] == b["p"] for a, b in itertools.combinations(hits, 2))
    if case["op"] == "nooverlap":
        return any(a["e"] - b["s"] >= case["limit"] and b["e"] - a["s"] >= case["limit"]
                   for a, b in itertools.combinations(hits, 2))
    return any(_ov_size(a, b) > 20 or (a["g"], a["p"]) == (b["g"], b["p"]) for a, b in itertools.combinations(hits, 2))


def _hit_sort_key(hit):
    return (hit.get("g", ""), hit["p"], hit["s"], hit["e"], hit["sc"], hit.get("ev", 0))


def call_text(case):
    hits = case["hits"]
    if case["op"] == "refine":
        lens = {name: info["len"] for name, info in case["prof"].items()}
        return ("refine_hmmscan_results([QR([HSP(query_id='g', hit_id=p, query_start=s, query_end=e, bitscore=float(sc), "
                f"evalue=ev/2**40) for p, s, e, sc, ev in {[[h['p'], h['s'], h['e'], h['sc'], h['ev']] for h in hits]}])], "
                f"{lens}, neighbour_mode=False|True)  # every permutation of the list, PYTHONHASHSEED 0..n")
    if case["op"] == "nooverlap":
        cuts = {name: float(info["cut"]) for name, info in case["prof"].items()}
        return ("hmmer.remove_overlapping([HmmerHit(identifier=p, protein_start=s, protein_end=e, score=float(sc), ...) "
                f"for p, s, e, sc in {[[h['p'], h['s'], h['e'], h['sc']] for h in hits]}], {cuts}, "
                f"overlap_limit={case['limit']})  # every permutation of the list")
    return ("filter_results(hsps, {gene: hsps of gene}, " + str([sorted(g) for g in case["groups"]]) + ") and "
            "filter_result_multiple(hsps, {gene: ...}) with hsps = [HSP(hit_id=g, query_id=p, hit_start=s, hit_end=e, "
            f"bitscore=float(sc)) for g, p, s, e, sc in {[[h['g'], h['p'], h['s'], h['e'], h['sc']] for h in hits]}]"
            "  # every permutation of the list, scheduled hashes")


def case_input(case):
    return {k: v for k, v in case.items() if k not in META}


# ---- case construction -------------------------------------------------------------------------------
def _consts(run):
    for line in run.out.splitlines():
        if line.startswith('<<"CONSTS"'):
            return tlaval.parse(line)[1]
    raise MachineryError("Refine_MC did not print its constants")


def _model_run(ctx, family, params, label, invariants, dump):
    cfg = MC_CFG % dict(params, family=family) + "".join(f"INVARIANT {inv}\n" for inv in invariants)
    for attempt in range(3):
        try:
            return tlc.run("Refine_MC", cfg, ctx.workdir, dump=dump, timeout=3000, tag=f"_{label}",
                           workers=max(2, CPUS // 3))
        except FileExistsError:  # two threads staging a spec file that appeared meanwhile
            if attempt == 2:
                raise
    return None


def _cases_of(run, family):
    """ The reachable states of a generator run, as abstract inputs. """
    consts = _consts(run)
    cases = []
    for state in tlaval.read_dump(run.dump_path):
        hits = sorted((dict(h) for h in state["hits"]), key=_hit_sort_key)
        if not hits:
            continue
        if family == "refine":
            cases.append({"op": "refine", "prof": consts["refprof"], "hits": hits})
        elif family == "nooverlap":
            for limit in sorted(consts["limits"]):
                cases.append({"op": "nooverlap", "prof": consts["noovprof"], "limit": limit, "hits": hits})
        else:
            cases.append({"op": "compete", "groups": sorted(sorted(g) for g in consts["groups"]), "hits": hits})
    os.unlink(run.dump_path)
    if not cases:
        raise MachineryError(f"vacuous generator run for {family}: no input enumerated")
    return cases


def _random_refine(rng):
    names = ["pa", "pb", "pc_regulator", "pd"]
    rng.shuffle(names)
    names = sorted(names[:rng.randrange(2, 5)])
    prof = {name: {"len": rng.choice([20, 25, 34, 50, 64, 90, 120]), "reg": "regulator" in name, "ord": idx + 1}
            for idx, name in enumerate(names)}
    hits = []
    grid = rng.choice([1, 5, 10])
    for _ in range(rng.randrange(3, 9)):
        name = rng.choice(names)
        length = max(1, int(prof[name]["len"] * rng.choice([0.1, 0.3, 0.34, 0.5, 0.55, 0.8, 1.0, 1.2])))
        start = rng.randrange(0, 300 // grid) * grid
        hit = {"p": name, "s": start, "e": start + length, "sc": rng.randrange(1, 6), "ev": rng.randrange(1, 6)}
        if hit not in hits:
            hits.append(hit)
    return {"op": "refine", "prof": prof, "hits": sorted(hits, key=_hit_sort_key), "sampled": True}


def _random_nooverlap(rng):
    names = ["PF1", "PF2", "PF3"]
    prof = {name: {"cut": rng.choice([10, 20, 25]), "ord": idx + 1} for idx, name in enumerate(names)}
    hits = []
    for _ in range(rng.randrange(3, 9)):
        start = rng.randrange(0, 40) * 5
        hit = {"p": rng.choice(names), "s": start, "e": start + rng.choice([4, 10, 15, 30, 60, 100]),
               "sc": rng.choice([10, 20, 25, 40, 50])}
        if hit not in hits:
            hits.append(hit)
    return {"op": "nooverlap", "prof": prof, "limit": rng.choice([5, 10, 20]),
            "hits": sorted(hits, key=_hit_sort_key), "sampled": True}


def _random_compete(rng):
    hits = []
    for _ in range(rng.randrange(3, 8)):
        start = rng.randrange(0, 30) * 10 + rng.choice([0, 0, 1, 9])
        hit = {"g": rng.choice(["g1", "g1", "g2"]), "p": rng.choice(["p", "q", "r", "s", "t"]), "s": start,
               "e": start + rng.choice([15, 21, 30, 50, 51, 80, 120]), "sc": rng.randrange(1, 5)}
        if hit not in hits:
            hits.append(hit)
    return {"op": "compete", "groups": [["p", "q"], ["r", "s"]], "hits": sorted(hits, key=_hit_sort_key),
            "sampled": True}


def _chain_compete(rng):
    """ four or five hits of one equivalence group on one gene, each overlapping the next by more than the margin: one
        connected overlap group whatever the order in which the pairs are met """
    hits, start = [], rng.randrange(0, 4) * 10
    for _ in range(rng.choice([4, 4, 5])):
        length = rng.choice([50, 80, 120])
        hit = {"g": "g1", "p": rng.choice(["p", "q"]), "s": start, "e": start + length, "sc": rng.randrange(1, 10)}
        hits.append(hit)
        start = hit["e"] - rng.choice([21, 25, 40])     # the next one starts inside this one
    if rng.random() < 0.3:
        hits.append({"g": "g1", "p": rng.choice(["r", "t"]), "s": hits[1]["s"] + 5, "e": hits[1]["s"] + 60, "sc": rng.randrange(1, 10)})
    return {"op": "compete", "groups": [["p", "q"], ["r", "s"]], "hits": sorted(hits, key=_hit_sort_key), "sampled": True}


def _perms(case, rng, limit=24):
    count = len(case["hits"])
    if count <= 4:
        return [list(p) for p in itertools.permutations(range(count))][:limit]
    perms = [list(range(count)), list(range(count - 1, -1, -1))]
    while len(perms) < limit:
        perm = list(range(count))
        rng.shuffle(perm)
        if perm not in perms:
            perms.append(perm)
    return perms


def _observe(ctx, cases, seeds, rng):
    """ Runs every case in child interpreters; returns events (one per case). """
    batches = []
    for seed in seeds:
        tasks = []
        for case in cases:
            if seed != seeds[0]:
                # other hash seeds only matter where str hashes order a set: refinement inputs with ties in the sort key
                if case["op"] != "refine" or "equal_starts" not in case["features"]:
                    continue
            task = dict(case_input(case), id=case["id"])
            task["perms"] = case["perms"] if seed == seeds[0] else case["perms"][:1] + case["perms"][-1:]
            if case["op"] == "compete":
                task["schedules"] = [0, 1]
            tasks.append(task)
        if tasks:
            batches.append((seed, tasks))
    collected = _spawn_children(ctx, batches)
    events = []
    for case in cases:
        event = dict(case_input(case), id=case["id"])
        if case["op"] == "refine":
            event["d"], event["n"] = [], []
            for seed in seeds:
                res = collected.get(seed, {}).get(case["id"])
                if res:
                    event["d"] += res["d"]
                    event["n"] += res["n"]
            event["drift"] = len(case["hits"]) <= 4 and not case.get("sampled", False)
        elif case["op"] == "nooverlap":
            event["outs"] = collected[seeds[0]][case["id"]]["outs"]
        else:
            event["fr"] = collected[seeds[0]][case["id"]]["fr"]
            event["fm"] = collected[seeds[0]][case["id"]]["fm"]
            event["fh"] = collected[seeds[0]][case["id"]]["fh"]
        events.append(event)
    return events


def _distinct(results):
    seen = []
    for res in results:
        value = {k: v for k, v in res.items() if k != "hits"}
        if value not in seen:
            seen.append(value)
    return seen


def _observed(event):
    keys = {"refine": ("d", "n"), "nooverlap": ("outs",), "compete": ("fr", "fm", "fh")}[event["op"]]
    return {key: {"runs": len(event[key]), "distinct_results": _distinct(event[key])} for key in keys}


def run(ctx):
    rng = random.Random(ctx.seed)
    if ctx.quick:
        plan = [("refine", {"uni": "r8", "scores": "1, 2, 3", "maxhits": 3, "genes": '"g1"'}, "refine_r8x3"),
                ("nooverlap", {"uni": "n8", "scores": "1, 2", "maxhits": 3, "genes": '"g1"'}, "nooverlap_n8x3"),
                ("compete", {"uni": "c6", "scores": "1, 2", "maxhits": 3, "genes": '"g1"'}, "compete_c6x3")]
        seeds, randoms = [0, 1, 2], 1500
    else:
        plan = [("refine", {"uni": "r12", "scores": "1, 2, 3", "maxhits": 3, "genes": '"g1"'}, "refine_r12x3"),
                ("refine", {"uni": "r8", "scores": "1, 2", "maxhits": 4, "genes": '"g1"'}, "refine_r8x4"),
                ("nooverlap", {"uni": "n11", "scores": "1, 2, 4", "maxhits": 3, "genes": '"g1"'}, "nooverlap_n11x3"),
                ("nooverlap", {"uni": "n8", "scores": "1, 2", "maxhits": 4, "genes": '"g1"'}, "nooverlap_n8x4"),
                ("compete", {"uni": "c8", "scores": "1, 2, 3", "maxhits": 3, "genes": '"g1"'}, "compete_c8x3"),
                ("compete", {"uni": "c6", "scores": "1, 2", "maxhits": 4, "genes": '"g1"'}, "compete_c6x4"),
                ("compete", {"uni": "c6", "scores": "1, 2", "maxhits": 3, "genes": '"g1", "g2"'}, "compete_c6x3_2genes")]
        seeds, randoms = [0, 1, 2, 3, 4, 5], 30000

    # development knob (used when regenerating the case lists of the findings): C13_FAMILIES=refine runs one call site
    only = [x for x in os.environ.get("C13_FAMILIES", "").split(",") if x]
    if only:
        plan = [item for item in plan if item[0] in only]
        ctx.notes["restricted_to_families"] = only
    cases, seen = [], set()
    sizes = {}
    timing = ctx.notes.setdefault("timing_s", {})
    mark = ctx.timer.elapsed()
    # all TLC runs side by side: generators with their invariants, and the negative controls (the current
    # implementation shape must violate these on the model)
    nc_params = next((item[1] for item in plan if item[0] == "refine"), None)
    controls = NEGATIVE_CONTROLS if nc_params else []
    tlc.stage(ctx.workdir)
    with ThreadPoolExecutor(max_workers=4) as pool:
        futures = [pool.submit(_model_run, ctx, family, params, label, FAMILIES[family], True)
                   for family, params, label in plan]
        nc_futures = [pool.submit(_model_run, ctx, "refine", nc_params, invariant, [invariant], False)
                      for invariant, _ in controls]
        runs = [f.result() for f in futures]
        nc_runs = [f.result() for f in nc_futures]
    for (family, params, label), mc_run in zip(plan, runs):
        ctx.model(mc_run, f"Refine_MC {label}: {', '.join(FAMILIES[family])}")
        fresh = 0
        for case in _cases_of(mc_run, family):
            key = canon(case)
            if key in seen:
                continue
            seen.add(key)
            cases.append(case)
            fresh += 1
        sizes[label] = fresh
    for (invariant, label), nc_run in zip(controls, nc_runs):
        ctx.expect_violation(nc_run, invariant, label)
    timing["model_runs_and_negative_controls"] = round(ctx.timer.elapsed() - mark, 1)
    mark = ctx.timer.elapsed()
    for _ in range(randoms):
        pick = rng.random()
        case = (_random_refine(rng) if pick < 0.5 else _random_nooverlap(rng) if pick < 0.7 else
                _random_compete(rng) if pick < 0.9 else _chain_compete(rng))
        if not only or case["op"] in only:
            cases.append(case)
    timing["real_code_in_child_interpreters"] = 0.0
    timing["trace_validation"] = 0.0
    samples = {0: None, len(cases) // 2: None, len(cases) - 1: None}
    # in batches, so that the results of a thorough run never sit in memory all at once
    for offset in range(0, len(cases), BATCH):
        batch = cases[offset:offset + BATCH]
        for idx, case in enumerate(batch):
            case["id"] = offset + idx
            case["features"] = _features(case)
            case["perms"] = _perms(case, rng)
        mark = ctx.timer.elapsed()
        events = _observe(ctx, batch, seeds, rng)
        timing["real_code_in_child_interpreters"] = round(timing["real_code_in_child_interpreters"]
                                                          + ctx.timer.elapsed() - mark, 1)
        by_id = {}
        for case, event in zip(batch, events):
            by_id[case["id"]] = {"op": case["op"], "input": case_input(case),
                                 "call": call_text(case), "features": case["features"],
                                 "sampled": case.get("sampled", False), "observed": _observed(event)}
            if case.get("sampled"):
                by_id[case["id"]]["perms"] = case["perms"]      # lets a replay run the very same orders
            if _nontrivial(case):
                ctx.nontrivial_case(case["id"])
            if case["id"] in samples:
                samples[case["id"]] = {"case": case_input(case), "call": call_text(case),
                                       "observed": by_id[case["id"]]["observed"]}
            del case["perms"]
        ctx.evaluations += sum(len(ev.get("d", [])) + len(ev.get("n", [])) + len(ev.get("outs", []))
                               + len(ev.get("fr", [])) + len(ev.get("fm", [])) for ev in events)
        mark = ctx.timer.elapsed()
        ctx.validate("Refine_Trace", events, by_id, min_per_shard=150)
        timing["trace_validation"] = round(timing["trace_validation"] + ctx.timer.elapsed() - mark, 1)
        del events, by_id

    drift = [f for f in ctx.failures if f["op"] == "drift"]
    ctx.failures = [f for f in ctx.failures if f["op"] != "drift"]
    ctx.notes["drift_from_implementation_model"] = {
        "events": len(drift), "examples": [canon(f["input"])[:300] for f in drift[:3]],
        "meaning": "results the implementation-shaped TLA+ model does not produce under any order/repair; never an alarm"}

    for sample in samples.values():
        if sample:
            ctx.sample(sample)
    ctx.exhaustive = True
    ctx.rule = ("TLC enumerates every set of at most MaxHits hits over the interval/score/profile universes of Refine_MC "
                "(equal starts, equal scores, nesting, chains, fragments of one profile) for the three call sites; each "
                "input is executed for every permutation of its list (all 24 for 4 hits), refinement additionally in child "
                "interpreters under several PYTHONHASHSEED values, the competition with scheduled object hashes; plus "
                "seeded random larger inputs (sampled). Non-trivial = at least two hits interact (overlap beyond the "
                "margin/limit, or same profile).")
    ctx.notes["enumerated_inputs"] = sizes
    ctx.notes["random_cases"] = randoms
    ctx.notes["hash_seeds"] = seeds
    ctx.assumptions += [
        "hits enter as data: the HMMER search itself is outside the model",
        "scores, e-values and cutoffs are positive and on an integer grid (e-value = n * 2^-40); one protein per call for "
        "refinement, one or two genes for the competition",
        "equivalence groups are disjoint (as the repository's own test demands of the shipped file)",
        "filter_nonterminal_docking_domains is not exercised",
    ]


def replay(ctx, record):
    rng = random.Random(record.get("seed", 0))
    case = dict(record["input"])
    case["id"] = 0
    case["features"] = _features(case)
    case["perms"] = record.get("perms") or _perms(case, rng)
    if record.get("sampled"):
        case["sampled"] = True
    seeds = [0, 1, 2, 3, 4, 5]
    events = _observe(ctx, [case], seeds, rng)
    by_id = {0: {"op": case["op"], "input": record["input"], "call": call_text(case), "observed": _observed(events[0])}}
    res = ctx.validate("Refine_Trace", events, by_id)
    ctx.failures = [f for f in ctx.failures if f["op"] == record["op"] and f["clause"] == record["clause"]]
    return res


if __name__ == "__main__":
    sys.exit(child_main(sys.argv[1:]))
