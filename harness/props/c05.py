""" C05 - candidate clusters group protoclusters by the documented kinds.

    spec: Candidates.tla (documented grouping: hybrids / interleaved / neighbouring / singles, as a relation with
    the coordinate-coincidence and half-ring sandwiches); Candidates_MC (protocluster shapes universe; groups
    disjoint, reference satisfies relation, renaming-free); binding: arrangements of 2-4 shapes with defining genes,
    run through Record.create_candidate_clusters() in every input order; Candidates_Trace decides.
"""

import itertools
import random

from .. import tlc, tlaval
from ..batch import run_batches
from ..common import MachineryError

MC_CFG = """SPECIFICATION Spec
CONSTANTS
  Samples = %d
INVARIANT Covered
INVARIANT GroupsDisjoint
INVARIANT RefSatisfies
INVARIANT PermutationFree
"""


def norm_loc(loc):
    return {"parts": [list(p) for p in loc["parts"]], "strand": loc["strand"]}


def make_arr(rng, key, shapes, mode="auto"):
    """ arrangement from shapes: one defining gene per protocluster (first base of its core); a gene may also be a core
        gene for the other protoclusters whose core contains it (shared defining gene -> chemical hybrid) """
    length, circ = key
    protos = [{"core": s["core"], "extent": s["extent"], "product": f"p{i + 1}"} for i, s in enumerate(shapes)]
    genes = []
    for i, shape in enumerate(shapes):
        core = shape["core"]
        start = core["parts"][0][0]
        loc = {"parts": [[start, start + 1]], "strand": rng.choice([1, -1])}
        if any(g["loc"]["parts"] == loc["parts"] and g["loc"]["strand"] == loc["strand"] for g in genes):
            loc["strand"] = -loc["strand"]
        if any(g["loc"]["parts"] == loc["parts"] and g["loc"]["strand"] == loc["strand"] for g in genes):
            continue
        share = rng.random() < 0.5 if mode == "auto" else mode == "share"
        core_for = [p["product"] for p in protos] if share else [protos[i]["product"]]
        genes.append({"loc": loc, "core_for": core_for})
    return {"L": length, "circ": circ, "protos": protos, "genes": genes}


def two_hybrids_and_a_loner(rng, key, pool):
    """ five protoclusters: two pairs that each share a defining gene (two chemical hybrids) and one protocluster with a
        defining gene of its own, placed so that its core often overlaps a hybrid's core while the other hybrid starts no
        later than that one (candidates are looked at in location order, cores decide interleaving) """
    length, circ = key

    def bases(loc):
        return {b for s, e in loc["parts"] for b in range(s, e)}

    def pair(shape):
        gene_at = shape["core"]["parts"][0][0]
        partners = [s for s in pool if gene_at in bases(s["core"])]
        return [shape, rng.choice(partners)], gene_at

    for _ in range(40):
        loner = rng.choice(pool)
        first, second = rng.choice(pool), rng.choice(pool)
        guided = rng.random() < 0.8
        if guided and not (bases(second["core"]) & bases(loner["core"]) and not bases(first["core"]) & bases(loner["core"])):
            continue
        (p_shapes, p_gene), (q_shapes, q_gene) = pair(first), pair(second)
        loner_gene = loner["core"]["parts"][0][0]
        if len({p_gene, q_gene, loner_gene}) < 3:
            loner_gene = next((b for b in sorted(bases(loner["core"])) if b not in (p_gene, q_gene)), None)
            if loner_gene is None or p_gene == q_gene:
                continue
        shapes = p_shapes + q_shapes + [loner]
        protos = [{"core": s["core"], "extent": s["extent"], "product": f"p{i + 1}"} for i, s in enumerate(shapes)]
        genes = [{"loc": {"parts": [[p_gene, p_gene + 1]], "strand": 1}, "core_for": ["p1", "p2"]},
                 {"loc": {"parts": [[q_gene, q_gene + 1]], "strand": -1}, "core_for": ["p3", "p4"]},
                 {"loc": {"parts": [[loner_gene, loner_gene + 1]], "strand": 1}, "core_for": ["p5"]}]
        return {"L": length, "circ": circ, "protos": protos, "genes": genes}
    return None


def _span(start, end):
    return {"parts": [[start, end]], "strand": 1}


def coordinate_tie(rng):
    """ four protoclusters on a line or ring of 30: two sharing a defining gene (a hybrid), a third with exactly the coordinates
        of that hybrid but its core outside the hybrid's core span (not a member), and a fourth reaching beyond """
    from .c07 import rotate_loc  # pylint: disable=import-outside-toplevel
    start = rng.randrange(2, 6)
    end = start + rng.randrange(11, 14)
    protos = [{"core": _span(start + 2, start + 4), "extent": _span(start, start + rng.randrange(7, 10)), "product": "p1"},
              {"core": _span(start + 3, start + 6), "extent": _span(start + 1, end), "product": "p2"}]
    left = rng.random() < 0.5
    tie_core = _span(start, start + 1) if left else _span(end - 2, end - 1)
    protos.append({"core": tie_core, "extent": _span(start, end), "product": "p3"})
    far = rng.randrange(end + 1, end + 3)
    protos.append({"core": _span(far, far + 1), "extent": _span(end - rng.randrange(1, 3), far + 3), "product": "p4"})
    genes = [{"loc": _span(start + 3, start + 4), "core_for": ["p1", "p2"]},
             {"loc": dict(tie_core), "core_for": ["p3"]},
             {"loc": _span(far, far + 1), "core_for": ["p4"]}]
    circ = rng.random() < 0.5
    if circ:
        shift = rng.randrange(0, 30)
        for proto in protos:
            proto["core"], proto["extent"] = rotate_loc(proto["core"], shift, 30), rotate_loc(proto["extent"], shift, 30)
        for gene in genes:
            gene["loc"] = rotate_loc(gene["loc"], shift, 30)
    return {"L": 30, "circ": circ, "protos": protos, "genes": genes}


def neighbours_across_origin(rng):
    """ four unrelated protoclusters on a ring of 30: one whose neighbourhood runs over the origin, one behind the origin that
        it does not reach, and two in front of the origin that both overlap it but not each other """
    length = 30
    start = rng.randrange(18, 22)
    over_end = rng.randrange(2, 5)
    far = rng.randrange(over_end + 2, over_end + 5)
    first = start - rng.randrange(1, 3)
    second = rng.randrange(start + 5, 27)
    shapes = [({"parts": [[start, length], [0, over_end]], "strand": 1}, _span(28, 29)),
              (_span(far, far + rng.randrange(2, 4)), None),
              (_span(first, start + 2), None),
              (_span(second, second + 2), None)]
    protos, genes = [], []
    for idx, (extent, core) in enumerate(shapes):
        if core is None:
            core = _span(extent["parts"][0][0], extent["parts"][0][0] + 1)
        protos.append({"core": core, "extent": extent, "product": f"p{idx + 1}"})
        genes.append({"loc": dict(core), "core_for": [f"p{idx + 1}"]})
    return {"L": length, "circ": True, "protos": protos, "genes": genes}


def three_hybrids_and_a_single(rng):
    """ seven protoclusters on a line of 30: three pairs sharing a defining gene each (three candidates in location order),
        the middle or first of them with a long neighbourhood, and a protocluster that overlaps only that neighbourhood """
    cores = sorted(rng.sample(range(0, 12), 3))
    protos, genes = [], []
    long_one = rng.choice([0, 1])
    for idx, core in enumerate(cores):
        reach = rng.randrange(16, 26) if idx == long_one else core + 1 + rng.choice([0, 1])
        left = core - rng.choice([0, 1]) if core else 0
        for twin in (1, 2):
            protos.append({"core": _span(core, core + 1), "extent": _span(left, reach), "product": f"p{2 * idx + twin}"})
        genes.append({"loc": _span(core, core + 1), "core_for": [f"p{2 * idx + 1}", f"p{2 * idx + 2}"]})
    at = rng.randrange(13, 16)
    protos.append({"core": _span(at, at + 1), "extent": _span(at - rng.choice([0, 1]), rng.randrange(at + 1, 30)), "product": "p7"})
    genes.append({"loc": _span(at, at + 1), "core_for": ["p7"]})
    return {"L": 30, "circ": False, "protos": protos, "genes": genes}


def hybrid_chain_of_four(rng):
    """ four protoclusters on a line of 72 linked in a chain by shared defining genes (p1-p2, p2-p3, p3-p4), where the one
        whose neighbourhood starts first (p1), the one whose core starts first (p4) and the one whose core starts last (p3) are
        three different ones: merging the pairs into one hybrid needs a second look at groups already passed over """
    j = lambda: rng.choice([0, 1])      # noqa: E731
    protos = [{"core": _span(15, 20 + j()), "extent": _span(0, 35 + j()), "product": "p1"},
              {"core": _span(16, 53), "extent": _span(10 + j(), 56), "product": "p2"},
              {"core": _span(50, 59 + j()), "extent": _span(45, 64 + j()), "product": "p3"},
              {"core": _span(10 + j(), 60), "extent": _span(9, 70 + j()), "product": "p4"}]
    genes = [{"loc": _span(16, 19), "core_for": ["p1", "p2"]},
             {"loc": _span(50, 52), "core_for": ["p2", "p3"]},
             {"loc": _span(53, 58), "core_for": ["p3", "p4"]}]
    order = list(range(4))
    rng.shuffle(order)
    return {"L": 72, "circ": False, "protos": [protos[i] for i in order], "genes": genes}


def observe(case):
    from .. import build as B, project as P
    from antismash.common.secmet.features import Protocluster
    from antismash.common.secmet.qualifiers.gene_functions import GeneFunction
    from antismash.common.secmet.test.helpers import DummyCDS
    arr = case["arr"]
    runs = []
    for order in case["orders"]:
        try:
            record = B.record(arr["L"], arr["circ"])
            for idx, gene in enumerate(arr["genes"]):
                cds = DummyCDS(location=B.loc(gene["loc"]), locus_tag=f"g{idx + 1}")
                for product in gene["core_for"]:
                    cds.gene_functions.add(GeneFunction.CORE, "verif", "core gene", product)
                record.add_cds_feature(cds)
            index_of = {}
            for idx in order:
                proto = arr["protos"][idx - 1]
                real = Protocluster(B.loc(proto["core"]), B.loc(proto["extent"]), tool="verif", product=proto["product"],
                                    cutoff=1, neighbourhood_range=1, detection_rule="rule")
                index_of[id(real)] = idx
                record.add_protocluster(real)
            record.create_candidate_clusters()
            cands = []
            for cand in record.get_candidate_clusters():
                cands.append({"kind": str(cand.kind), "members": sorted(index_of[id(p)] for p in cand.protoclusters),
                              "loc": P.loc(cand.location)})
            cands.sort(key=lambda c: (c["kind"], c["members"], c["loc"]["parts"]))
            runs.append({"exc": "", "v": cands})
        except Exception as err:  # pylint: disable=broad-except
            runs.append({"exc": type(err).__name__ + ":" + str(err)[:50].replace('"', "'"), "v": []})
    return {"id": case["id"], "op": "candidates", "arr": arr, "runs": runs}


def observe_many(cases):
    return [observe(case) for case in cases]


def features(arr):
    feats = ["circular" if arr["circ"] else "linear"]
    protos = arr["protos"]
    if any(len(p["extent"]["parts"]) > 1 for p in protos):
        feats.append("protocluster_spans_origin")
    if any(len(g["core_for"]) > 1 for g in arr["genes"]):
        feats.append("shared_defining_gene")
    for a, b in itertools.combinations(protos, 2):
        if a["extent"]["parts"] == b["extent"]["parts"]:
            feats.append("identical_extents")
    feats.append(f"protoclusters_{len(protos)}")
    return sorted(set(feats))


def call_text(case):
    return (f"props.c05.observe({{'id': 0, 'arr': {case['arr']}, 'orders': {case['orders'][:2]}...}})  # Record + CDS with CORE "
            "gene functions + Protocluster(core, extent) added in each order; record.create_candidate_clusters()")


def run(ctx):
    rng = random.Random(ctx.seed)
    # (-coverage on this module exhausts the heap: non-vacuity is established from the dump instead)
    mc = tlc.run("Candidates_MC", MC_CFG % (8 if ctx.quick else 30), ctx.workdir, dump=True, timeout=3000)
    ctx.model(mc, "Candidates_MC documented grouping self-consistency")
    with open(mc.dump_path, encoding="utf-8") as handle:
        arrangements_checked = handle.read().count("stage = 2")
    if not arrangements_checked:
        raise MachineryError("Candidates_MC explored no arrangement (vacuous)")
    ctx.notes["model_arrangements"] = arrangements_checked
    shapes = {}
    for state in tlaval.read_dump(mc.dump_path, keep=lambda text: "stage = 1" in text):
        key = (state["R"]["L"], state["R"]["circ"])
        shapes.setdefault(key, []).append({"core": norm_loc(state["shape"]["core"]), "extent": norm_loc(state["shape"]["extent"])})
    cases = []
    for key in sorted(shapes):
        pool = sorted(shapes[key], key=str)
        pairs = list(itertools.combinations_with_replacement(pool, 2))
        if ctx.quick:
            pairs = rng.sample(pairs, 1500)
        for pair in pairs:
            for mode in ("share", "own"):
                cases.append({"arr": make_arr(rng, key, list(pair), mode), "sampled": ctx.quick})
        for count, number in ((3, 1500 if ctx.quick else 15000), (4, 700 if ctx.quick else 5000)):
            for _ in range(number):
                cases.append({"arr": make_arr(rng, key, [rng.choice(pool) for _ in range(count)]), "sampled": True})
        if key[1]:
            # hybrids around the origin: a protocluster whose core spans the origin, partners whose cores contain its
            # defining gene (shared defining gene), and one or two unrelated protoclusters anywhere
            crossing = [s for s in pool if len(s["core"]["parts"]) > 1]
            for _ in range(800 if ctx.quick else 8000):
                first = rng.choice(crossing)
                gene_at = first["core"]["parts"][0][0]
                partners = [s for s in pool if any(a <= gene_at < b for a, b in s["core"]["parts"])]
                chosen = [first] + [rng.choice(partners) for _ in range(rng.choice([1, 1, 2]))]
                chosen += [rng.choice(pool) for _ in range(rng.choice([1, 2]))]
                rng.shuffle(chosen)
                cases.append({"arr": make_arr(rng, key, chosen[:4], "share" if rng.random() < 0.8 else "auto"), "sampled": True})
        for _ in range(700 if ctx.quick else 6000):
            arr = two_hybrids_and_a_loner(rng, key, pool)
            if arr:
                cases.append({"arr": arr, "sampled": True})
    for _ in range(300 if ctx.quick else 4000):
        cases.append({"arr": three_hybrids_and_a_single(rng), "sampled": True})
    for _ in range(200 if ctx.quick else 3000):
        cases.append({"arr": coordinate_tie(rng), "sampled": True})
    for _ in range(150 if ctx.quick else 2500):
        cases.append({"arr": neighbours_across_origin(rng), "sampled": True})
    for _ in range(12 if ctx.quick else 200):
        cases.append({"arr": hybrid_chain_of_four(rng), "sampled": True})
    for idx, case in enumerate(cases):
        case["id"] = idx
        count = len(case["arr"]["protos"])
        if count >= 5:
            case["orders"] = [list(range(1, count + 1))] + [rng.sample(range(1, count + 1), count) for _ in range(2 if ctx.quick else 5)]
            continue
        orders = [list(p) for p in itertools.permutations(range(1, count + 1))]
        if count == 4 and ctx.quick:
            orders = [orders[0]] + rng.sample(orders[1:], 5)
        case["orders"] = orders
    samples = {}
    runs = sum(len(case["orders"]) for case in cases)

    def describe(case, event):
        first = event["runs"][0]
        if first["v"] and any(c["kind"] != "single" for c in first["v"]):
            ctx.nontrivial_case(case["id"])
        if case["id"] in (0, len(cases) // 2, len(cases) - 1):
            samples[case["id"]] = {"arr": case["arr"], "observed": first}
        return {"op": "candidates", "input": {"arr": case["arr"], "orders": case["orders"]}, "call": call_text(case),
                "observed": first, "features": features(case["arr"]), "sampled": case["sampled"]}

    ctx.evaluations = runs
    ctx.notes["create_candidate_clusters_calls"] = runs
    run_batches(ctx, "Candidates_Trace", cases, observe_many, describe, min_per_shard=150)
    for ident in sorted(samples):
        ctx.sample(samples[ident])
    ctx.exhaustive = not ctx.quick
    ctx.rule = ("TLC enumerates every protocluster shape (core span of 1-3 bases incl. origin-spanning, neighbourhood 0/1/3) on a line "
                "and a ring of 12; the harness forms all pairs (thorough; sampled in quick) with and without a shared defining gene "
                "and seeded triples/quadruples, plus arrangements of five (two pairs sharing a defining gene each and a fifth protocluster "
                "whose core tends to overlap one pair's core) and of seven on a line of 30 (three such pairs, one with a long "
                "neighbourhood that alone reaches a seventh protocluster) and of four with a coordinate tie (a protocluster with exactly "
                "the coordinates of a hybrid it is not a member of), and runs candidate formation for every order (sampled orders for 4-5) of "
                "adding the protoclusters; "
                "non-trivial = at least one non-single candidate was formed")
    ctx.assumptions += ["defining genes are single-base genes at the first base of a core",
                        "arrangements whose groups coincide in coordinates or need half the ring are only checked for membership, "
                        "location, duplicates and order independence"]


def replay(ctx, record):
    case = {"id": 0, "arr": record["input"]["arr"], "orders": record["input"]["orders"]}
    event = observe(case)
    ctx.validate("Candidates_Trace", [event], {0: {"op": "candidates", "input": record["input"], "call": call_text(case),
                                                    "observed": event["runs"][0]}})
    ctx.failures = [f for f in ctx.failures if f["clause"] == record["clause"]]
