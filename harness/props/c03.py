""" C03 - protoclusters are the maximal cutoff-chains of a rule's anchoring genes.

    spec: Detect.tla (on RuleAst/Ring); model run: Detect_MC (rule and gene-location catalogues; the constructive
    reference satisfies the relation, anchors partition, chains apart, order/rotation freedom);
    binding: rulesets x layouts x hit tables through the real detect_protoclusters_and_signatures with dynamic
    profiles only; Detect_Trace decides the observed protoclusters.
"""

import random

from .. import tlc, tlaval
from ..batch import run_batches

MC_CFG = """SPECIFICATION Spec
CONSTANTS
  Samples = %d
INVARIANT RefSatisfiesRelation
INVARIANT AnchorsPartition
INVARIANT ChainsApart
INVARIANT OrderFree
INVARIANT RotationFree
INVARIANT RepairedCacheDesign
"""
NEG_CFG = """SPECIFICATION Spec
CONSTANTS
  Samples = 6
INVARIANT StaleCacheDesign
"""
GENE_HITS = [a + b + c for a in ([], [{"p": "a", "s": 40}], [{"p": "a", "s": 60}])
             for b in ([], [{"p": "b", "s": 30}]) for c in ([], [{"p": "c", "s": 70}])]


def norm_node(node):
    return {"k": node["k"], "neg": node["neg"], "p": node["p"], "s": node["s"], "opts": list(node["opts"]),
            "args": [norm_node(x) for x in node["args"]]}


def norm_rule(rule):
    return {"name": rule["name"], "cutoff": rule["cutoff"], "nbhd": rule["nbhd"], "cond": norm_node(rule["cond"]),
            "hasExt": rule["hasExt"], "ext": norm_node(rule["ext"]), "sup": list(rule["sup"])}


def load_catalogues(run):
    rules, genes = [], {}
    for state in tlaval.read_dump(run.dump_path, keep=lambda text: "stage = 1" in text or "stage = 3" in text):
        if state["stage"] == 1:
            rules.append(norm_rule(state["rule"]))
        else:
            key = (state["R"]["L"], state["R"]["circ"])
            genes.setdefault(key, []).append({"parts": [list(p) for p in state["gene"]["parts"]], "strand": state["gene"]["strand"]})
    rules.sort(key=str)
    for locs in genes.values():
        locs.sort(key=str)
    return rules, genes


def make_ruleset(rng, catalogue, count):
    """ 1-3 rules from the catalogue, renamed r1.., later extender-free rules may name earlier ones as superiors """
    picked = []
    for idx in range(count):
        rule = dict(rng.choice(catalogue))
        rule["name"] = f"r{idx + 1}"
        rule["sup"] = []
        if idx and not rule["hasExt"] and rng.random() < 0.4:
            earlier = [p["name"] for p in picked if not p["hasExt"]]
            if earlier:
                rule["sup"] = sorted(rng.sample(earlier, rng.randrange(1, len(earlier) + 1)))
        picked.append(rule)
    # superiors are transitively closed by the parser: close them here too so the abstract ruleset says the same
    by_name = {r["name"]: r for r in picked}
    for rule in picked:
        closed = set(rule["sup"])
        for sup in list(closed):
            closed.update(by_name[sup]["sup"])
        rule["sup"] = sorted(closed)
    return picked


def make_scene(rng, genes, key, count, hit_pool=None):
    length, circ = key
    locs = rng.sample(genes[key], count)
    locs.sort(key=lambda x: (min(p[0] for p in x["parts"]), x["parts"]))
    hits = [rng.choice(hit_pool or GENE_HITS) for _ in locs]
    return {"L": length, "circ": circ, "cutoff": 0, "locs": locs, "hits": hits}


def random_big_scene(rng, spliced=False):
    """ spliced: some genes come in two exons (on rings anywhere, so that a rotation can put the origin into the intron) """
    circ = rng.random() < 0.6 or spliced
    length = rng.choice([24, 30, 41])
    locs = []
    for _ in range(rng.randrange(4, 8)):
        size = rng.randrange(1, 4)
        start = rng.randrange(0, length)
        strand = rng.choice([1, -1])
        if spliced and rng.random() < 0.4:
            first, gap, second = rng.randrange(1, 3), rng.randrange(1, 4), rng.randrange(1, 3)
            walk = [(start + x) % length for x in list(range(first)) + list(range(first + gap, first + gap + second))]
            parts, begin, prev = [], walk[0], walk[0]
            for pos in walk[1:]:
                if pos != prev + 1:
                    parts.append([begin, prev + 1])
                    begin = pos
                prev = pos
            parts.append([begin, prev + 1])
            if strand == -1:
                parts.reverse()
        elif start + size <= length:
            parts = [[start, start + size]]
        elif circ:
            parts = [[start, length], [0, start + size - length]]
            if strand == -1:
                parts.reverse()
        else:
            parts = [[length - size, length]]
        loc = {"parts": parts, "strand": strand}
        if loc not in locs:
            locs.append(loc)
    locs.sort(key=lambda x: (min(p[0] for p in x["parts"]), x["parts"]))
    hits = [rng.choice(GENE_HITS) if rng.random() < 0.7 else [] for _ in locs]
    return {"L": length, "circ": circ, "cutoff": 0, "locs": locs, "hits": hits}


def _leaf(profile):
    return {"k": "id", "neg": False, "p": profile, "s": 0, "opts": [], "args": []}


def extenders_around_origin(rng):
    """ a ring on which a chain of anchoring genes runs over the origin (or sits just beside it) with extender genes on both
        sides, some within the cutoff of the nearest core gene only; one rule `a EXTENDERS b` (and sometimes a second, plain
        rule) """
    length = rng.choice([24, 30, 41])
    cutoff = rng.choice([2, 3, 4])
    shift = rng.randrange(0, length)

    def gene(start, size=1):
        first = (start + shift) % length
        if first + size <= length:
            parts = [[first, first + size]]
        else:
            parts = [[first, length], [0, first + size - length]]
        strand = rng.choice([1, -1])
        return {"parts": parts[::-1] if strand == -1 else parts, "strand": strand}

    # laid out on a line first (positions relative to the first anchoring gene), then rotated so that the origin falls
    # anywhere in or beside the chain
    locs, hits, pos = [], [], 10
    for _ in range(rng.choice([1, 2, 2, 3])):
        size = rng.choice([1, 2])
        locs.append(gene(pos, size))
        hits.append([{"p": "a", "s": 60}])
        pos += size + rng.randrange(0, cutoff)
    after = pos - 1
    for _ in range(rng.choice([1, 2])):
        after += rng.randrange(1, cutoff + 1)
        locs.append(gene(after))
        hits.append([{"p": "b", "s": 30}])
        after += 1
    before = 10
    for _ in range(rng.choice([0, 1, 2])):
        before -= rng.randrange(1, cutoff + 1) + 1
        locs.append(gene(before))
        hits.append([{"p": "b", "s": 30}])
    order = sorted(range(len(locs)), key=lambda i: (min(p[0] for p in locs[i]["parts"]), locs[i]["parts"]))
    scene = {"L": length, "circ": True, "cutoff": 0, "locs": [locs[i] for i in order], "hits": [hits[i] for i in order]}
    if len({str(loc["parts"]) for loc in scene["locs"]}) < len(scene["locs"]):
        return None
    rules = [{"name": "r1", "cutoff": cutoff, "nbhd": rng.choice([1, 2, 4]), "cond": _leaf("a"), "hasExt": True, "ext": _leaf("b"), "sup": []}]
    if rng.random() < 0.3:
        rules.append({"name": "r2", "cutoff": rng.choice([1, 2]), "nbhd": 1, "cond": _leaf("b"), "hasExt": False, "ext": _leaf("a"), "sup": []})
    return {"scene": scene, "rules": rules, "scale": rng.choice([1, 1000]), "sampled": True}


def scale_rules(rng, rules, factor_pool=(1, 2, 3)):
    """ larger distances for the larger random records """
    out = []
    for rule in rules:
        rule = dict(rule)
        rule["cutoff"] *= rng.choice(factor_pool)
        rule["nbhd"] *= rng.choice(factor_pool)
        out.append(rule)
    return out


def features(case):
    scene, rules = case["scene"], case["rules"]
    feats = ["circular" if scene["circ"] else "linear"]
    if any(len(loc["parts"]) > 1 for loc in scene["locs"]):
        feats.append("gene_spans_origin")
    spans = [(min(p[0] for p in loc["parts"]), max(p[1] for p in loc["parts"])) for loc in scene["locs"]]
    for i, (s1, e1) in enumerate(spans):
        for j, (s2, e2) in enumerate(spans):
            if i != j and s1 <= s2 and e2 <= e1:
                feats.append("gene_nested_or_same_start")
    if any(r["hasExt"] for r in rules):
        feats.append("extenders")
    if any(r["sup"] for r in rules):
        feats.append("superiors")
    if len({r["cutoff"] for r in rules}) < len(rules):
        feats.append("shared_cutoff")
    if scene["circ"] and any(2 * r["cutoff"] + 2 >= scene["L"] for r in rules):
        feats.append("cutoff_window_covers_record")

    def spliced_over_origin(loc):
        # several exons, the walk along them passes the origin, and some intron is left open
        fwd = loc["parts"][::-1] if loc["strand"] == -1 else loc["parts"]
        if len(fwd) < 2 or not any(later[0] < earlier[0] for earlier, later in zip(fwd, fwd[1:])):
            return False
        walk = (fwd[-1][1] - fwd[0][0]) % scene["L"] or scene["L"]
        return sum(end - start for start, end in fwd) < walk
    if scene["circ"] and sum(1 for loc in scene["locs"] if spliced_over_origin(loc)) >= 2:
        feats.append("two_spliced_genes_over_origin")

    def intron_bases(loc):
        fwd = loc["parts"][::-1] if loc["strand"] == -1 else loc["parts"]
        if len(fwd) < 2:
            return set()
        exons = {b for start, end in fwd for b in range(start, end)}
        walk = (fwd[-1][1] - fwd[0][0]) % scene["L"] or scene["L"]
        return {(fwd[0][0] + step) % scene["L"] for step in range(walk)} - exons
    for i, loc in enumerate(scene["locs"]):
        inside = intron_bases(loc)
        if inside and any(inside & {b for start, end in other["parts"] for b in range(start, end)}
                          for j, other in enumerate(scene["locs"]) if j != i):
            feats.append("gene_in_the_intron_of_another")
            break

    def span_bases(loc):
        fwd = loc["parts"][::-1] if loc["strand"] == -1 else loc["parts"]
        walk = (fwd[-1][1] - fwd[0][0]) % scene["L"] or scene["L"]
        return {(fwd[0][0] + step) % scene["L"] for step in range(walk)}
    spans_of = [span_bases(loc) for loc in scene["locs"]]
    if any(i != j and inner < outer for i, inner in enumerate(spans_of) for j, outer in enumerate(spans_of)):
        # (strictly inside, outer start to outer end: such a pair is not in order of distance from everything else)
        feats.append("gene_inside_the_span_of_another")
    return sorted(set(feats))


def observe(case):
    from .. import detect as D
    try:
        earlier = None
        if case.get("after_another_record"):
            # the second record of a run: the same rule objects were used on a record with equally named genes before
            hits = case["scene"]["hits"]
            earlier = hits[1:] + hits[:1]
        out = {"exc": "", "v": D.detect(case["scene"], case["rules"], case["scale"], earlier_hits=earlier)}
    except Exception as err:  # pylint: disable=broad-except
        out = {"exc": type(err).__name__ + ":" + str(err)[:60].replace('"', "'"), "v": []}
    return {"id": case["id"], "op": "detect", "scene": case["scene"], "rules": case["rules"], "out": out}


def observe_many(cases):
    return [observe(case) for case in cases]


def call_text(case):
    return (f"harness.detect.detect(scene={case['scene']}, rules=<{[ (r['name'], r['cutoff'], r['nbhd'], r['sup']) for r in case['rules']]}"
            f" see replay file>, scale={case['scale']}"
            + (", earlier_hits=<the hits of the scene shifted by one gene>" if case.get("after_another_record") else "")
            + ")  # -> detect_protoclusters_and_signatures(record, ruleset)")


def build_cases(ctx, rng, rules, genes):
    cases = []
    keys = sorted(genes)
    per_key = 700 if ctx.quick else 20000
    for key in keys:
        for _ in range(per_key):
            count = rng.choice([2, 3, 3, 4, 4])
            scene = make_scene(rng, genes, key, count)
            ruleset = make_ruleset(rng, rules, rng.choice([1, 2, 2, 3]))
            cases.append({"scene": scene, "rules": ruleset, "scale": rng.choice([1, 1, 1000]), "sampled": True})
    for _ in range(1500 if ctx.quick else 40000):
        scene = random_big_scene(rng)
        ruleset = scale_rules(rng, make_ruleset(rng, rules, rng.choice([1, 2, 3])))
        cases.append({"scene": scene, "rules": ruleset, "scale": rng.choice([1, 1000]), "sampled": True})
    for _ in range(400 if ctx.quick else 10000):
        case = extenders_around_origin(rng)
        if case:
            cases.append(case)
    # rings with genes in two exons (a core may start or end with an intron, the origin may lie inside one)
    for _ in range(300 if ctx.quick else 8000):
        scene = random_big_scene(rng, spliced=True)
        ruleset = scale_rules(rng, make_ruleset(rng, rules, rng.choice([1, 2, 3])))
        cases.append({"scene": scene, "rules": ruleset, "scale": rng.choice([1, 1000]), "sampled": True})
    return cases


def run(ctx):
    rng = random.Random(ctx.seed)
    mc = tlc.run("Detect_MC", MC_CFG % (3 if ctx.quick else 12), ctx.workdir, dump=True, coverage=True, timeout=3000)
    ctx.model(mc, "Detect_MC reference satisfies relation; anchors partition; order/rotation free",
              vacuity=["PickRule", "PickGene", "PickPair"])
    neg = tlc.run("Detect_MC", NEG_CFG, ctx.workdir, tag="_neg", timeout=3000, workers=1, seed=1)  # sampled model: fixed draw
    ctx.expect_violation(neg, "StaleCacheDesign", "stale / window-dependent circular_origin flag in apply_cluster_rules (P1, P17 on the model)")
    rules, genes = load_catalogues(mc)
    cases = build_cases(ctx, rng, rules, genes)
    for idx, case in enumerate(cases):
        case["id"] = idx
        # every third case with an EXTENDERS rule is the second record of a run (rule objects already used once)
        case["after_another_record"] = idx % 3 == 0 and any(r["hasExt"] for r in case["rules"])
    samples = {}

    def describe(case, event):
        if event["out"]["v"]:
            ctx.nontrivial_case(case["id"])
        entry = {"op": "detect", "input": {"scene": case["scene"], "rules": case["rules"], "scale": case["scale"],
                                           "after_another_record": case["after_another_record"]},
                 "call": call_text(case), "observed": event["out"], "features": features(case), "sampled": True}
        if case["id"] in (0, len(cases) // 2, len(cases) - 1):
            samples[case["id"]] = {"scene": case["scene"], "rules": [(r["name"], r["cutoff"], r["nbhd"], r["sup"]) for r in case["rules"]],
                                   "observed": event["out"]}
        return entry

    ctx.evaluations = len(cases)
    run_batches(ctx, "Detect_Trace", cases, observe_many, describe, min_per_shard=150)
    for ident in sorted(samples):
        ctx.sample(samples[ident])
    ctx.exhaustive = False
    ctx.rule = (f"TLC enumerates {len(rules)} single rules (10 condition templates incl. EXTENDERS x cutoffs x neighbourhoods) and all "
                "gene locations of length 1-2 (both strands, origin-spanning on rings) for records of 8/10/12 bases, linear and "
                "circular; the harness draws rulesets of 1-3 rules (with SUPERIORS), layouts of 2-4 genes and hit tables with a "
                "seeded RNG, plus larger random records, at scale 1 (distances in bases) and 1000 (through the kb rule text); "
                "non-trivial = at least one protocluster was reported")
    ctx.notes.update({"rule_catalogue": len(rules), "gene_locations": {f"L={k[0]},circ={k[1]}": len(v) for k, v in sorted(genes.items())}})
    ctx.assumptions += ["hits enter as data through DynamicProfile (the HMMER search itself is outside this check)",
                        "at scale 1000 observed coordinates are mapped back by outward rounding"]


def replay(ctx, record):
    case = dict(record["input"])
    case["id"] = 0
    event = observe(case)
    ctx.validate("Detect_Trace", [event], {0: {"op": "detect", "input": record["input"], "call": call_text(case),
                                                "observed": event["out"]}})
    ctx.failures = [f for f in ctx.failures if f["clause"] == record["clause"]]
