""" C10 - annotated records survive GenBank and JSON round trips unchanged.

    spec: Persist.tla over RecordSM (abstract record = sequence, topology, every feature [type, location, payload], areas with
    numbers and cross references; a round trip is a stuttering step and the first output a fixed point). Persist_MC explores
    the pipeline-ordered RecordSM states of four universes (equal-coordinate protoclusters and subregions, origin-spanning areas
    and genes, several regions); every state is built for real from a *parsed* GenBank skeleton through the secmet API with the
    payload table of harness/persist.py, then taken through GenBank text, record JSON and the results file, twice each;
    Persist_Trace decides "same abstract record" and "same bytes the second time". Seeded random universes and histories on top.
"""

import random

from .. import tlc
from ..common import CPUS, MachineryError, chunks, pmap


def observe(case: dict) -> dict:
    from .. import persist  # pylint: disable=import-outside-toplevel
    driver, exc = persist.build_record(case["uni"], case["hist"], case["seed"])
    event = {"id": case["id"], "op": "roundtrip", "build": exc}
    if exc:
        return event
    event["before"] = persist.project_record(driver.record)
    for key, func in (("gb", persist.roundtrip_genbank), ("json", persist.roundtrip_json), ("file", persist.roundtrip_results_file)):
        result = func(driver.record)
        result.pop("texts")
        event[key] = result
    return event


def observe_many(cases: list) -> list:
    return [observe(case) for case in cases]


def run(ctx):
    from .. import persist  # pylint: disable=import-outside-toplevel
    rng = random.Random(ctx.seed)
    max_areas = 4 if ctx.quick else 6
    # (TLC's coverage mode runs out of memory on the recursive operators of Persist.tla; vacuity is read off the dump instead)
    mc = tlc.run("Persist_MC", persist.mc_config(max_areas), ctx.workdir, dump=True, timeout=3000, heap="3g")
    ctx.model(mc, f"Persist_MC pipeline-ordered RecordSM states over 4 universes, <= {max_areas} areas")
    cases = persist.mc_cases(mc, 0)   # enumerated cases are identified by their input: fixed sequence seed
    missing = {"areas", "cands", "regions", "done"} - {case["phase"] for case in cases}
    if missing:
        raise MachineryError(f"vacuous model run: no state in phase {sorted(missing)}")
    enumerated = len(cases)
    for _ in range(500 if ctx.quick else 60000):
        uni = persist.random_universe(rng)
        if rng.random() < 0.7:
            hist = persist.pipeline_history(rng, uni)
        else:
            hist = persist.random_history(rng, uni, rng.randrange(4, 14))
        if hist:
            cases.append({"uni": uni, "hist": hist, "seed": 1000 + ctx.seed, "sampled": True})
    # members of a region merged over the origin in an order that is not the order of their numbers
    for _ in range(60 if ctx.quick else 2000):
        uni = persist.bridged_over_origin_universe(rng)
        cases.append({"uni": uni, "hist": persist.pipeline_history(rng, uni), "seed": 1000 + ctx.seed, "sampled": True})
    # areas that cover the whole ring from a seam that is not the origin (start == end), own generator
    ring_rng = random.Random(ctx.seed + 7919)
    for _ in range(60 if ctx.quick else 2000):
        uni = persist.whole_ring_universe(ring_rng)
        cases.append({"uni": uni, "hist": persist.pipeline_history(ring_rng, uni), "seed": 1000 + ctx.seed, "sampled": True})
    for idx, case in enumerate(cases):
        case["id"] = idx
    samples = []
    skipped = {}
    for start in range(0, len(cases), 4000):
        part = cases[start:start + 4000]
        events = [ev for sub in pmap(observe_many, chunks(part, CPUS * 4)) for ev in sub]
        by_id, shipped = {}, []
        for case, event in zip(part, events):
            if event["build"]:
                # the record could not be built: not a statement about persistence (C06 / C09 own those)
                skipped[event["build"]] = skipped.get(event["build"], 0) + 1
                continue
            event.pop("build")
            feats = persist.features(case["uni"], case["hist"])
            by_id[case["id"]] = {"op": "roundtrip", "input": {"uni": case["uni"], "hist": case["hist"], "seed": case["seed"]},
                                 "call": persist.call_text(case) + "; persist.roundtrip_genbank(record); persist.roundtrip_json(record); "
                                                                   "persist.roundtrip_results_file(record)",
                                 "observed": {key: {"exc": event[key]["exc"], "out1": event[key]["out1"], "out2": event[key]["out2"]}
                                              for key in ("gb", "json", "file")},
                                 "features": feats, "sampled": case["sampled"]}
            if event["before"]["regions"] or event["before"]["cands"]:
                ctx.nontrivial_case(case["id"])
            if case["id"] in (0, enumerated // 2, enumerated - 1, enumerated) or (case["sampled"] and len(samples) < 5 and event["before"]["regions"]):
                samples.append({"universe": case["uni"], "history": case["hist"], "features": feats,
                                "record": {k: (len(v) if isinstance(v, list) else v) for k, v in event["before"].items()},
                                "observed": by_id[case["id"]]["observed"]})
            shipped.append(event)
        ctx.validate("Persist_Trace", shipped, by_id, min_per_shard=60)
        del events, shipped, by_id
    ctx.evaluations = len(cases) * 3
    for sample in samples:
        ctx.sample(sample, limit=6)
    ctx.exhaustive = True
    ctx.rule = (f"every state of Persist_MC (four universes: ring of 12 with equal-coordinate protoclusters, an origin-spanning sideloaded "
                f"protocluster and gene, non-consecutive numbers in the origin-spanning region; line of 12 with regions at both record ends, "
                f"identical subregions, codon_start genes, a reverse-strand prepeptide, an intron; ring of 9 with areas meeting across the "
                f"origin and a reverse-strand origin-spanning gene; ring of 12 with genes in several exons around the origin (origin inside an intron on "
                f"both strands, an exon cut by the origin) inside an origin-spanning region; genes first, areas in ascending or descending order, <= {max_areas} areas, "
                f"candidates, regions, optional late gene) is built as a real record ({persist.SCALE} bases per unit) from a parsed GenBank skeleton with the payload "
                f"table (gene payloads {sorted(persist.GENE_PAYLOADS)}, protocluster {sorted(persist.PROTO_PAYLOADS)}, subregion {sorted(persist.SUB_PAYLOADS)}) "
                f"and taken through GenBank text, record JSON and the results file twice; plus seeded random universes with pipeline-ordered "
                f"and arbitrary RecordSM histories; non-trivial = the record holds candidate clusters or regions")
    ctx.notes.update({"enumerated_states": enumerated, "random_cases": len(cases) - enumerated, "records_not_buildable": skipped,
                      "payload_table": {"genes": persist.GENE_PAYLOADS, "protoclusters": persist.PROTO_PAYLOADS, "subregions": persist.SUB_PAYLOADS}})
    ctx.assumptions += ["fidelity is claimed for the payload table of harness/persist.py, nothing more",
                        "locations are compared as strand + bases in order: a part cut into abutting pieces is the same location "
                        "(a reverse-strand prepeptide is rebuilt as leader+core+tail pieces)",
                        "links derived from coordinates (genes of an area, region of a gene, defining genes) are C08's subject and not part of the payload",
                        "sub-gene features and codon_start of origin-spanning genes are C09's subject (P9) and stay on ordinary genes",
                        "records that cannot be built (exception in a RecordSM call) are counted in records_not_buildable and skipped"]


def replay(ctx, record):
    case = {"id": 0, "uni": record["input"]["uni"], "hist": record["input"]["hist"], "seed": record["input"].get("seed", 0)}
    event = observe(case)
    if event.pop("build"):
        raise MachineryError("the recorded case can no longer be built")
    observed = {key: {"exc": event[key]["exc"], "out1": event[key]["out1"], "out2": event[key]["out2"]} for key in ("gb", "json", "file")}
    ctx.validate("Persist_Trace", [event], {0: {"op": record["op"], "input": record["input"], "observed": observed}})
    ctx.failures = [f for f in ctx.failures if f["op"] == record["op"] and f["clause"] == record["clause"]]
