""" Child interpreter of the C17 check: started with a given PYTHONHASHSEED, pushes every case through the pipeline
    stages and writes one digest per stage (plus the iteration orders it saw, for the non-vacuity count).
    usage: python -m harness.props.c17_child <cases.json> <out.json> <noise seed>
"""

import hashlib
import io
import json
import random
import sys


def digest(text: str) -> str:
    return hashlib.sha1(text.encode("utf-8")).hexdigest()[:16]


def heap_noise(seed: int):
    """ perturbs the addresses later objects get (sets of objects hashed by id iterate by address) """
    rng = random.Random(seed)
    junk = [bytearray(rng.randrange(16, 4096)) for _ in range(rng.randrange(50, 3000))]
    keep = [junk[i] for i in range(0, len(junk), rng.randrange(2, 7))]
    del junk
    return keep


STAGES = ["detection_results_json", "protoclusters", "gene_annotations", "areas", "record_json", "genbank", "refined_hits",
          "pfam_style_hits", "hmm_detection_module_json", "limited_ruleset_rule_order", "sideload_by_cds",
          "best_hit_per_profile"]
_LIMITED = {}


def limited_ruleset_digest() -> str:
    """ the shipped rules limited to a handful of names (--hmmdetection-limit-to-rule-names): the order the rules are
        applied in decides the order - and so the numbers - of protoclusters with equal coordinates """
    if "digest" not in _LIMITED:
        import types
        from antismash.detection import hmm_detection
        base = dict(hmmdetection_strictness="relaxed", hmmdetection_limit_to_categories=[], taxon="bacteria",
                    hmmdetection_fungal_cutoff_multiplier=1.0, hmmdetection_fungal_neighbourhood_multiplier=1.5)
        everything = hmm_detection.get_ruleset(types.SimpleNamespace(hmmdetection_limit_to_rules=[], **base))
        names = [rule.name for rule in everything.rules]
        wanted = names[3:40:6]      # spread over the file, in file order
        limited = hmm_detection.get_ruleset(types.SimpleNamespace(hmmdetection_limit_to_rules=list(reversed(wanted)), **base))
        _LIMITED["digest"] = digest(repr([(rule.name, rule.cutoff, rule.neighbourhood) for rule in limited.rules]))
    return _LIMITED["digest"]


def run_case(case):
    from Bio import SeqIO
    from antismash.common import serialiser
    from antismash.common.hmmscan_refinement import refine_hmmscan_results
    from .. import detect as D
    scene, rules = case["scene"], case["rules"]
    record = D.make_record(scene, 1)
    results = D.detect_protoclusters_and_signatures(record, D.make_ruleset(scene, rules, 1))
    out = []
    out.append(digest(json.dumps(results.to_json())))
    out.append(digest(repr([(p.product, str(p.core_location), str(p.location),
                             [(c.cds.get_name(), sorted((k, sorted(v)) for k, v in c.definition_domains.items()))
                              for c in results.cds_by_cluster[p]]) for p in results.protoclusters])))
    results.annotate_cds_features()
    out.append(digest(repr([(cds.get_name(), [str(f) for f in cds.gene_functions], [str(d) for d in cds.sec_met.domains] if cds.sec_met else [])
                            for cds in record.get_cds_features()])))
    for proto in results.protoclusters:
        record.add_protocluster(proto)
    record.create_candidate_clusters()
    record.create_regions()
    areas = []
    for proto in record.get_protoclusters():
        areas.append(("proto", proto.get_protocluster_number(), str(proto.location), proto.product))
    for cand in record.get_candidate_clusters():
        areas.append(("cand", cand.get_candidate_cluster_number(), str(cand.location), str(cand.kind), cand.products,
                      [p.get_protocluster_number() for p in cand.protoclusters]))
    for region in record.get_regions():
        areas.append(("region", region.get_region_number(), str(region.location), region.products, region.get_product_string(),
                      [p.get_protocluster_number() for p in region.get_unique_protoclusters()],
                      [c.get_candidate_cluster_number() for c in region.candidate_clusters]))
    out.append(digest(repr(areas)))
    bio = record.to_biopython()
    out.append(digest(json.dumps(serialiser.record_to_json(bio))))
    handle = io.StringIO()
    SeqIO.write([bio], handle, "genbank")
    out.append(digest(handle.getvalue()))
    # hit refinement on the tie-rich raw hits of the case (duck-typed HSPs)
    refined = []
    for gene, hsps in case["raw_hits"].items():
        class HSP:  # pylint: disable=too-few-public-methods
            def __init__(self, data):
                self.query_id = gene
                self.hit_id, self.query_start, self.query_end, self.bitscore, self.evalue = data
        class QR:  # pylint: disable=too-few-public-methods
            def __init__(self, items):
                self.hsps = items
        got = refine_hmmscan_results([QR([HSP(h) for h in hsps])], case["hmm_lengths"])
        refined.append((gene, [(h.hit_id, h.query_start, h.query_end, h.bitscore) for h in got.get(gene, [])]))
    out.append(digest(repr(refined)))
    # hmmer.remove_overlapping (PFAM-style hits) on the same tie-rich raw hits: equal normalised score, length and start
    from antismash.common.hmmer import HmmerHit, remove_overlapping
    kept = []
    for gene, hsps in case["raw_hits"].items():
        hits = [HmmerHit(location=f"[{s}:{e}]", label=gene, locus_tag=gene, domain=name, evalue=ev, score=score,
                         identifier=f"PF{name}", description=name, protein_start=s, protein_end=e, translation="A" * (e - s))
                for name, s, e, score, ev in hsps]
        cutoffs = {f"PF{name}": 25. for name in "ABCD"}
        result = remove_overlapping(hits, cutoffs, overlap_limit=10)
        kept.append((gene, [(h.identifier, h.protein_start, h.protein_end, h.score) for h in result]))
    out.append(digest(repr(kept)))
    # the results of the detection module itself as they go into the results file: the real run_on_record with the
    # ruleset and the profile search of this harness standing in for the shipped rule files and hmmsearch
    import types
    from antismash.detection import hmm_detection
    ruleset = D.make_ruleset(scene, rules, 1)
    originals = (hmm_detection.get_ruleset, hmm_detection.detect_protoclusters_and_signatures)
    hmm_detection.get_ruleset = lambda _options: ruleset
    hmm_detection.detect_protoclusters_and_signatures = D.detect_protoclusters_and_signatures
    try:
        options = types.SimpleNamespace(hmmdetection_strictness="relaxed", hmmdetection_limit_to_rules=[],
                                        hmmdetection_limit_to_categories=[])
        module_results = hmm_detection.run_on_record(D.make_record(scene, 1), None, options)
        out.append(digest(json.dumps(module_results.to_json())))
    finally:
        hmm_detection.get_ruleset, hmm_detection.detect_protoclusters_and_signatures = originals
    out.append(limited_ruleset_digest())
    # subregions around marker genes given on the command line (--sideload-by-cds), one gene named twice; the record is
    # shorter than the padding, so the subregions share their coordinates and only their order tells them apart
    from antismash.detection.sideloader.general import load_single_record_annotations
    marked = D.make_record(scene, 1)
    tags = [cds.get_name() for cds in marked.get_cds_features()]
    if len(tags) >= 2:
        markers = [tags[-1]] + tags + [tags[0]]
        try:
            sideloaded = load_single_record_annotations([], marked, None, cds_markers=markers, cds_marker_padding=20000)
            text = json.dumps(sideloaded.to_json())
            for sub in sideloaded.get_predicted_subregions():
                marked.add_subregion(sub)
            text += repr([(sub.get_subregion_number(), sub.label, str(sub.location)) for sub in marked.get_subregions()])
        except Exception as err:  # pylint: disable=broad-except
            # (a refusal is an answer too, and has to be the same one in every process)
            text = "refused: " + type(err).__name__ + " " + str(err)
        out.append(digest(text))
    else:
        out.append(digest("too few genes"))
    # the best hit of each profile per gene (filter_result_multiple) on the same tie-rich raw hits: several profiles
    # hitting a gene at the same position; the hit objects are plain objects (hashed by where they live in memory)
    from antismash.common.hmm_rule_parser import cluster_prediction

    class Hit:  # pylint: disable=too-few-public-methods
        def __init__(self, gene, data):
            self.hit_id = gene
            self.query_id, self.hit_start, self.hit_end, self.bitscore, self.evalue = data
    by_gene = {gene: [Hit(gene, h) for h in hsps] for gene, hsps in case["raw_hits"].items()}
    flat = [hit for hits in by_gene.values() for hit in hits]
    flat, by_gene = cluster_prediction.filter_result_multiple(flat, by_gene)
    out.append(digest(repr([(gene, [(h.query_id, h.hit_start, h.hit_end, h.bitscore) for h in hits]) for gene, hits in by_gene.items()])
                      + repr([(h.hit_id, h.query_id, h.hit_start) for h in flat])))
    orders = repr(list({h["p"] for hs in scene["hits"] for h in hs})) + repr(list(set(r["name"] for r in rules)))
    return out, digest(orders)


def main():
    cases_path, out_path, noise = sys.argv[1], sys.argv[2], int(sys.argv[3])
    keep = heap_noise(noise)
    from ..common import import_repo
    import_repo()
    with open(cases_path, encoding="utf-8") as handle:
        cases = json.load(handle)
    results = {}
    for case in cases:
        try:
            digests, orders = run_case(case)
            results[case["id"]] = {"exc": "", "d": digests, "orders": orders}
        except Exception as err:  # pylint: disable=broad-except
            results[case["id"]] = {"exc": type(err).__name__ + ":" + str(err)[:80], "d": [], "orders": ""}
    with open(out_path, "w", encoding="utf-8") as handle:
        json.dump(results, handle)
    del keep


if __name__ == "__main__":
    main()
