""" C12 - per-region GenBank files are faithful, self-consistent extracts.

    spec: Persist.tla (Expected / ExtractFailed: sequence = the region's bases, the part before the origin first; every feature
    inside the region, covering the same bases re-expressed on the extract; areas numbered from 1 with all cross references
    consistent; one region with the same members after loading; the full record unchanged). Persist_MC: every pipeline-ordered
    RecordSM state with regions over three universes, meta-invariants of the expectation (well-formed, base-preserving, one
    component, accepted by the relation itself) and a negative control (offset applied with the wrong sign). Binding: the
    same states as real records (harness/persist.py); Region.write_to_genbank for every region with one shared Biopython record
    as main.write_outputs does; the file is parsed and loaded with Record.from_biopython; Persist_Trace decides every clause.
"""

import random

from .. import tlc
from ..common import CPUS, MachineryError, chunks, pmap

STRIDE = 8   # event ids: case number * STRIDE + region number


def observe(case: dict) -> list:
    from .. import persist  # pylint: disable=import-outside-toplevel
    driver, exc = persist.build_record(case["uni"], case["hist"], case["seed"])
    if exc:
        return [{"build": exc}]
    events = []
    for result in persist.extract_regions(driver.record)[:STRIDE - 1]:
        extract = result["ex"]
        event = {"id": case["id"] * STRIDE + result["region"], "op": "extract", "build": "", "region": result["region"],
                 "exc": result["exc"], "before": result["before"], "after": result["after"], "seq": result["seq"],
                 "bio_before": result["bio_before"], "bio_after": result["bio_after"],
                 "bio_locs_before": result["bio_locs_before"], "bio_locs_after": result["bio_locs_after"],
                 "ex": {key: extract[key] for key in ("exc", "rec", "seq", "raw", "pairs")},
                 "info": {"stage": extract["stage"], "topology": extract["topology"]}}
        events.append(event)
    return events


def observe_many(cases: list) -> list:
    return [observe(case) for case in cases]


def describe(case, event, persist):
    info = event.pop("info")
    feats = persist.features(case["uni"], case["hist"]) + persist.region_features(event["before"], event["region"])
    extract = event["ex"]
    return {"op": "extract", "input": {"uni": case["uni"], "hist": case["hist"], "seed": case["seed"], "region": event["region"]},
            "call": persist.call_text(case) + f"; persist.extract_regions(record)[{event['region'] - 1}]  # Region.write_to_genbank(filename, "
                                              "record=record.to_biopython()) for every region, then SeqIO.parse + Record.from_biopython",
            "observed": {"write_exc": event["exc"], "load_exc": extract["exc"], "stage": info["stage"], "topology": info["topology"],
                         "file_numbers": extract["raw"], "extract_length": len(extract["seq"]),
                         "loaded": {k: len(v) for k, v in extract["rec"].items() if isinstance(v, list)},
                         "biopython_record": [event["bio_before"], event["bio_after"]],
                         "biopython_locations": [event["bio_locs_before"], event["bio_locs_after"]]},
            "features": sorted(set(feats)), "sampled": case["sampled"]}


def run(ctx):
    from .. import persist  # pylint: disable=import-outside-toplevel
    rng = random.Random(ctx.seed)
    max_areas = 4 if ctx.quick else 6
    # (TLC's coverage mode runs out of memory on the recursive operators of Persist.tla; vacuity is read off the dump instead)
    mc = tlc.run("Persist_MC", persist.mc_config(max_areas), ctx.workdir, dump=True, timeout=3000, heap="3g")
    ctx.model(mc, f"Persist_MC pipeline-ordered RecordSM states over 4 universes, <= {max_areas} areas: the expected extract of every region is "
                  "well-formed, base-preserving, one component and accepted by the extract relation")
    control = tlc.run("Persist_MC", persist.mc_config(3, faithful=False, invariants=["ShiftPreservesBases"], stutter=False), ctx.workdir,
                      timeout=1200, heap="2g", tag="_neg")
    ctx.expect_violation(control, "ShiftPreservesBases", "Persist_MC with the offset applied with the wrong sign")
    cases = persist.mc_cases(mc, 0, want_regions=True)   # enumerated cases are identified by their input: fixed sequence seed
    if {"regions", "done"} - {case["phase"] for case in cases}:
        raise MachineryError("vacuous model run: no state with regions / with a late gene")
    enumerated = len(cases)
    for _ in range(800 if ctx.quick else 60000):
        uni = persist.random_universe(rng)
        cases.append({"uni": uni, "hist": persist.pipeline_history(rng, uni), "seed": 1000 + ctx.seed, "sampled": True})
    # directed family: a region covering the whole ring from a seam that is not the origin (start == end)
    ring_rng = random.Random(ctx.seed + 7919)
    for _ in range(60 if ctx.quick else 3000):
        uni = persist.whole_ring_universe(ring_rng)
        cases.append({"uni": uni, "hist": persist.pipeline_history(ring_rng, uni), "seed": 1000 + ctx.seed, "sampled": True})
    for idx, case in enumerate(cases):
        case["id"] = idx
    samples, skipped, regions_seen = [], {}, 0
    for start in range(0, len(cases), 3000):
        part = cases[start:start + 3000]
        nested = [evs for sub in pmap(observe_many, chunks(part, CPUS * 4)) for evs in sub]
        by_id, shipped = {}, []
        for case, events in zip(part, nested):
            for event in events:
                if event["build"]:
                    skipped[event["build"]] = skipped.get(event["build"], 0) + 1
                    continue
                event.pop("build")
                entry = describe(case, event, persist)
                by_id[event["id"]] = entry
                regions_seen += 1
                if "region_spans_origin" in entry["features"] or "later_region" in entry["features"]:
                    ctx.nontrivial_case(event["id"])
                if len(samples) < 6 and (event["id"] % 97 == 1 or "region_spans_origin" in entry["features"] and len(samples) < 2):
                    samples.append({"universe": case["uni"], "history": case["hist"], "region": event["region"],
                                    "region_location": event["before"]["regions"][event["region"] - 1]["loc"],
                                    "features": entry["features"], "observed": entry["observed"]})
                shipped.append(event)
        ctx.validate("Persist_Trace", shipped, by_id, min_per_shard=60)
        del nested, shipped, by_id
    if not regions_seen:
        raise MachineryError("no region file was written")
    ctx.evaluations = regions_seen
    for sample in samples:
        ctx.sample(sample, limit=6)
    ctx.exhaustive = True
    ctx.rule = (f"every state with regions of Persist_MC (four universes as in C10: first / later regions, regions touching either record end, "
                f"an origin-spanning region holding an origin-spanning gene and a non-spanning protocluster in front of the origin, an origin-spanning "
                f"region holding genes in several exons with the origin inside an intron (both strands) or cutting an exon, regions with "
                f"several candidates and subregions, prepeptides, codon_start genes; <= {max_areas} areas, ascending / descending insertion, optional "
                f"late gene) is built as a real record and every region written with Region.write_to_genbank, parsed and loaded again; plus seeded "
                f"random universes in pipeline order; non-trivial = the region spans the origin or is not the first region of its record")
    ctx.notes.update({"enumerated_states": enumerated, "random_cases": len(cases) - enumerated, "region_files": regions_seen,
                      "records_not_buildable": skipped})
    ctx.assumptions += ["region files are written the way main.write_outputs does: one Biopython record per secmet record, shared by all its regions",
                        "records are pipeline-shaped (no area added after candidates / regions were created), so that every area inside a region is one of its members",
                        "content that depends on where a feature sits in its record (contig_edge) is not compared between record and extract",
                        "the topology annotation of the extract is observed but not judged (the statement does not mention it)",
                        "locations are compared as strand + bases in order: a part cut into abutting pieces is the same location",
                        "input features for literals are the abstract universe / history and the projected full record before the write, never the extract"]


def replay(ctx, record):
    from .. import persist  # pylint: disable=import-outside-toplevel
    case = {"id": 0, "uni": record["input"]["uni"], "hist": record["input"]["hist"], "seed": record["input"].get("seed", 0), "sampled": False}
    events = [ev for ev in observe(case) if not ev.get("build") and ev["region"] == record["input"]["region"]]
    if not events:
        raise MachineryError("the recorded case can no longer be built")
    by_id = {ev["id"]: describe(case, ev, persist) for ev in events}
    for event in events:
        event.pop("build", None)
    ctx.validate("Persist_Trace", events, by_id)
    ctx.failures = [f for f in ctx.failures if f["op"] == record["op"] and f["clause"] == record["clause"]]
