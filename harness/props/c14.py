""" C14 - NRPS/PKS modules partition a gene's domains in order and obey the module rules.

    spec: NrpsModules.tla (layout rules + the Add/Build/Combine state machine);
    model run: NrpsModules_MC enumerates every domain string (single genes) and every pair of short
    genes over a representative alphabet, checks on each that the state machine's own output
    satisfies the rules (satisfiable oracle) and dumps the strings - the states are the cases;
    binding: each string is replayed into build_modules_for_cds, every module through
    Module.from_json(to_json()), each pair through combine_modules on all strand combinations; the
    projected modules are decided by TLC in NrpsModules_Trace (relations only - never an exact
    predicted split).  No oracle in here: this file builds inputs, calls antiSMASH, projects.
"""

import json
import random
from concurrent.futures import ThreadPoolExecutor

from .. import tlc, tlaval
from .. import trace as tracemod
from ..common import CPUS, MachineryError, chunks, import_repo, pmap

# ---- alphabets (generator parameters; the classes come from the code's classify()) ----------
# every class of CLASSIFICATIONS and every label the code names individually
ALPHABET = [
    ("AMP-binding", ""), ("PKS_AT", ""), ("Condensation_LCL", ""), ("Condensation_Starter", ""),
    ("CAL_domain", ""), ("SAT", ""), ("Epimerization", ""), ("Thioesterase", ""), ("TD", ""),
    ("PKS_KS", ""), ("PKS_KS", "Trans-AT-KS"), ("PKS_KS", "Iterative-KS"),
    ("PKS_KR", ""), ("PKS_DH", ""), ("nMT", ""), ("LPG_synthase_C", ""), ("Beta_elim_lyase", ""),
    ("ACP", ""), ("PKS_PP", ""), ("Trans-AT_docking", ""), ("TIGR01720", ""),
    ("ACPS", ""), ("Interface", ""), ("NRPS-COM_Nterm", ""), ("PKS_Docking_Nterm", ""),
]
PAIR_QUICK = ["AMP-binding", "PKS_AT", "Condensation_LCL", "PKS_KS", "PKS_KS/Trans-AT-KS", "PKS_KR", "ACP",
              "Thioesterase", "Trans-AT_docking"]
PAIR_THOROUGH = PAIR_QUICK + ["Interface", "CAL_domain", "NRPS-COM_Nterm"]
CORE5 = ["AMP-binding", "PKS_AT", "Condensation_LCL", "PKS_KS", "PKS_KS/Trans-AT-KS", "PKS_KR", "ACP", "Thioesterase",
         "Trans-AT_docking", "LPG_synthase_C", "Beta_elim_lyase", "CAL_domain", "NRPS-COM_Nterm", "Epimerization"]
# the double-transporter case needs 4-5 domains: a small alphabet, longer strings
TRANSPORTER = ["PKS_KS/Trans-AT-KS", "ACP", "LPG_synthase_C", "Beta_elim_lyase", "PKS_KR"]
KS_SUBTYPES = ["", "", "Trans-AT-KS", "Trans-AT-KS", "Iterative-KS", "Modular-KS", "Hybrid-KS", "Enediyne-KS",
               "Trans-AT-KS+Modular-KS", "Iterative-KS+Trans-AT-KS"]
STRANDS = [(1, 1), (-1, -1), (1, -1), (-1, 1)]

MC_CFG = """SPECIFICATION Spec
CONSTANTS
  Alphabet <- MC_Alphabet
  SingleIdx = {%(single)s}
  PairIdx = {%(pair)s}
  MaxLen = %(maxlen)d
  MaxUp = %(maxup)d
  MaxDown = %(maxdown)d
  Variant = "%(variant)s"
"""
MC_INVARIANTS = """INVARIANT SingleOK
INVARIANT ReloadSat
INVARIANT PairOK
INVARIANT BandsOrdered
"""

DUMMY_MODULE = {"comps": [], "complete": False, "first": False, "tat": False, "iter": False, "sm": False, "tm": False}


def _name(entry) -> str:
    return entry[0] + ("/" + entry[1] if entry[1] else "")


def _indices(names) -> str:
    table = {_name(entry): idx + 1 for idx, entry in enumerate(ALPHABET)}
    return ", ".join(str(table[name]) for name in names)


_CLASSES = {}


def _classify(label: str) -> str:
    if label not in _CLASSES:
        import_repo()
        from antismash.detection.nrps_pks_domains.module_identification import classify
        _CLASSES[label] = classify(label)
    return _CLASSES[label]


def _domrec(label: str, subtype: str) -> dict:
    """ abstract domain as the spec sees it; class = the code's classification of the name (input annotation),
        p = a purely syntactic feature of the name """
    # (several competing subtype hits are no subtype: HMMResult.detailed_names stops at a level with several hits)
    return {"l": label, "s": "" if "+" in subtype else subtype, "c": _classify(label), "p": label.startswith("PKS")}


# ---- observation (runs in worker processes) ---------------------------------------------------
_CDS = {}


def _cds(strand: int, downstream: bool):
    key = (strand, downstream)
    if key not in _CDS:
        from antismash.common.secmet.test.helpers import DummyCDS
        start = 1000 if downstream else 0
        _CDS[key] = DummyCDS(start=start, end=start + 900, strand=strand, locus_tag="g2" if downstream else "g1")
    return _CDS[key]


def _hits(doms, order=None):
    from antismash.common.hmmscan_refinement import HMMResult
    hits = []
    for idx, (label, subtype) in enumerate(doms):
        hit = HMMResult(label, idx * 10, idx * 10 + 9, 1e-5, 50.)
        if subtype:
            # "X+Y": two competing subtype hits at the first level - documented as "no subtype" (the chain of names stops
            # where several hits are found)
            hit.add_internal_hits([HMMResult(name, idx * 10, idx * 10 + 9, 1e-5, 50.) for name in subtype.split("+")])
        hits.append(hit)
    if order:
        hits = [hits[idx] for idx in order]
    return hits


def _module(module) -> dict:
    comps = []
    for comp in module.components:
        comps.append({"g": 2 if comp.locus == "g2" else 1, "i": comp.domain.query_start // 10, "l": comp.label,
                      "s": comp.subtype or "", "c": comp.classification, "p": comp.label.startswith("PKS")})
    return {"comps": comps, "complete": bool(module.is_complete()), "first": bool(module.to_json()["first_in_cds"]),
            "tat": bool(module.is_trans_at()), "iter": bool(module.is_iterative()),
            "sm": bool(module.is_starter_module()), "tm": bool(module.is_termination_module())}


def _reload(module) -> dict:
    from antismash.detection.nrps_pks_domains.module_identification import Module
    try:
        saved = module.to_json()
        new = Module.from_json(json.loads(json.dumps(saved)))
        return {"exc": "", "v": {"m": _module(new), "js": new.to_json() == saved}}
    except Exception as err:  # pylint: disable=broad-except
        return {"exc": type(err).__name__, "v": {"m": DUMMY_MODULE, "js": False}}


def _reload_results(modules) -> list:
    """ the modules of one gene through the saved results of that gene (CDSResult.to_json / from_json) """
    from antismash.detection.nrps_pks_domains.domain_identification import CDSResult
    try:
        saved = json.loads(json.dumps(CDSResult([], [], list(modules)).to_json()))
        loaded = CDSResult.from_json(json.loads(json.dumps(saved))).modules
        if len(loaded) != len(modules):
            raise ValueError("number of modules changed")
        return [{"exc": "", "v": {"m": _module(new), "js": new.to_json() == old.to_json()}} for old, new in zip(modules, loaded)]
    except Exception as err:  # pylint: disable=broad-except
        return [{"exc": type(err).__name__, "v": {"m": DUMMY_MODULE, "js": False}} for _ in modules]


def _build(doms, locus, order=None):
    from antismash.detection.nrps_pks_domains.module_identification import build_modules_for_cds
    return build_modules_for_cds(_hits(doms, order), locus)


def _observe(case: dict) -> dict:
    from .. import build as _B  # noqa: F401  (brings the tree under test in)
    from antismash.detection.nrps_pks_domains.module_identification import CDSModuleInfo, combine_modules
    inp = case["input"]
    if inp["kind"] == "record":
        return _observe_record(case)
    event = {"id": case["id"], "op": inp["kind"]}
    if inp["kind"] == "gene":
        event["inp"] = [_domrec(*dom) for dom in inp["doms"]]
        try:
            modules = _build(inp["doms"], "g1", inp.get("order"))
            event["res"] = {"exc": "", "v": [_module(m) for m in modules]}
            event["rl"] = [_reload(m) for m in modules]
            event["rs"] = _reload_results(modules)
        except Exception as err:  # pylint: disable=broad-except
            event["res"] = {"exc": type(err).__name__, "v": []}
            event["rl"] = []
            event["rs"] = []
        return event
    event["up"] = [_domrec(*dom) for dom in inp["up"]]
    event["down"] = [_domrec(*dom) for dom in inp["down"]]
    for key, doms, locus in (("pa", inp["up"], "g1"), ("pb", inp["down"], "g2")):
        try:
            event[key] = {"exc": "", "v": [_module(m) for m in _build(doms, locus)]}
        except Exception as err:  # pylint: disable=broad-except
            event[key] = {"exc": type(err).__name__, "v": []}
    event["obs"] = []
    if event["pa"]["exc"] or event["pb"]["exc"]:
        return event
    for s_up, s_down in inp["strands"]:
        previous = CDSModuleInfo(_cds(s_up, False), _build(inp["up"], "g1"))
        current = CDSModuleInfo(_cds(s_down, True), _build(inp["down"], "g2"))
        obs = {"same": s_up == s_down, "su": s_up, "sd": s_down, "rl": [], "rsa": [], "rsb": []}
        try:
            merged = combine_modules(current, previous)
            after_up = [_module(m) for m in previous.modules]
            after_down = [_module(m) for m in current.modules]
            # compression only: a list that equals the one before the call is not shipped twice
            same_up, same_down = after_up == event["pa"]["v"], after_down == event["pb"]["v"]
            obs["out"] = {"exc": "", "v": {"merged": merged is not None,
                                           "m": _module(merged) if merged is not None else DUMMY_MODULE,
                                           "qa_eq": same_up, "qa": [] if same_up else after_up,
                                           "qb_eq": same_down, "qb": [] if same_down else after_down}}
            if merged is not None:
                obs["rl"] = [_reload(merged)]
                obs["rsa"] = _reload_results(previous.modules)
                obs["rsb"] = _reload_results(current.modules)
        except Exception as err:  # pylint: disable=broad-except
            obs["out"] = {"exc": type(err).__name__, "v": {"merged": False, "m": DUMMY_MODULE, "qa_eq": False, "qa": [],
                                                           "qb_eq": False, "qb": []}}
        event["obs"].append(obs)
    return event


def _observe_record(case: dict) -> dict:
    """ three consecutive genes of one region through the real generate_domains (the loop that feeds combine_modules);
        the HMMer-backed searches are replaced by the fixed hits of the case """
    from unittest import mock
    from .. import build as B
    from antismash.common.hmmscan_refinement import HMMResult
    from antismash.common.secmet.features import SubRegion
    from antismash.common.secmet.locations import FeatureLocation
    from antismash.common.secmet.test.helpers import DummyCDS
    from antismash.detection.nrps_pks_domains import domain_identification
    inp = case["input"]
    event = {"id": case["id"], "op": "record", "strands": inp["strands"],
             "genes": [[_domrec(*dom) for dom in doms] for doms in inp["genes"]], "motifs": inp["motifs"]}
    names = ["g1", "g2", "g3"]

    def fresh_record():
        record = B.record(3 * 1200, False)
        for pos, (name, strand) in enumerate(zip(names, inp["strands"])):
            record.add_cds_feature(DummyCDS(start=pos * 1200 + 30, end=pos * 1200 + 1110, strand=strand, locus_tag=name,
                                            translation="M" + "A" * 359))
        record.add_subregion(SubRegion(FeatureLocation(0, 3600, 1), tool="verif", label="all"))
        record.create_regions()
        return record
    try:
        record = fresh_record()
        domains = {name: _hits(doms) for name, doms in zip(names, inp["genes"]) if doms}
        motifs = {name: [HMMResult("NRPS-A_a3", 1, 5, 1e-5, 20.)] for name, has in zip(names, inp["motifs"]) if has}
        with mock.patch.object(domain_identification, "find_domains", return_value=domains), \
                mock.patch.object(domain_identification, "find_subtypes", return_value={}), \
                mock.patch.object(domain_identification, "find_ab_motifs", return_value=motifs), \
                mock.patch.object(domain_identification, "get_database_path", return_value=""):
            results = domain_identification.generate_domains(record)
        index = {name: pos + 1 for pos, name in enumerate(names)}
        def modules_of(found):
            table = {cds.get_name(): res for cds, res in found.cds_results.items()}
            return [[{"complete": bool(m.is_complete()), "genes": [index[comp.locus] for comp in m.components]}
                     for m in (table[name].modules if name in table else [])] for name in names]
        event["mods"] = modules_of(results)
        event["exc"] = ""
    except Exception as err:  # pylint: disable=broad-except
        event["exc"] = type(err).__name__
        event["mods"] = [[], [], []]
        event["again"] = {"exc": "", "mods": [[], [], []]}
        return event
    # the same results saved and loaded again for the same record (what --reuse-results does with them)
    try:
        import json  # pylint: disable=import-outside-toplevel
        saved = json.loads(json.dumps(results.to_json()))
        loaded = domain_identification.NRPSPKSDomains.from_json(saved, fresh_record())
        event["again"] = {"exc": "", "mods": modules_of(loaded)} if loaded is not None else {"exc": "Discarded", "mods": [[], [], []]}
    except Exception as err:  # pylint: disable=broad-except
        event["again"] = {"exc": type(err).__name__, "mods": [[], [], []]}
    return event


def _observe_many(cases):
    return [_observe(case) for case in cases]


# ---- descriptions of a case (input only) ------------------------------------------------------------
def _hit_text(doms) -> str:
    return "[" + ", ".join(f"hit({label!r}, {idx}" + (f", sub={sub!r})" if sub else ")")
                           for idx, (label, sub) in enumerate(doms)) + "]"


def call_text(inp: dict) -> str:
    head = ("hit = lambda l, i, sub=None: HMMResult(l, i*10, i*10+9, 1e-5, 50., internal_hits="
            "[HMMResult(sub, i*10, i*10+9, 1e-5, 50.)] if sub else None); ")
    if inp["kind"] == "record":
        return (f"props.c14._observe_record({{'id': 0, 'input': {inp}}})  # three genes g1..g3 in one region, "
                "domain_identification.generate_domains(record) with find_domains / find_ab_motifs returning the hits of the case")
    if inp["kind"] == "gene":
        order = f" (passed in order {inp['order']})" if inp.get("order") else ""
        return (head + f"ms = build_modules_for_cds({_hit_text(inp['doms'])}, 'g1'){order}; "
                "[Module.from_json(m.to_json()) for m in ms]")
    return (head + f"prev = CDSModuleInfo(DummyCDS(strand=su), build_modules_for_cds({_hit_text(inp['up'])}, 'g1')); "
            f"cur = CDSModuleInfo(DummyCDS(strand=sd), build_modules_for_cds({_hit_text(inp['down'])}, 'g2')); "
            f"combine_modules(cur, prev) for (su, sd) in {inp['strands']}")


def _class_of(label: str) -> str:
    return _classify(label)


def _features(inp: dict) -> list:
    """ literals computed from the abstract input only """
    feats = [inp["kind"]]
    genes = [inp["doms"]] if inp["kind"] == "gene" else (inp["genes"] if inp["kind"] == "record" else [inp["up"], inp["down"]])
    if any(sub == "Trans-AT-KS" or label == "Trans-AT_docking" for gene in genes for label, sub in gene):
        feats.append("trans_at_marker")
    for gene in genes:
        classes = [_class_of(label) for label, _ in gene]
        core = [c for c in classes if c != "ignore"]
        if any(core[i] == "CP" and core[i + 1] == "CP" for i in range(len(core) - 1)):
            feats.append("adjacent_carrier_proteins")
    if inp["kind"] == "pair":
        down = [(label, _class_of(label)) for label, _ in inp["down"]]
        down = [(label, cls) for label, cls in down if cls not in ("ignore", "!")]
        if any(down[i][1] == "E" and down[i + 1][0] == "PKS_KR" for i in range(len(down) - 1)):
            feats.append("down_end_then_KR")
    if sum(len(gene) for gene in genes) > 5:
        feats.append("long")
    return sorted(set(feats))


def _nontrivial(inp: dict) -> bool:
    genes = [inp["doms"]] if inp["kind"] == "gene" else (inp["genes"] if inp["kind"] == "record" else [inp["up"], inp["down"]])
    classes = {_class_of(label) for gene in genes for label, _ in gene}
    return "CP" in classes and bool(classes & {"A", "AT", "KS", "C", "S"})


class _ById:
    """ lazily built failure descriptions for the events of one batch """
    def __init__(self, cases, events):
        self.cases = {case["id"]: case for case in cases}
        self.events = {event["id"]: event for event in events}

    def __bool__(self):
        return True

    def __contains__(self, ident):
        return ident in self.cases

    def __getitem__(self, ident):
        case = self.cases[ident]
        return describe(case, self.events[ident])


def _observed(event: dict) -> dict:
    return {k: v for k, v in event.items() if k in ("res", "rl", "pa", "pb", "obs", "mods", "exc")}


def describe(case: dict, event: dict) -> dict:
    inp = case["input"]
    return {"op": inp["kind"], "input": inp, "call": call_text(inp), "observed": _observed(event),
            "features": _features(inp), "sampled": bool(case.get("sampled", False))}


# ---- case construction -----------------------------------------------------------------------------
def _doms(indices):
    return [list(ALPHABET[idx - 1]) for idx in indices]


def _compact_from_dump(run):
    """ states of the generator as (upstream index tuple, downstream index tuple | None) """
    found = []
    for state in tlaval.read_dump(run.dump_path):
        found.append((tuple(state["a"]), tuple(state["b"]) if state["phase"] == 1 else None))
    found.sort(key=lambda item: (item[1] is not None, len(item[0]), len(item[1] or ()), item))
    return found


def _expand(ident, item, all_strands=True) -> dict:
    if isinstance(item, dict):
        return dict(item, id=ident)
    first, second = item
    if second is None:
        return {"id": ident, "input": {"kind": "gene", "doms": _doms(first)}}
    # quick: one same-strand and one mixed-strand combination per pair, alternating forward / reverse
    strands = STRANDS if all_strands else (STRANDS[0::2] if (sum(first) + sum(second)) % 2 == 0 else STRANDS[1::2])
    return {"id": ident, "input": {"kind": "pair", "up": _doms(first), "down": _doms(second),
                                   "strands": [list(s) for s in strands]}}


def _all_labels():
    import_repo()
    from antismash.detection.nrps_pks_domains.module_identification import CLASSIFICATIONS
    return sorted(label for group in CLASSIFICATIONS.values() for label in group)


def _random_gene(rng, labels, length):
    common = [entry[0] for entry in ALPHABET]
    doms = []
    while len(doms) < length:
        roll = rng.random()
        if roll < 0.06 and length - len(doms) >= 4:
            doms += [[rng.choice(["ACP", "PCP", "PKS_PP"]), ""], [rng.choice(["ACP", "PP-binding"]), ""],
                     ["LPG_synthase_C", ""], ["Beta_elim_lyase", ""]]
            continue
        label = rng.choice(common) if roll < 0.55 else rng.choice(labels)
        doms.append([label, rng.choice(KS_SUBTYPES) if label == "PKS_KS" else ""])
    return doms


def _random_cases(rng, count):
    labels = _all_labels()
    cases = []
    for number in range(count):
        length = rng.randrange(6, 15)
        doms = _random_gene(rng, labels, length)
        if number % 3 == 2:
            cut = rng.randrange(1, length)
            cases.append({"sampled": True, "input": {"kind": "pair", "up": doms[:cut], "down": doms[cut:],
                                                     "strands": [list(s) for s in STRANDS]}})
        else:
            order = list(range(length))
            rng.shuffle(order)
            cases.append({"sampled": True, "input": {"kind": "gene", "doms": doms, "order": order}})
    # three consecutive genes of a region: fragments that complete each other in the outer genes, and in between a gene
    # with a module of its own, with docking domains / motif hits only, or with nothing at all
    fragments = [([("PKS_KS", ""), ("PKS_AT", "")], [("PKS_ER", ""), ("PP-binding", "")]),
                 ([("Condensation_LCL", ""), ("AMP-binding", "")], [("PCP", "")]),
                 ([("PKS_KS", ""), ("PKS_AT", ""), ("PKS_KR", "")], [("ACP", ""), ("Thioesterase", "")])]
    middles = [[], [("PKS_Docking_Nterm", "")], [("NRPS-COM_Cterm", "")], [("PKS_KS", ""), ("PKS_AT", ""), ("ACP", "")], [("PCP", "")]]
    for _ in range(max(30, count // 40)):
        up, down = rng.choice(fragments)
        middle = rng.choice(middles)
        strand = rng.choice([1, -1])
        genes = [up, middle, down] if strand == 1 else [down, middle, up]
        strands = [strand, rng.choice([strand, strand, -strand]), strand]
        cases.append({"sampled": True, "input": {"kind": "record", "genes": genes, "strands": strands,
                                                 "motifs": [False, rng.random() < 0.4 and not middle, False]}})
    return cases


def _alphabet_module() -> str:
    records = [_domrec(label, sub) for label, sub in ALPHABET]
    return ("---- MODULE MC_NrpsModules ----\nEXTENDS NrpsModules_MC\nMC_Alphabet == " + tlaval.to_tla(records)
            + "\n====\n")


def _mc(ctx, params, *, invariants=MC_INVARIANTS, dump=False, coverage=False, tag="", workers=None, staged=False):
    cfg = MC_CFG % params + invariants
    extra = None if staged else {"MC_NrpsModules.tla": _alphabet_module()}  # concurrent runs must not rewrite it
    return tlc.run("MC_NrpsModules", cfg, ctx.workdir, extra_files=extra,
                   dump=dump, coverage=coverage, timeout=3000, tag=tag, heap="6g", workers=workers)


def _negative_controls(ctx):
    """ deliberately wrong models must be caught by the verdict operators, and the model must really merge,
        absorb, split and build a double-transporter module (each: an invariant that has to be violated);
        one small run with coverage shows that every action is taken """
    small = {"single": _indices([_name(e) for e in ALPHABET]), "pair": _indices(PAIR_QUICK), "maxlen": 2, "maxup": 1,
             "maxdown": 3, "variant": "ok"}
    jobs = []
    for variant, invariant, label in [
            ("dup_loader", "SingleOK", "negative control: model that lets a second loader join"),
            ("late_mods", "SingleOK", "negative control: model that lets any modification follow the carrier protein"),
            ("no_cp_needed", "SingleOK", "negative control: model that reports complete without a carrier protein"),
            ("drop_domain", "PairOK", "negative control: model whose merge loses the last domain")]:
        jobs.append((dict(small, variant=variant, maxlen=3 if variant == "late_mods" else 2), invariant, label))
    for invariant, label in [("NeverMerges", "non-vacuity: the model does merge some pair"),
                             ("NeverAbsorbs", "non-vacuity: the model does absorb a trailing KR"),
                             ("NeverSplits", "non-vacuity: the model does split a gene into several modules")]:
        jobs.append((small, invariant, label))
    jobs.append((dict(small, single=_indices(["PKS_KS", "ACP", "LPG_synthase_C", "Beta_elim_lyase"]), maxlen=5, maxdown=0),
                 "NeverTwoCarriers", "non-vacuity: the model does build a double-transporter module"))
    tlc.stage(ctx.workdir, {"MC_NrpsModules.tla": _alphabet_module()})

    def one(numbered):
        number, (params, invariant, _) = numbered
        return _mc(ctx, params, invariants=f"INVARIANT {invariant}\n", tag=f"_neg{number}", workers=2, staged=True)

    with ThreadPoolExecutor(max_workers=max(1, CPUS // 2)) as pool:
        runs = list(pool.map(one, enumerate(jobs)))
    for (_, invariant, label), run in zip(jobs, runs):
        ctx.expect_violation(run, invariant, label)
    covered = _mc(ctx, small, coverage=True, tag="_cov")
    ctx.model(covered, "NrpsModules_MC small configuration with action coverage",
              vacuity=["AddSingle", "StartPair", "AddDown"])


def _actions_witnessed(found, params):
    """ the generator run is made without coverage (4x faster); that every action fired is read off its states """
    seen = {"AddSingle": any(b is None and len(a) == params["maxlen"] for a, b in found),
            "StartPair": any(b is not None and len(b) == 1 and len(a) == params["maxup"] for a, b in found),
            "AddDown": any(b is not None and len(b) == params["maxdown"] for a, b in found)}
    missing = sorted(name for name, hit in seen.items() if not hit)
    if missing:
        raise MachineryError(f"vacuous generator run: no state produced by {missing}")


def _canary(ctx):
    """ the binding is real: observations of two real runs are corrupted one field at a time and every corrupted
        event has to be rejected by the trace spec (machinery failure otherwise) """
    gene = _observe({"id": 0, "input": {"kind": "gene", "doms": [
        ["Condensation_LCL", ""], ["AMP-binding", ""], ["ACP", ""], ["Thioesterase", ""],
        ["PKS_KS", ""], ["PKS_AT", ""], ["ACP", ""]]}})
    pair = _observe({"id": 0, "input": {"kind": "pair", "up": [["PKS_KS", "Trans-AT-KS"]],
                                        "down": [["ACP", ""], ["PKS_KR", ""]], "strands": [[1, 1]]}})
    events = []

    def corrupt(base, change):
        event = json.loads(json.dumps(base))
        event["id"] = len(events) + 1
        change(event)
        events.append(event)

    def flip(obj, key):
        obj[key] = not obj[key]

    if not gene["res"]["exc"] and len(gene["res"]["v"]) == 2 and all(len(m["comps"]) > 2 for m in gene["res"]["v"]):
        corrupt(gene, lambda ev: flip(ev["res"]["v"][0], "complete"))
        corrupt(gene, lambda ev: flip(ev["res"]["v"][1], "tat"))
        corrupt(gene, lambda ev: flip(ev["res"]["v"][1], "tm"))
        corrupt(gene, lambda ev: ev["res"]["v"][0]["comps"].reverse())
        corrupt(gene, lambda ev: ev["res"]["v"][1]["comps"].pop())
        corrupt(gene, lambda ev: ev["res"]["v"][0]["comps"].append(ev["res"]["v"][1]["comps"].pop(0)))
        corrupt(gene, lambda ev: ev["res"]["v"].append({**ev["res"]["v"][1], "comps": [ev["res"]["v"][1]["comps"].pop()],
                                                        "complete": False, "tm": False}))
        corrupt(gene, lambda ev: flip(ev["rl"][0]["v"]["m"], "first"))
        corrupt(gene, lambda ev: ev["rl"][1].update(exc="ValueError"))
    if pair["obs"] and not pair["obs"][0]["out"]["exc"] and pair["obs"][0]["out"]["v"]["merged"]:
        corrupt(pair, lambda ev: ev["obs"][0]["out"]["v"].update(qb_eq=True))
        corrupt(pair, lambda ev: ev["obs"][0].update(same=False))
        corrupt(pair, lambda ev: ev["obs"][0]["out"]["v"]["m"]["comps"].reverse())
        corrupt(pair, lambda ev: ev["obs"][0]["out"].update(exc="KeyError"))
    if not events:
        ctx.notes["canary"] = "skipped: the reference inputs did not produce the expected modules (see failures)"
        return
    res = tracemod.validate("NrpsModules_Trace", events, ctx.workdir, shards=1)
    missed = [event["id"] for event in events if event["id"] not in res.rejects]
    if missed:
        raise MachineryError(f"corrupted observations {missed} were accepted by NrpsModules_Trace")
    ctx.notes["canary"] = {str(ident): sorted(set(clauses)) for ident, clauses in sorted(res.rejects.items())}


def _validate_batches(ctx, items, batch_size):
    """ expand + observe + validate in batches so that thorough runs stay within memory """
    samples = []
    timing = ctx.notes.setdefault("timing_s", {})
    for start in range(0, len(items), batch_size):
        batch = [_expand(start + offset, item, not ctx.quick)
                 for offset, item in enumerate(items[start:start + batch_size])]
        ctx.nontrivial_extra += sum(1 for case in batch if _nontrivial(case["input"]))
        mark = ctx.timer.elapsed()
        events = [ev for part in pmap(_observe_many, chunks(batch, CPUS * 4)) for ev in part]
        timing["observe"] = round(timing.get("observe", 0) + ctx.timer.elapsed() - mark, 1)
        mark = ctx.timer.elapsed()
        ctx.validate("NrpsModules_Trace", events, _ById(batch, events))
        timing["validate"] = round(timing.get("validate", 0) + ctx.timer.elapsed() - mark, 1)
        if start == 0:
            by_event = {event["id"]: event for event in events}
            for case in (batch[0], batch[len(batch) // 2], batch[-1]):
                samples.append({"case": case["input"], "call": call_text(case["input"]),
                                "observed": _observed(by_event[case["id"]])})
    return samples


def run(ctx):
    rng = random.Random(ctx.seed)
    everything = [_name(entry) for entry in ALPHABET]
    if ctx.quick:
        runs = [("all strings <= 3 over the 25-label alphabet; pairs up <= 2 x down <= 3 over 9 labels",
                 {"single": _indices(everything), "pair": _indices(PAIR_QUICK), "maxlen": 3, "maxup": 2, "maxdown": 3,
                  "variant": "ok"}),
                ("all strings <= 5 and pairs up <= 1 x down <= 4 over 5 labels around the double-transporter case",
                 {"single": _indices(TRANSPORTER), "pair": _indices(TRANSPORTER), "maxlen": 5, "maxup": 1, "maxdown": 4,
                  "variant": "ok"})]
        randoms = 3000
    else:
        runs = [("all strings <= 4 over the 25-label alphabet; pairs up <= 2 x down <= 3 over 12 labels",
                 {"single": _indices(everything), "pair": _indices(PAIR_THOROUGH), "maxlen": 4, "maxup": 2, "maxdown": 3,
                  "variant": "ok"}),
                ("all strings <= 5 over 14 core labels; pairs up <= 3 x down <= 3 over 9 labels",
                 {"single": _indices(CORE5), "pair": _indices(PAIR_QUICK), "maxlen": 5, "maxup": 3, "maxdown": 3,
                  "variant": "ok"}),
                ("all strings <= 7 and pairs up <= 2 x down <= 5 over 5 labels around the double-transporter case",
                 {"single": _indices(TRANSPORTER), "pair": _indices(TRANSPORTER), "maxlen": 7, "maxup": 2, "maxdown": 5,
                  "variant": "ok"})]
        randoms = 150000
    timing = ctx.notes.setdefault("timing_s", {})
    mark = ctx.timer.elapsed()
    _negative_controls(ctx)
    timing["negative_controls"] = round(ctx.timer.elapsed() - mark, 1)
    seen = set()
    cases = []
    for idx, (label, params) in enumerate(runs):
        mark = ctx.timer.elapsed()
        mc = _mc(ctx, params, dump=True, tag=f"_gen{idx}")
        timing[f"model_run_{idx}"] = round(ctx.timer.elapsed() - mark, 1)
        mark = ctx.timer.elapsed()
        ctx.model(mc, f"NrpsModules_MC {label}")
        found = _compact_from_dump(mc)
        if len(found) != mc.distinct:
            raise MachineryError(f"dump holds {len(found)} states, TLC reported {mc.distinct}")
        _actions_witnessed(found, params)
        for item in found:
            if item not in seen:
                seen.add(item)
                cases.append(item)
        ctx.notes.setdefault("generated_cases", {})[label] = len(found)
        timing[f"read_dump_{idx}"] = round(ctx.timer.elapsed() - mark, 1)
    exhaustive = len(cases)
    del seen
    cases += _random_cases(rng, randoms)
    ctx.evaluations = len(cases)
    _canary(ctx)
    for sample in _validate_batches(ctx, cases, 80000):
        ctx.sample(sample)
    ctx.exhaustive = True
    ctx.rule = ("TLC enumerates every domain string up to the stated length over a representative alphabet (every class of "
                "CLASSIFICATIONS, every label the code names individually, PKS_KS with and without Trans-AT/Iterative "
                "subtype) and every pair of short genes; each is built with build_modules_for_cds, every module reloaded via "
                "to_json/from_json, every pair merged with combine_modules on all four strand combinations (quick: one "
                "same-strand and one mixed-strand combination per pair); plus seeded "
                "random genes/pairs of 6-14 domains over all profile names of the code (sampled, shuffled input order); "
                "non-trivial = the input has a carrier protein and a starter/loader capable domain")
    ctx.notes["exhaustive_cases"] = exhaustive
    ctx.notes["random_cases"] = randoms
    ctx.notes["alphabet"] = everything
    ctx.assumptions += ["domain classes are taken from the code's own classify(); the check is about layout, not about "
                        "which profile belongs to which class",
                        "domains of one gene do not overlap (positions i*10..i*10+9); only the first subtype level is varied",
                        "a third carrier protein followed by another double-transporter tail is accepted as documented "
                        "double-transporter use",
                        "generate_domains (needs hmmscan) is not run: combine_modules is called the way it calls it"]


def replay(ctx, record):
    case = {"id": 0, "input": record["input"], "sampled": record.get("sampled", False)}
    event = _observe(case)
    res = ctx.validate("NrpsModules_Trace", [event], _ById([case], [event]))
    ctx.failures = [f for f in ctx.failures if f["op"] == record["op"] and f["clause"] == record["clause"]]
    return res
