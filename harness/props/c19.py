""" C19 - region overview layout data is complete, non-overlapping and in range.

    spec: Layout.tla (the relation between a region and the areas / genes / range drawn for it, stated on sets of
    drawing coordinates, with a constructive sorted first-fit reference layout); Layout_MC enumerates small records
    ("universes" in the shape of RecordSM), forms candidates and regions with the RecordSM / Candidates model and
    shows the relation satisfiable (and the reference optimal) on every region; three deliberately wrong layouts
    are negative controls. Every enumerated universe, plus seeded random larger ones, is built as a real Record
    (harness.recordsm.Driver: add genes / protoclusters / subregions, create candidates, create regions); for every
    region of it the real build_area_rows(region, L, circular) and js.convert_regions(record, options, {}) are
    called and projected; Layout_Trace (TLC) decides every observed layout.
"""

import argparse
import json
import random

from .. import tlc, tlaval, trace as tracemod
from ..batch import run_batches
from ..common import MachineryError

MC_CFG = """SPECIFICATION Spec
CONSTANTS
  LenSet = {%(lens)s}
  CoreSizes = {%(cores)s}
  HoodsL = {%(hoods)s}
  HoodsR = {%(hoods)s}
  Core2Sizes = {%(cores2)s}
  Hoods2 = {%(hoods2)s}
  SubSizes = {%(subs)s}
  SubStarts = {%(substarts)s}
  GeneSets = {%(genes)s}
INVARIANT %(invariants)s
"""
KIND = {"protocluster": "proto", "candidatecluster": "cand", "subregion": "sub"}
# kinds of region every enumerated run has to reach (accounting only; the verdicts are TLC's)
REQUIRED = ["linear_region", "circular_region_clear_of_origin", "region_over_origin:core_over_origin",
            "region_over_origin:right_neighbourhood_over_origin", "region_over_origin:left_neighbourhood_over_origin",
            "region_over_origin:subregion_over_origin", "region_over_origin:candidate_over_origin_drawn",
            "region_over_origin:area_after_origin", "whole_record_region:area_over_origin",
            "region_over_origin:gene_over_origin", "whole_record_region:gene_over_origin"]


def norm_loc(loc):
    return {"parts": [list(p) for p in loc["parts"]], "strand": loc["strand"]}


def norm_uni(uni):
    return {"L": uni["L"], "circ": uni["circ"],
            "genes": [{"loc": norm_loc(g["loc"]), "core_for": list(g["core_for"])} for g in uni["genes"]],
            "areas": [dict({"kind": a["kind"], "core": norm_loc(a["core"]), "extent": norm_loc(a["extent"]), "product": a["product"]},
                           **({"sideloaded": True} if a.get("sideloaded") else {}))
                      for a in uni["areas"]]}


def build_calls(uni):
    """ the RecordSM call sequence that builds the record of a universe """
    calls = [{"op": "AddGene", "arg": i + 1} for i in range(len(uni["genes"]))]
    calls += [{"op": "AddProto" if a["kind"] == "proto" else "AddSub", "arg": i + 1} for i, a in enumerate(uni["areas"])]
    if any(a["kind"] == "proto" for a in uni["areas"]):
        calls.append({"op": "CreateCandidates", "arg": 0})
    calls.append({"op": "CreateRegions", "arg": 0})
    return calls


# ---- projection (no judgement in here) ----------------------------------------------------------------------------
def _pieces(areas):
    """ the real area dicts -> pieces of Layout.tla; linked groups (python object ids) renumbered 1.. in order """
    groups = {}
    out = []
    for area in areas:
        group = area.get("group", 0)
        if group:
            group = groups.setdefault(group, len(groups) + 1)
        out.append({"kind": KIND.get(area["kind"], str(area["kind"])), "start": int(area["start"]), "end": int(area["end"]),
                    "ns": int(area.get("neighbouring_start", area["start"])),
                    "ne": int(area.get("neighbouring_end", area["end"])),
                    "row": int(area["height"]), "group": group})
    return out


def _orfs(orfs):
    groups = {}
    out = []
    for orf in orfs:
        group = orf.get("group", 0)
        if group:
            group = groups.setdefault(group, len(groups) + 1)
        out.append({"start": int(orf["start"]), "end": int(orf["end"]), "group": group})
    return out


def _region_input(region):
    from .. import project as P
    protos = {}
    for cand in region.candidate_clusters:
        for proto in cand.protoclusters:
            protos[id(proto)] = proto
    areas = [{"kind": "cand", "core": P.loc(c.location), "extent": P.loc(c.location), "single": str(c.kind) == "single"}
             for c in region.candidate_clusters]
    areas += [{"kind": "proto", "core": P.loc(p.core_location), "extent": P.loc(p.location), "single": False}
              for p in protos.values()]
    areas += [{"kind": "sub", "core": P.loc(s.location), "extent": P.loc(s.location), "single": False}
              for s in region.subregions]
    return {"loc": P.loc(region.location), "areas": areas, "genes": [P.loc(cds.location) for cds in region.cds_children]}


_TEMPLATES = {}


def _cache_templates():
    """ js.get_description compiles the tooltip template file once per gene (tens of ms each); the compiled template is
        kept per process instead. Nothing about coordinates depends on it. """
    from antismash.common import html_renderer
    real = html_renderer.FileTemplate
    if getattr(real, "verif_cached", False):
        return

    def cached(template_file, extra_paths=None):
        key = (template_file, tuple(extra_paths or ()))
        if key not in _TEMPLATES:
            _TEMPLATES[key] = real(template_file, extra_paths)
        return _TEMPLATES[key]
    cached.verif_cached = True
    html_renderer.FileTemplate = cached


def observe_universe(uni: dict) -> dict:
    """ Builds the record of the universe and observes the layout data of all its regions.
        Returns the event without id; {"built": False, "exc": ...} when the record cannot be built. """
    from .. import recordsm, project as P
    from antismash.outputs.html import js
    from antismash.outputs.html.area_packing import build_area_rows
    _cache_templates()
    driver = recordsm.Driver(uni)
    for call in build_calls(uni):
        exc = driver.apply(call)
        if exc:
            return {"built": False, "exc": f"{call['op']}: {exc}"}
    record = driver.record
    record.record_index = 1
    length = len(record.seq)
    circular = bool(record.is_circular())
    regions = []
    for region in record.get_regions():
        entry = _region_input(region)
        entry["rows"] = P.result(lambda region=region: _pieces(build_area_rows(region, length, circular=circular)), [])
        regions.append(entry)
    options = argparse.Namespace(all_enabled_modules=[], output_dir="/nonexistent", html_ncbi_context=False)
    overview = P.result(lambda: [{"start": int(r["start"]), "end": int(r["end"]), "orfs": _orfs(r["orfs"]),
                                  "clusters": _pieces(r["clusters"])} for r in js.convert_regions(record, options, {})], [])
    return {"built": True, "L": uni["L"], "circ": uni["circ"], "regions": regions, "ov": overview}


def observe_many(cases):
    out = []
    for case in cases:
        event = observe_universe(case["uni"])
        event["id"] = case["id"]
        if not event["built"]:
            # a record the real code refuses to build has no layout: an empty event (nothing to decide)
            event.update({"L": case["uni"]["L"], "circ": case["uni"]["circ"], "regions": [], "ov": {"exc": "", "v": []}})
        out.append(event)
    return out


# ---- features of the abstract input (never of the output) ---------------------------------------------------------
def _crosses(loc):
    return len(loc["parts"]) > 1


def _bases(loc):
    return sum(e - s for s, e in loc["parts"])


def features(uni):
    feats = ["circular" if uni["circ"] else "linear"]
    protos = [a for a in uni["areas"] if a["kind"] == "proto"]
    subs = [a for a in uni["areas"] if a["kind"] == "sub"]
    if any(_crosses(a["extent"]) for a in protos):
        feats.append("protocluster_over_origin")
    if any(_crosses(a["extent"]) and not _crosses(a["core"]) for a in protos):
        feats.append("protocluster_over_origin_core_on_one_side")
    if any(_crosses(a["core"]) for a in protos):
        feats.append("protocluster_core_over_origin")
    # the side of the origin the core lies on differs from what "core nearer the record end than the record start" says
    for area in protos:
        if _crosses(area["extent"]) and not _crosses(area["core"]):
            start, end = area["core"]["parts"][0]
            before_origin = start >= area["extent"]["parts"][0][0]
            if before_origin != (uni["L"] - start < end):
                feats.append("core_side_not_told_by_record_midpoint")
    if any(a.get("sideloaded") for a in protos):
        feats.append("sideloaded_protocluster")
    if any(_crosses(a["extent"]) for a in uni["areas"]):
        feats.append("area_over_origin")
    if len(uni["areas"]) >= 3:
        feats.append("three_or_more_areas")
    if any(_crosses(a["extent"]) for a in subs):
        feats.append("subregion_over_origin")
    if any(_crosses(g["loc"]) for g in uni["genes"]):
        feats.append("gene_over_origin")
    if any(_bases(a["extent"]) == uni["L"] for a in uni["areas"]):
        feats.append("area_is_whole_record")
    covered = set()
    for area in uni["areas"]:
        for start, end in area["extent"]["parts"]:
            covered.update(range(start, end))
    if uni["circ"] and len(covered) == uni["L"]:
        feats.append("areas_cover_circular_record")
    if len(protos) > 1:
        feats.append("several_protoclusters")
    if any(a["extent"] == b["extent"] and a["product"] != b["product"] for i, a in enumerate(protos) for b in protos[i + 1:]):
        feats.append("protoclusters_with_the_same_extent")
    return sorted(feats)


def categories(uni, event):
    """ which kinds of region this record exercises (coverage accounting, from the region inputs) """
    cats = set()
    length = uni["L"]
    for region in event["regions"]:
        loc = region["loc"]
        spanning = _crosses(loc)
        whole = uni["circ"] and not spanning and _bases(loc) == length
        if not uni["circ"]:
            cats.add("linear_region")
            continue
        if not spanning and not whole:
            cats.add("circular_region_clear_of_origin")
            continue
        tag = "region_over_origin" if spanning else "whole_record_region"
        for area in region["areas"]:
            if not _crosses(area["extent"]):
                if spanning and area["extent"]["parts"][0][1] <= loc["parts"][-1][1] and area["extent"]["parts"][0][0] < loc["parts"][0][0]:
                    cats.add(f"{tag}:area_after_origin")
                continue
            if whole:
                cats.add(f"{tag}:area_over_origin")
            if area["kind"] == "sub":
                cats.add(f"{tag}:subregion_over_origin")
            elif area["kind"] == "cand":
                if region_draws_candidate(region, area):
                    cats.add(f"{tag}:candidate_over_origin_drawn")
            elif _crosses(area["core"]):
                cats.add(f"{tag}:core_over_origin")
            elif area["core"]["parts"][0][0] >= area["extent"]["parts"][0][0]:
                cats.add(f"{tag}:right_neighbourhood_over_origin")
            else:
                cats.add(f"{tag}:left_neighbourhood_over_origin")
        if any(_crosses(g) for g in region["genes"]):
            cats.add(f"{tag}:gene_over_origin")
    return cats


def region_draws_candidate(region, area):
    return not area["single"] or any(a["kind"] == "sub" for a in region["areas"])


# ---- inputs ----------------------------------------------------------------------------------------------------------
def random_universe(rng):
    """ a record of 30-150 bases with 1-5 protoclusters (independent left / right neighbourhoods), 0-2 subregions and
        1-6 genes; on rings the areas are drawn towards the origin half of the time """
    circ = rng.random() < 0.8
    length = rng.choice([30, 40, 60, 100, 150])

    def arc(start, size):
        size = max(1, min(size, length))
        if size >= length:
            return {"parts": [[0, length]], "strand": 1}
        if circ:
            start %= length
            if start + size <= length:
                return {"parts": [[start, start + size]], "strand": 1}
            return {"parts": [[start, length], [0, start + size - length]], "strand": 1}
        start = max(0, min(start, length - size))
        return {"parts": [[start, start + size]], "strand": 1}

    def place(size):
        if circ and rng.random() < 0.5:
            return rng.randrange(length - 2 * size - 4, length + 4)
        return rng.randrange(0, length)

    areas = []
    products = ["a", "b", "c", "d"]
    for _ in range(rng.randrange(1, 6)):
        if rng.random() < 0.25 and len([a for a in areas if a["kind"] == "sub"]) < 2:
            size = rng.randrange(2, max(3, length // 2))
            if rng.random() < 0.08:
                size = length
            ext = arc(place(size), size)
            areas.append({"kind": "sub", "core": ext, "extent": ext, "product": "sub"})
            continue
        size = rng.randrange(1, length // 8 + 3)
        start = place(size)
        left = rng.randrange(0, length // 4)
        right = rng.randrange(0, length // 4)
        pick = rng.random()
        if pick < 0.08:
            left = right = length
        elif pick < 0.2:
            left = rng.randrange(0, (3 * length) // 4)
        elif pick < 0.32:
            right = rng.randrange(0, (3 * length) // 4)
        core = arc(start, size)
        if circ:
            extent = arc(start - left, size + left + right)
        else:
            first = max(0, core["parts"][0][0] - left)
            last = min(length, core["parts"][0][1] + right)
            extent = {"parts": [[first, last]], "strand": 1}
        if _crosses(core) and not _crosses(extent):
            continue    # Protocluster() refuses a core over the origin in a one-part extent
        areas.append({"kind": "proto", "core": core, "extent": extent, "product": rng.choice(products)})
    if not areas:
        ext = arc(rng.randrange(0, length), 5)
        areas.append({"kind": "sub", "core": ext, "extent": ext, "product": "sub"})
    genes = []
    for _ in range(rng.randrange(1, 7)):
        size = rng.randrange(1, 7)
        loc = arc(place(size), size)
        loc["strand"] = rng.choice([1, -1])
        if loc["strand"] == -1:
            loc["parts"] = loc["parts"][::-1]
        if all(g["loc"] != loc for g in genes):
            genes.append({"loc": loc, "core_for": sorted(rng.sample(products, rng.randrange(0, 3)))})
    return {"L": length, "circ": circ, "genes": genes, "areas": areas}


def wrapped_and_row_universe(rng):
    """ a ring with one region over the origin: a protocluster that starts in the first half of the record and reaches
        over the origin, and behind the origin a row of two protoclusters that do not overlap each other, tied together
        by a third; the first of the row usually overlaps the tail of the origin-spanning one """
    length = rng.choice([60, 100, 150])
    unit = length // 30
    start = rng.randrange(length // 3, length // 2)
    tail = rng.randrange(2 * unit, 4 * unit)
    core_start = rng.randrange(start + 1, start + 6 * unit)
    wrapped = {"kind": "proto", "core": _span(core_start, core_start + rng.randrange(1, 3 * unit)),
               "extent": {"parts": [[start, length], [0, tail]], "strand": 1}, "product": "a"}
    f_start = rng.randrange(max(0, tail - 2 * unit), tail + rng.choice([0, 0, 0, unit]))
    f_end = max(f_start + 2, tail + rng.randrange(0, 2 * unit))
    s_start = f_end + rng.randrange(1, 2 * unit)
    s_end = s_start + rng.randrange(2, 3 * unit)
    b_start = rng.randrange(f_start + 1, f_end)
    b_end = rng.randrange(s_start + 1, s_end + 1)

    def proto(first, last, product):
        core = rng.randrange(first, last)
        return {"kind": "proto", "core": _span(core, min(last, core + 1)), "extent": _span(first, last), "product": product}

    areas = [proto(f_start, f_end, "b"), proto(b_start, b_end, "c"), proto(s_start, s_end, "d"), wrapped]
    rng.shuffle(areas)
    genes = [{"loc": dict(_span(core_start, core_start + 1), strand=1), "core_for": ["a"]}]
    return {"L": length, "circ": True, "genes": genes, "areas": areas}


def twin_extent_universe(rng):
    """ two protoclusters of different products with the same core and the same extent (what two rules firing on the
        same genes with the same neighbourhood give), and a third whose extent overlaps theirs without its core touching
        theirs: the twins then belong to two candidates of the one region (their own and the neighbouring one); on rings
        the whole arrangement is sometimes pushed over the origin """
    circ = rng.random() < 0.6
    length = rng.choice([60, 100, 150])
    unit = length // 30
    base = rng.randrange(2 * unit, length // 3)
    ext_end = base + rng.randrange(6 * unit, 10 * unit)
    core_start = base + rng.randrange(1, 3 * unit)
    core_end = core_start + rng.randrange(1, 2 * unit + 1)
    third_start = rng.randrange(core_end + 1, ext_end)
    third_end = third_start + rng.randrange(3 * unit, 8 * unit)
    third_core = rng.randrange(max(third_start, core_end + 1), third_end - 1)
    shift = 0
    if circ and rng.random() < 0.6:
        shift = length - rng.randrange(base + 1, third_end)

    def span(start, end):
        start, end = start + shift, end + shift
        if not circ or end <= length:
            return _span(start, end)
        if start >= length:
            return _span(start - length, end - length)
        return _over(start, length, end - length)

    core = span(core_start, core_end)
    extent = span(base, ext_end)
    areas = [{"kind": "proto", "core": core, "extent": extent, "product": "a"},
             {"kind": "proto", "core": dict(core), "extent": dict(extent), "product": "b"},
             {"kind": "proto", "core": span(third_core, third_core + 1), "extent": span(third_start, third_end), "product": "c"}]
    areas = [a for a in areas if not (_crosses(a["core"]) and not _crosses(a["extent"]))]
    rng.shuffle(areas)
    shared = rng.random() < 0.5     # one gene defining both twins (a chemical hybrid) or none (interleaved)
    gene = span(core_start, core_start + 1)
    genes = [{"loc": dict(gene, strand=1), "core_for": ["a", "b"] if shared else []},
             {"loc": dict(span(third_core, third_core + 1), strand=-1), "core_for": ["c"]}]
    return {"L": length, "circ": circ, "genes": genes, "areas": areas}


def _span(start, end):
    return {"parts": [[start, end]], "strand": 1}


def _over(start, length, end):
    return {"parts": [[start, length], [0, end]], "strand": 1}


CANARY_A = {"L": 100, "circ": True,       # region over the origin: subregion over it, protocluster and genes after / over it
            "genes": [{"loc": _over(98, 100, 3), "core_for": []}, {"loc": _span(12, 14), "core_for": ["a"]}],
            "areas": [{"kind": "sub", "core": _over(90, 100, 30), "extent": _over(90, 100, 30), "product": "sub"},
                      {"kind": "proto", "core": _span(10, 15), "extent": _span(5, 25), "product": "a"}]}
CANARY_B = {"L": 20, "circ": True,        # whole-record region of a ring: subregion and gene split at the origin
            "genes": [{"loc": _over(18, 20, 2), "core_for": []}],
            "areas": [{"kind": "sub", "core": _span(0, 20), "extent": _span(0, 20), "product": "sub"},
                      {"kind": "sub", "core": _over(15, 20, 5), "extent": _over(15, 20, 5), "product": "sub"}]}


def _canary(ctx):
    """ the binding is real: the observations of two real records are accepted as they are and rejected by Layout_Trace
        once a single logged field is corrupted (machinery failure otherwise) """
    bases = []
    for uni in (CANARY_A, CANARY_B):
        event = observe_universe(uni)
        if not event.pop("built"):
            ctx.notes["canary"] = f"skipped: canary record could not be built: {event}"
            return
        bases.append(event)
    events = []

    def add(base, change=None):
        event = json.loads(json.dumps(base))
        event["id"] = len(events)
        if change:
            try:
                change(event)
            except (IndexError, KeyError, ValueError):
                # the real observation does not have the shape this corruption starts from: it is itself wrong and
                # will be rejected in the main run; nothing to corrupt here
                return -1 - len(events)
        events.append(event)
        return event["id"]

    def rows(event):
        return event["regions"][0]["rows"]["v"]

    def piece(event, kind, which=0):
        return [p for p in rows(event) if p["kind"] == kind][which]

    def shift(target, keys, by):
        for key in keys:
            target[key] += by

    first, second = bases
    if len(first["regions"]) != 1 or len(second["regions"]) != 1 or first["ov"]["exc"] or second["ov"]["exc"]:
        # the real observation is itself wrong; the main run rejects it (the same records are among the sampled cases)
        ctx.notes["canary"] = "skipped: the canary records did not give one region with an overview each"
        return
    clean = [add(first), add(second)]
    corrupted = {}
    corrupted[add(first, lambda ev: shift(piece(ev, "sub"), ["ns"], -1))] = "extent one base longer"
    corrupted[add(first, lambda ev: [p.update(row=0) for p in rows(ev)] and None)] = "all areas on one row"
    corrupted[add(first, lambda ev: rows(ev).remove(piece(ev, "proto")))] = "protocluster not drawn"
    corrupted[add(first, lambda ev: rows(ev).append(dict(piece(ev, "sub"), row=50)))] = "subregion drawn twice"
    corrupted[add(first, lambda ev: shift(piece(ev, "proto"), ["start", "end", "ns", "ne"], -100))] = "area after the origin not shifted"
    corrupted[add(first, lambda ev: piece(ev, "proto").update(start=piece(ev, "proto")["ns"] - 1))] = "core outside its extent"
    corrupted[add(first, lambda ev: ev["regions"][0]["rows"].update(exc="ValueError", v=[]))] = "exception"
    corrupted[add(first, lambda ev: shift(ev["ov"]["v"][0], ["end"], -100))] = "announced end not continued past L"
    corrupted[add(first, lambda ev: shift(ev["ov"]["v"][0], ["start"], 5))] = "announced start moved"
    corrupted[add(first, lambda ev: shift(max(ev["ov"]["v"][0]["orfs"], key=lambda o: o["end"]), ["end"], -100))] = "gene over the origin not extended"
    corrupted[add(first, lambda ev: ev["ov"]["v"][0]["orfs"].pop())] = "gene not drawn"
    corrupted[add(first, lambda ev: shift(ev["ov"]["v"][0]["clusters"][0], ["ns", "ne", "start", "end"], 40))] = "embedded layout differs and is wrong"
    corrupted[add(second, lambda ev: rows(ev).remove([p for p in rows(ev) if p["group"]][1]))] = "second half of a split area lost"
    corrupted[add(second, lambda ev: [p for p in rows(ev) if p["group"]][0].update(group=0))] = "halves not linked"
    corrupted[add(second, lambda ev: ev["ov"]["v"][0]["orfs"].remove([o for o in ev["ov"]["v"][0]["orfs"] if o["group"]][1]))] = "second half of a split gene lost"
    corrupted[add(second, lambda ev: [p for p in rows(ev) if p["group"]][0].update(ne=19))] = "half does not reach the origin"
    res = tracemod.validate("Layout_Trace", events, ctx.workdir, shards=1)
    wrongly_rejected = [ident for ident in clean if ident in res.rejects]
    if wrongly_rejected:
        ctx.notes["canary"] = f"skipped: the uncorrupted canary observations are rejected: {res.rejects}"
        return
    missed = [what for ident, what in corrupted.items() if ident >= 0 and ident not in res.rejects]
    if missed:
        raise MachineryError(f"corrupted observations were accepted by Layout_Trace: {missed}")
    ctx.notes["canary"] = {what: sorted(set(res.rejects[ident])) if ident >= 0 else "not applicable"
                           for ident, what in corrupted.items()}



def call_text(uni):
    return f"harness.props.c19.observe_universe({uni})"


def _mc(ctx, params, invariants, tag):
    cfg = MC_CFG % dict(params, invariants="\nINVARIANT ".join(invariants))
    return tlc.run("Layout_MC", cfg, ctx.workdir, dump=not tag, tag=tag, timeout=3000, heap="4g")


def run(ctx):
    rng = random.Random(ctx.seed)
    if ctx.quick:
        params = {"lens": "7", "cores": "1, 2", "hoods": "0, 2, 5", "cores2": "1", "hoods2": "0, 2", "subs": "3",
                  "substarts": "0, 2, 5, 6", "genes": "3"}
        randoms = 4000
    else:
        params = {"lens": "7, 8", "cores": "1, 2", "hoods": "0, 2, 5", "cores2": "1", "hoods2": "0, 2, 3", "subs": "2, 4",
                  "substarts": "0, 1, 2, 3, 4, 5, 6, 7", "genes": "3"}
        randoms = 150000
    mc = _mc(ctx, params, ["RefSatisfiesAndMinimal", "ImplRepairedSatisfies"], "")
    ctx.model(mc, "Layout_MC: on every region of every universe the reference layout satisfies the relation and is row-optimal, and "
                  "the implementation-shaped model of adjust_cross_origin_area with the repaired branches satisfies the relation")
    for invariant, what in (("NoShiftAccepted", "layout without the +L shift after the origin"),
                            ("OneRowAccepted", "all areas on one row"),
                            ("DropLinkedAccepted", "second half of a split area dropped"),
                            ("ImplAsFoundSatisfies", "implementation-shaped model with the branches as found (hasattr core test, "
                                                     "midpoint guess): TLC exhibits P19 on the model")):
        neg = _mc(ctx, params, [invariant], "_" + invariant)
        ctx.expect_violation(neg, invariant, f"negative control: {what}")
    strict = _mc(ctx, dict(params, lens="7", hoods="0, 2", hoods2="2", substarts="0, 5", genes="1"),
                 ["NoShiftRejectedWhereSpanning"], "_strict")
    ctx.model(strict, "Layout_MC: the unshifted layout is rejected on every region over the origin (small universes)")

    _canary(ctx)

    cases = []
    for state in tlaval.read_dump(mc.dump_path):
        if state["stage"] != 2:
            continue
        cases.append({"uni": norm_uni(state["u"]), "sampled": False})
    if not cases:
        raise MachineryError("Layout_MC produced no universes")
    cases.sort(key=lambda c: str(c["uni"]))
    cases += [{"uni": CANARY_A, "sampled": False}, {"uni": CANARY_B, "sampled": False}]
    enumerated = len(cases)
    for _ in range(randoms):
        cases.append({"uni": random_universe(rng), "sampled": True})
    for _ in range(randoms // 10):
        cases.append({"uni": wrapped_and_row_universe(rng), "sampled": True})
    for _ in range(randoms // 20):
        cases.append({"uni": twin_extent_universe(rng), "sampled": True})
    # externally annotated protoclusters (SideloadedProtocluster): the same shapes, drawn by their own generator so that the
    # universes above stay what they were
    side_rng = random.Random(ctx.seed + 104729)
    for idx in range(randoms // 5):
        uni = wrapped_and_row_universe(side_rng) if idx % 4 == 3 else random_universe(side_rng)
        uni = norm_uni(uni)
        protos = [a for a in uni["areas"] if a["kind"] == "proto"]
        for area in protos:
            if side_rng.random() < 0.6:
                area["sideloaded"] = True
        if protos and not any(a.get("sideloaded") for a in protos):
            protos[0]["sideloaded"] = True
        cases.append({"uni": uni, "sampled": True})
    for idx, case in enumerate(cases):
        case["id"] = idx

    seen = {"enumerated": {}, "sampled": {}}
    stats = {"records_not_built": 0, "regions": 0, "drawn_areas": 0, "drawn_genes": 0, "not_built_examples": []}
    samples = {}

    def describe(case, event):
        built = event.pop("built")
        exc = event.pop("exc", "")
        if not built:
            stats["records_not_built"] += 1
            if len(stats["not_built_examples"]) < 5:
                stats["not_built_examples"].append({"uni": case["uni"], "exc": exc})
        cats = categories(case["uni"], event)
        bucket = seen["sampled" if case["sampled"] else "enumerated"]
        for cat in cats:
            bucket[cat] = bucket.get(cat, 0) + 1
        if any(not cat.startswith(("linear", "circular_region")) for cat in cats):
            ctx.nontrivial_case(case["id"])
        stats["regions"] += len(event["regions"])
        stats["drawn_areas"] += sum(len(r["rows"]["v"]) for r in event["regions"])
        stats["drawn_genes"] += sum(len(o["orfs"]) for o in event["ov"]["v"])
        observed = {"rows": [r["rows"] for r in event["regions"]], "overview": event["ov"]}
        if case["id"] in (0, enumerated // 2, enumerated - 1) or (case["sampled"] and len(samples) < 5 and cats - {"linear_region"}):
            samples[case["id"]] = {"universe": case["uni"], "regions": [r["loc"] for r in event["regions"]], "observed": observed}
        return {"op": "layout", "input": {"uni": case["uni"]}, "call": call_text(case["uni"]), "observed": observed,
                "features": features(case["uni"]), "sampled": case["sampled"]}

    ctx.evaluations = len(cases)
    run_batches(ctx, "Layout_Trace", cases, observe_many, describe, batch=30000, min_per_shard=150)
    missing = [cat for cat in REQUIRED if not seen["enumerated"].get(cat)]
    if missing:
        raise MachineryError(f"vacuous enumeration: no real region of kind {missing} among the replayed universes")
    if stats["records_not_built"] * 5 > len(cases):
        raise MachineryError(f"{stats['records_not_built']} of {len(cases)} records could not be built: "
                             f"{stats['not_built_examples'][:2]}")
    for ident in sorted(samples):
        ctx.sample(samples[ident], limit=6)
    ctx.exhaustive = True
    ctx.rule = ("TLC enumerates every record of the listed lengths (line and ring) holding no, one or two protoclusters (first: every "
                "core arc of the listed sizes incl. over the origin with independent left and right neighbourhoods of every listed "
                "width - none / reaching over the origin on either side / whole record; second: every listed core with a symmetric "
                "neighbourhood), no or one subregion (arcs of the listed sizes and starts incl. over the origin, or the whole record) "
                "and the gene set (plain genes incl. one over the origin and one reverse, one core gene per protocluster annotated "
                "for both products so that overlapping cores form chemical hybrids, a reverse gene over the origin); every such record "
                "is built for real and every region of it laid out by build_area_rows and js.convert_regions; plus seeded random records of 30-150 bases (1-5 areas with independent "
                "left/right neighbourhoods, 1-6 genes, areas drawn to the origin half of the time); non-trivial = the record has "
                "a region over the origin or a whole-record region of a ring")
    ctx.notes.update({"enumerated_universes": enumerated, "random_universes": len(cases) - enumerated,
                      "regions_laid_out": stats["regions"], "drawn_areas": stats["drawn_areas"], "drawn_genes": stats["drawn_genes"],
                      "records_not_built": stats["records_not_built"], "not_built_examples": stats["not_built_examples"][:3],
                      "region_kinds_enumerated": dict(sorted(seen["enumerated"].items())),
                      "region_kinds_sampled": dict(sorted(seen["sampled"].items())), "mc_params": params})
    ctx.assumptions += ["areas: 0-based half-open [neighbouring_start, neighbouring_end) / [start, end); genes: 1-based start, inclusive "
                        "end; the announced start may be either reading of the region start (the code prints start+1 for ordinary "
                        "regions and the 0-based start for regions over the origin)",
                        "two areas touching end-to-start on one row do not overlap",
                        "sandwich (DESIGN 5): candidates that are not 'single' are drawn exactly once, 'single' ones at most once",
                        "an area over the origin that covers the whole record may be drawn in one piece or as two linked halves",
                        "js.get_description compiles the tooltip template once per gene; the harness keeps the compiled template per "
                        "process (html_renderer.FileTemplate wrapped by a cache), nothing about coordinates depends on it",
                        "records the real code refuses to build (exception from add_* / create_*) have no layout and are counted in "
                        "records_not_built; candidate and region formation themselves are C05 / C06"]


def replay(ctx, record):
    case = {"id": 0, "uni": record["input"]["uni"]}
    events = observe_many([case])
    for event in events:
        event.pop("built")
        event.pop("exc", None)
    observed = {"rows": [r["rows"] for r in events[0]["regions"]], "overview": events[0]["ov"]}
    ctx.validate("Layout_Trace", events, {0: {"op": record["op"], "input": record["input"], "call": call_text(case["uni"]),
                                              "observed": observed}})
    ctx.failures = [f for f in ctx.failures if f["op"] == record["op"] and f["clause"] == record["clause"]]
