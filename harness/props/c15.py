""" C15 - ORF scanning finds exactly the open reading frames of the searched sequence.

    spec: Orfs.tla; model run: Orfs_MC (the declarative OrfsOf against a sweep-shaped model, the
    coordinate mapping / extraction operators against each other; its stage-2 states are the
    strings replayed); binding: every enumerated string is run through scan_orfs on both strands
    with windows inside / touching / crossing the origin / filling the record and the bundle of
    observed locations (plus what Biopython extracts through them) is decided by TLC in
    Orfs_Trace; find_intergenic_areas on gene layouts and find_all_orfs on real records with
    genes and areas are decided the same way.  No oracle on the python side.
"""

import itertools
import random
from concurrent.futures import ThreadPoolExecutor

from .. import tlc, tlaval
from ..common import chunks, pmap, CPUS
from .. import project as P

ALPHA = "ACGTNacgtnRY"
COMP = {0: 3, 3: 0, 1: 2, 2: 1, 4: 4, 5: 8, 8: 5, 6: 7, 7: 6, 9: 9, 10: 11, 11: 10}
NO_AREA = {"parts": [], "strand": 1}

MC_CFG = """SPECIFICATION Spec
CONSTANTS
  Tokens <- MC_Tokens
  MaxTokens = %(max)d
INVARIANT ScanAgrees
INVARIANT OrfsSeparate
INVARIANT OrfsAreOrfStrings
INVARIANT RevCompInvolution
INVARIANT MinSandwich
INVARIANT MappingSat
INVARIANT ProteinShape
"""
NEG_CFG = """SPECIFICATION Spec
CONSTANTS
  Tokens <- MC_Tokens
  MaxTokens = %(max)d
INVARIANT %(inv)s
"""
WRAPPER = """---- MODULE %(name)s ----
EXTENDS Orfs_MC
MC_Tokens == %(tokens)s
====
"""
# single bases A, G, T: every start and stop codon is over this alphabet
BASE_TOKENS = [[0], [2], [3]]
# ATG TTG TAA TGA, a neutral codon GAC and a one-base frame shift: several ORFs per string, same and different frames
CODON_TOKENS = [[0, 3, 2], [3, 3, 2], [3, 0, 0], [3, 2, 0], [2, 0, 1], [0]]


def _wrapper(name, tokens):
    return {f"{name}.tla": WRAPPER % {"name": name, "tokens": tlaval.to_tla(set_of(tokens))}}


def set_of(tokens):
    return tlaval.TSet(tuple(tok) for tok in tokens)


def text(codes) -> str:
    return "".join(ALPHA[c] for c in codes)


def codes(string) -> list:
    return [ALPHA.index(ch) for ch in string]


def revcomp(cds) -> list:
    return [COMP[c] for c in reversed(cds)]


# ---- scan_orfs: calls per string ----------------------------------------------------------------
def _placements(n):
    """ (offset, record length); 0 = no record length given """
    return [(0, 0), (5, 0), (2, n + 4), (0, n + 2), (2, n + 2), (4, n + 2), (n + 1, n + 2),
            (0, n), (1, n), (n - 1, n), (-2, n + 3)]


def _calls(n, rich):
    calls = []
    for direction in (1, -1):
        if not rich:
            for off, rlen in ((0, 0), (1, n), (n + 1, n + 2)):
                calls.append({"d": direction, "off": off, "rl": rlen, "min": 0})
            continue
        for off, rlen in _placements(n):
            calls.append({"d": direction, "off": off, "rl": rlen, "min": 0})
        for off, rlen in ((1, n), (4, n + 2), (2, n + 4)):
            calls.append({"d": direction, "off": off, "rl": rlen, "min": 6})
        for minimum in (5, 6, 7, 9, 10, 12):
            calls.append({"d": direction, "off": 0, "rl": 0, "min": minimum})
    return calls


def _scan_features(seq, call):
    n = len(seq)
    up = text(seq).upper()
    feats = ["forward_strand" if call["d"] == 1 else "reverse_strand"]
    if call["rl"] == 0:
        feats.append("no_record_length")
    else:
        if call["rl"] == n:
            feats.append("window_is_whole_record")
        if call["off"] % call["rl"] != 0:
            feats.append("window_not_at_record_start")
        if call["off"] < 0 or call["off"] + n > call["rl"]:
            feats.append("window_crosses_origin")
    if n % 3 == 0 and n >= 6 and up[:3] in ("ATG", "GTG", "TTG") and up[-3:] in ("TAA", "TAG", "TGA"):
        feats.append("string_runs_start_to_stop")
    if any(c not in (0, 2, 3) for c in seq):
        feats.append("beyond_ATG_alphabet")
    return sorted(feats)


def _scan_call_text(seq, call):
    string = text(seq)
    return (f"scan_orfs({string!r}, {call['d']}, offset={call['off']}, minimum_length={call['min']}, "
            f"record_length={call['rl'] or None})")


def _observe_scan(case):
    from .. import build  # noqa: F401  pylint: disable=unused-import,import-outside-toplevel
    from antismash.common.all_orfs import scan_orfs  # pylint: disable=import-outside-toplevel
    from Bio.Seq import Seq  # pylint: disable=import-outside-toplevel
    seq = case["s"]
    n = len(seq)
    string = text(seq)
    event = {"id": case["id"], "op": "scan", "s": seq, "calls": []}
    for call in case["calls"]:
        direction, off, rlen = call["d"], call["off"], call["rl"]
        raw = []

        def run(direction=direction, off=off, rlen=rlen, minimum=call["min"], raw=raw):
            raw[:] = scan_orfs(string, direction, off, minimum, rlen or None)
            return raw
        res = P.result(run, [], lambda locs: [P.loc(x) for x in locs])
        # a record carrying the window at the offset, to see what the reported locations extract
        window = seq if direction == 1 else revcomp(seq)
        length = rlen or (off + n + 2)
        rec = [1] * length
        for pos, base in enumerate(window):
            rec[(off + pos) % length] = base
        rec_seq = Seq(text(rec))
        ext = []
        if not res["exc"]:
            for loc in raw:
                try:
                    ext.append(codes(str(loc.extract(rec_seq))))
                except Exception:  # pylint: disable=broad-except
                    ext.append([])
        out = dict(call)
        out["r"] = res
        out["ext"] = ext
        event["calls"].append(out)
    return event


# ---- find_intergenic_areas ------------------------------------------------------------------------
def _observe_gaps(case):
    from .. import build  # noqa: F401  pylint: disable=unused-import,import-outside-toplevel
    from antismash.common.all_orfs import find_intergenic_areas  # pylint: disable=import-outside-toplevel
    from antismash.common.secmet.test.helpers import DummyCDS, DummyRecord  # pylint: disable=import-outside-toplevel
    record = DummyRecord(seq="A" * case["L"])
    for idx, (start, end, strand) in enumerate(case["genes"]):
        record.add_cds_feature(DummyCDS(start, end, strand=strand, locus_tag=f"g{idx}"))
    event = dict(case)
    event["res"] = P.result(lambda: find_intergenic_areas(case["ws"], case["we"], record.get_cds_features(),
                                                          min_length=case["min"], padding=case["pad"]),
                            [], lambda areas: [[int(a), int(b)] for a, b in areas])
    return event


def _gaps_features(case):
    genes = case["genes"]
    feats = [f"overlap_{'zero' if case['pad'] == 0 else 'positive'}"]
    for one, two in itertools.permutations(genes, 2):
        if one[0] <= two[0] and two[1] <= one[1]:
            feats.append("gene_nested_in_gene")
        elif one[0] < two[0] < one[1] < two[1]:
            feats.append("genes_overlap")
    if any(g[1] - g[0] < 2 * case["pad"] for g in genes):
        feats.append("gene_shorter_than_twice_padding")
    if any(g[0] < case["ws"] < g[1] or g[0] < case["we"] < g[1] for g in genes):
        feats.append("gene_across_window_edge")
    return sorted(set(feats))


def _gaps_call_text(case):
    genes = ", ".join(f"DummyCDS({s}, {e}, strand={d})" for s, e, d in case["genes"])
    return (f"find_intergenic_areas({case['ws']}, {case['we']}, sorted([{genes}]), min_length={case['min']}, "
            f"padding={case['pad']})")


# ---- find_all_orfs -------------------------------------------------------------------------------
def _build_record(case):
    from .. import build as B  # pylint: disable=import-outside-toplevel
    from antismash.common.secmet.features import SubRegion  # pylint: disable=import-outside-toplevel
    from antismash.common.secmet.test.helpers import DummyCDS, DummyRecord  # pylint: disable=import-outside-toplevel
    record = DummyRecord(seq=text(case["rec"]), circular=case["circ"])
    for idx, gene in enumerate(case["genes"]):
        record.add_cds_feature(DummyCDS(location=B.loc(gene), locus_tag=f"g{idx}"))
    area = None
    if case["area"]["parts"]:
        area = SubRegion(B.loc(case["area"]), tool="test")
        record.add_subregion(area)
    return record, area


def _observe_all(case):
    from antismash.common.all_orfs import find_all_orfs  # pylint: disable=import-outside-toplevel
    event = dict(case)

    def run():
        record, area = _build_record(case)
        return find_all_orfs(record, area, min_length=case["min"], max_overlap=case["ovl"])
    event["res"] = P.result(run, [], lambda feats: [{"loc": P.loc(f.location), "tr": [ord(c) for c in f.translation]}
                                                     for f in feats])
    return event


def _bridging(loc):
    fwd = loc["parts"][::-1] if loc["strand"] == -1 else loc["parts"]
    return any(fwd[i][0] > fwd[i + 1][0] for i in range(len(fwd) - 1))


def _hull(loc):
    return min(p[0] for p in loc["parts"]), max(p[1] for p in loc["parts"])


def _all_features(case):
    feats = ["circular" if case["circ"] else "linear"]
    area = case["area"]
    feats.append("whole_record" if not area["parts"] else ("area_crosses_origin" if _bridging(area) else "area_simple"))
    if area["parts"]:
        feats.append("area_given")
    genes = case["genes"]
    if not genes:
        feats.append("no_genes")
    if any(_bridging(g) for g in genes):
        feats.append("gene_spans_origin")
    if any(len(g["parts"]) > 1 and not _bridging(g) for g in genes):
        feats.append("gene_multi_exon")
    for one, two in itertools.permutations(genes, 2):
        (s1, e1), (s2, e2) = _hull(one), _hull(two)
        if s1 <= s2 and e2 <= e1:
            feats.append("gene_nested_in_gene")
        elif s1 < s2 < e1 < e2:
            feats.append("genes_overlap")
    feats.append("overlap_zero" if case["ovl"] == 0 else "overlap_positive")
    if 2 * case["ovl"] >= case["min"]:
        feats.append("twice_overlap_reaches_minimum")
    if any(c > 3 for c in case["rec"]):
        feats.append("beyond_ACGT")
    return sorted(set(feats))


def _all_call_text(case):
    area = "None" if not case["area"]["parts"] else f"SubRegion(build.loc({case['area']}), tool='test')"
    return (f"rec=DummyRecord(seq={text(case['rec'])!r}, circular={case['circ']}); "
            f"[rec.add_cds_feature(DummyCDS(location=build.loc(g), locus_tag=f'g{{i}}')) for i, g in enumerate({case['genes']})]; "
            f"area={area}; find_all_orfs(rec, area, min_length={case['min']}, max_overlap={case['ovl']})")


# ---- dispatch (worker processes) ------------------------------------------------------------------
def _observe(case):
    if case["op"] == "scan":
        return _observe_scan(case)
    if case["op"] == "gaps":
        return _observe_gaps(case)
    if case["op"] == "all":
        return _observe_all(case)
    raise ValueError(case["op"])


def _observe_many(cases):
    return [_observe(case) for case in cases]


# ---- case construction ---------------------------------------------------------------------------
CODON_SOUP = ["ATG", "GTG", "TTG", "TAA", "TAG", "TGA", "CAT", "CAC", "CAA", "TTA", "CTA", "TCA",
              "GCC", "AAA", "CTG", "NNN", "GAN", "TAN", "ACG", "CGT"]


def _random_string(rng, length):
    out = ""
    while len(out) < length:
        pick = rng.random()
        if pick < 0.80:
            out += rng.choice(CODON_SOUP)
        elif pick < 0.92:
            out += rng.choice("ACGT")
        else:
            out += rng.choice("ACGTN")
    out = out[:length]
    chars = list(out)
    for idx in range(len(chars)):
        if rng.random() < 0.08:
            chars[idx] = chars[idx].lower()
    return "".join(chars)


def _variants(rng, seq, count):
    """ enumerated ATG-strings with C / N / lower case / R / Y at sampled positions """
    out = []
    for _ in range(count):
        new = list(seq)
        for _ in range(rng.choice([1, 1, 2, 3])):
            pos = rng.randrange(len(new))
            kind = rng.random()
            if kind < 0.4:
                new[pos] = new[pos] + 5 if new[pos] < 5 else new[pos]        # lower case of the same base
            elif kind < 0.6:
                new[pos] = 4                                                   # N
            elif kind < 0.8:
                new[pos] = 1                                                   # C
            else:
                new[pos] = rng.choice([6, 9, 10, 11])                         # c n R Y
        out.append(new)
    return out


def _random_loc(rng, length, circ, shortest):
    """ a gene of at least `shortest` bases from first to last base (genes are assumed longer than twice the allowed
        overlap: with shorter ones the padded gaps on either side of a gene overlap each other) """
    while True:
        strand = rng.choice([1, -1])
        kind = rng.random()
        if circ and kind < 0.2:
            start = rng.randrange(length - 8, length - 1)
            end = rng.randrange(2, 9)
            parts = [[start, length], [0, end]]
            extent = length - start + end
            extra = rng.random()
            if extra < 0.2:
                # a further exon in front of the origin
                first = rng.randrange(start - 7, start - 3)
                parts = [[first, rng.randrange(first + 1, start - 1)]] + parts
                extent += start - first
            elif extra < 0.4:
                # a further exon behind the origin
                last = rng.randrange(end + 4, end + 8)
                parts = parts + [[rng.randrange(end + 2, last), last]]
                extent += last - end
        elif kind < 0.35:
            cuts = sorted(rng.sample(range(0, length + 1), 4))
            parts = [[cuts[0], cuts[1]], [cuts[2], cuts[3]]]
            extent = cuts[3] - cuts[0]
        else:
            start = rng.randrange(0, length - 3)
            end = min(length, start + rng.randrange(3, 16))
            parts = [[start, end]]
            extent = end - start
        if extent >= shortest:
            break
    if strand == -1:
        parts = parts[::-1]
    return {"parts": parts, "strand": strand}


def _planted_record(rng, length):
    """ background without start codons (so that most ORFs are the planted ones), then ORFs of either strand planted
        at random places, possibly overlapping each other or the origin region, plus a little noise """
    rec = [rng.choice([0, 1, 1, 0, 4]) for _ in range(length)]
    for _ in range(rng.choice([1, 2, 2, 3])):
        inner = [rng.choice([[2, 1, 1], [0, 0, 0], [1, 3, 2], [4, 4, 4], [2, 0, 4], [0, 1, 2]]) for _ in range(rng.randrange(0, 5))]
        orf = codes(rng.choice(["ATG", "GTG", "TTG"])) + [b for codon in inner for b in codon] + codes(rng.choice(["TAA", "TAG", "TGA"]))
        if rng.random() < 0.5:
            orf = revcomp(orf)
        start = rng.randrange(0, length)
        for pos, base in enumerate(orf):
            if start + pos < length:
                rec[start + pos] = base
            elif rng.random() < 2:      # wraps around (meaningful on circular records)
                rec[(start + pos) % length] = base
    for idx in range(length):
        roll = rng.random()
        if roll < 0.04:
            rec[idx] = rng.choice([0, 1, 2, 3])
        elif roll < 0.10 and rec[idx] < 5:
            rec[idx] += 5
    return rec


def _spliced_crossing_gene(rng, length):
    """ a gene over the origin with a further exon on one side of it (three parts), on either strand """
    start = rng.randrange(length - 6, length - 1)
    end = rng.randrange(2, 6)
    if rng.random() < 0.5:
        first = rng.randrange(start - 8, start - 4)
        parts = [[first, rng.randrange(first + 2, start - 1)], [start, length], [0, end]]
    else:
        last = rng.randrange(end + 5, end + 10)
        parts = [[start, length], [0, end], [rng.randrange(end + 2, last - 1), last]]
    strand = rng.choice([1, -1])
    return {"parts": parts[::-1] if strand == -1 else parts, "strand": strand}


def _random_all_case(rng, spliced_crossing=False):
    length = rng.choice([24, 27, 30, 33, 36, 41])
    circ = spliced_crossing or rng.random() < 0.6
    rec = _planted_record(rng, length) if rng.random() < 0.8 else codes(_random_string(rng, length))
    overlap = rng.choice([0, 1, 2, 3, 5])
    genes = [_spliced_crossing_gene(rng, length)] if spliced_crossing else []
    for _ in range(rng.choice([0, 0, 1] if spliced_crossing else [0, 0, 1, 1, 2, 2, 3])):
        loc = _random_loc(rng, length, circ, 2 * overlap + 1)
        if loc not in genes:
            genes.append(loc)
    kind = rng.random()
    if kind < 0.4:
        area = NO_AREA
    elif kind < 0.75 or not circ:
        start = rng.randrange(0, length - 12)
        area = {"parts": [[start, rng.randrange(start + 12, length + 1)]], "strand": 1}
    else:
        start = rng.randrange(length // 2, length - 2)
        area = {"parts": [[start, length], [0, rng.randrange(3, min(start, length // 2) + 1)]], "strand": 1}
    return {"op": "all", "rec": rec, "circ": circ, "genes": genes, "area": area,
            "min": rng.choice([6, 9, 12]), "ovl": overlap, "sampled": True}


def _two_wrapping_orfs_case(rng):
    """ a ring on which two ORFs of one strand, in different frames, both run over the origin
        (ATG CAT GCC TAA and, starting inside it, ATG CCT AAC TGA), searched as a whole or in an area over the origin """
    length = rng.choice([27, 30, 33, 36, 41])
    motif = "ATGCATGCCTAACTGA"        # first ORF from offset 0, second from offset 4
    cut = rng.randrange(7, 10)         # how much of the motif lies before the origin (both ORFs cross it)
    background = [rng.choice("CG") for _ in range(length)]
    for offset, base in enumerate(motif):
        background[(length - cut + offset) % length] = base
    rec = codes("".join(background))
    if rng.random() < 0.5:
        rec = revcomp(rec)
    if rng.random() < 0.5:
        area = NO_AREA
    else:
        area = {"parts": [[length - rng.randrange(10, 13), length], [0, rng.randrange(10, 13)]], "strand": 1}
    return {"op": "all", "rec": rec, "circ": True, "genes": [], "area": area, "min": rng.choice([6, 9, 12]),
            "ovl": rng.choice([0, 3]), "sampled": True}


def _spliced_gene_before_area_case(rng):
    """ a line with one gene in two exons and a long intron (the gene spans far more of the record than it has bases),
        searched in an area that starts inside the second exon; an ORF is planted inside that exon """
    length = rng.choice([45, 51, 60])
    second = rng.randrange(length - 20, length - 15)
    strand = rng.choice([1, -1])
    parts = [[0, rng.choice([3, 6])], [second, length]]
    gene = {"parts": parts[::-1] if strand == -1 else parts, "strand": strand}
    area_start = second + rng.randrange(1, 4)
    background = [rng.choice("CG") for _ in range(length)]
    orf = "ATG" + rng.choice(["AAA", "CCC", "GCA"]) + rng.choice(["TAA", "TGA", "TAG"])
    at = rng.randrange(area_start + 1, length - len(orf))
    for offset, base in enumerate(orf):
        background[at + offset] = base
    rec = codes("".join(background))
    if rng.random() < 0.5:
        # the same on the other strand: mirror record, gene and area
        rec = revcomp(rec)
        mirrored = [[length - e, length - s] for s, e in parts][::-1]
        gene = {"parts": mirrored[::-1] if -strand == -1 else mirrored, "strand": -strand}
        area = {"parts": [[0, length - area_start]], "strand": 1}
    else:
        area = {"parts": [[area_start, length]], "strand": 1}
    return {"op": "all", "rec": rec, "circ": False, "genes": [gene], "area": area, "min": rng.choice([6, 9]),
            "ovl": rng.choice([0, 3]), "sampled": True}


def _reverse_spliced_gene_and_later_gene_case(rng):
    """ a line with a reverse-strand gene in two exons (listed from the higher one, as such genes are), another gene that
        starts between the two exons, and a search area that overlaps the lower exon and ends before the other gene
        starts; an ORF is planted inside the lower exon """
    length = rng.choice([60, 72])
    low = [rng.randrange(2, 6), rng.randrange(22, 27)]
    other = rng.randrange(low[1] + 4, low[1] + 8)
    high_start = other + rng.randrange(10, 16)
    spliced = {"parts": [[high_start, high_start + 6], low], "strand": -1}
    plain = {"parts": [[other, other + 6]], "strand": rng.choice([1, -1])}
    area = {"parts": [[low[0] + 1, other - rng.randrange(0, 3)]], "strand": 1}
    background = [rng.choice("CG") for _ in range(length)]
    orf = "ATG" + rng.choice(["AAA", "CCC", "GCA"]) + rng.choice(["TAA", "TGA", "TAG"])
    at = rng.randrange(low[0] + 2, low[1] - len(orf))
    for offset, base in enumerate(orf):
        background[at + offset] = base
    return {"op": "all", "rec": codes("".join(background)), "circ": False, "genes": [spliced, plain], "area": area,
            "min": rng.choice([6, 9]), "ovl": rng.choice([0, 3]), "sampled": True}


def _gaps_cases(rng, quick):
    cases = []
    length = 8
    intervals = [(s, e) for s in range(length) for e in range(s + 1, length + 1)]
    layouts = [[]] + [[g] for g in intervals] + [list(pair) for pair in itertools.combinations(intervals, 2)]
    for genes in layouts:
        for pad, minimum, (wstart, wend) in itertools.product((0, 1, 2), (0, 3), ((0, length), (2, 7))):
            if quick and len(genes) == 2 and (pad, minimum, wstart) not in ((0, 0, 0), (1, 3, 2), (2, 0, 0), (2, 3, 2)):
                continue
            cases.append({"op": "gaps", "L": length, "ws": wstart, "we": wend, "min": minimum, "pad": pad,
                          "genes": [[s, e, 1 if (s + e) % 2 else -1] for s, e in genes]})
    for _ in range(1500 if quick else 30000):
        length = rng.choice([20, 30, 45])
        genes = []
        for _ in range(rng.randrange(1, 5)):
            start = rng.randrange(0, length - 2)
            gene = [start, min(length, start + rng.randrange(2, 14)), rng.choice([1, -1])]
            if gene[:2] not in [g[:2] for g in genes]:
                genes.append(gene)
        wstart = rng.randrange(0, length // 2)
        cases.append({"op": "gaps", "L": length, "ws": wstart, "we": rng.randrange(wstart + 3, length + 1),
                      "min": rng.choice([0, 3, 6]), "pad": rng.choice([0, 1, 2, 3, 5]), "genes": genes,
                      "sampled": True})
    return cases


def _token_count(seq):
    """ fewest tokens of CODON_TOKENS that spell seq (a large number if none do) """
    best = {0: 0}
    for pos in range(len(seq)):
        if pos not in best:
            continue
        for token in CODON_TOKENS:
            if seq[pos:pos + len(token)] == token:
                nxt = pos + len(token)
                best[nxt] = min(best.get(nxt, 99), best[pos] + 1)
    return best.get(len(seq), 99)


def _load_strings(run):
    strings = []
    for state in tlaval.read_dump(run.dump_path):
        if state["stage"] == 2:
            strings.append((list(state["seq"]), state["norfs"]))
    strings.sort()
    return strings


def case_input(case):
    return {k: v for k, v in case.items() if k not in ("id", "sampled")}


def _meta(case):
    if case["op"] == "gaps":
        return {"call": _gaps_call_text(case), "features": _gaps_features(case)}
    if case["op"] == "all":
        return {"call": _all_call_text(case), "features": _all_features(case)}
    return {"call": "; ".join(_scan_call_text(case["s"], c) for c in case["calls"][:3]) + "; ...", "features": []}


def _split_scan_failures(ctx, cases_by_id, observed):
    """ A scan event bundles many calls; TLC names the failing call in the clause suffix. Each failure
        is re-keyed to that single call so that witnesses, replays and finding keys are minimal. """
    for failure in ctx.failures:
        if failure["op"] != "scan" or "event" not in failure:
            continue
        clause, _, idx = failure["clause"].rpartition(":")
        case = cases_by_id[failure.pop("event")]
        call = case["calls"][int(idx) - 1]
        seen = observed[case["id"]]["calls"][int(idx) - 1]
        failure["clause"] = clause
        failure["input"] = {"op": "scan", "s": case["s"], "d": call["d"], "off": call["off"], "rl": call["rl"],
                            "min": call["min"]}
        failure["call"] = _scan_call_text(case["s"], call)
        failure["observed"] = {"r": seen["r"], "ext": seen["ext"]}
        failure["features"] = _scan_features(case["s"], call)
        failure["sampled"] = case.get("sampled", False)


def run(ctx):
    rng = random.Random(ctx.seed)
    # replayed exhaustively in both tiers: <= 8 bases / <= 5 codon tokens; the thorough tier model-checks <= 10 / <= 6
    # and replays a seeded sample of the additional strings
    rep_bases, rep_codons = 8, 5
    max_bases, max_codons = (rep_bases, rep_codons) if ctx.quick else (10, 6)
    strings = {}
    mains = (("MC_OrfsBases", BASE_TOKENS, max_bases), ("MC_OrfsCodons", CODON_TOKENS, max_codons))
    negs = (("MC_OrfsBases", BASE_TOKENS, 9, "LastStartAgrees"), ("MC_OrfsBases", BASE_TOKENS, 7, "NoOrfAnywhere"),
            ("MC_OrfsCodons", CODON_TOKENS, 5, "NoTwoOrfs"))
    tlc.stage(ctx.workdir, {**_wrapper("MC_OrfsBases", BASE_TOKENS), **_wrapper("MC_OrfsCodons", CODON_TOKENS)})

    def main_run(spec):
        name, _, bound = spec
        return tlc.run(name, MC_CFG % {"max": bound}, ctx.workdir, dump=True, coverage=True, timeout=3000,
                       tag=f"_{name}", workers=max(2, CPUS // 2))

    def neg_run(spec):
        name, _, bound, invariant = spec
        return tlc.run(name, NEG_CFG % {"max": bound, "inv": invariant}, ctx.workdir, tag=f"_neg_{invariant}",
                       timeout=600, workers=2)
    with ThreadPoolExecutor(max_workers=5) as pool:
        main_futures = [pool.submit(main_run, spec) for spec in mains]
        neg_futures = [pool.submit(neg_run, spec) for spec in negs]
        main_results = [f.result() for f in main_futures]
        neg_results = [f.result() for f in neg_futures]
    for (name, tokens, bound), mc in zip(mains, main_results):
        ctx.model(mc, f"{name}: OrfsOf against the sweep model, mapping/extraction coherence, all strings of <= {bound} "
                      f"tokens from {[text(tok) for tok in tokens]}", vacuity=["PickPrefix", "PickRest"])
        for seq, norfs in _load_strings(mc):
            strings[tuple(seq)] = norfs
    for (name, _, bound, invariant), neg in zip(negs, neg_results):
        ctx.expect_violation(neg, invariant, f"{name} (<= {bound} tokens) negative control {invariant}")
    strings = sorted((list(seq), norfs) for seq, norfs in strings.items())

    cases = []
    rich_strings = []
    beyond = []
    for seq, norfs in strings:
        exhaustive = (len(seq) <= rep_bases and all(b in (0, 2, 3) for b in seq)) or _token_count(seq) <= rep_codons
        if not exhaustive:
            beyond.append((seq, norfs))
            continue
        cases.append({"op": "scan", "s": seq, "calls": _calls(len(seq), norfs > 0), "rich": norfs > 0})
        if norfs > 0:
            rich_strings.append(seq)
    rich_beyond = [seq for seq, norfs in beyond if norfs > 0]
    for seq in rng.sample(rich_beyond, min(len(rich_beyond), 60000)):
        cases.append({"op": "scan", "s": seq, "calls": _calls(len(seq), True), "rich": True, "sampled": True})
    poor_beyond = [seq for seq, norfs in beyond if norfs == 0]
    for seq in rng.sample(poor_beyond, min(len(poor_beyond), 20000)):
        cases.append({"op": "scan", "s": seq, "calls": _calls(len(seq), False), "sampled": True})
    n_variants = 1 if ctx.quick else 2
    for seq in rich_strings:
        for new in _variants(rng, seq, n_variants):
            cases.append({"op": "scan", "s": new, "calls": _calls(len(new), True), "sampled": True})
    for _ in range(1000 if ctx.quick else 40000):
        seq = codes(_random_string(rng, rng.randrange(9, 31)))
        cases.append({"op": "scan", "s": seq, "calls": _calls(len(seq), True), "sampled": True})
    cases += _gaps_cases(rng, ctx.quick)
    for _ in range(4000 if ctx.quick else 120000):
        cases.append(_random_all_case(rng))
    for _ in range(600 if ctx.quick else 12000):
        cases.append(_random_all_case(rng, spliced_crossing=True))
    for _ in range(150 if ctx.quick else 3000):
        cases.append(_two_wrapping_orfs_case(rng))
    for _ in range(150 if ctx.quick else 3000):
        cases.append(_spliced_gene_before_area_case(rng))
        cases.append(_reverse_spliced_gene_and_later_gene_case(rng))
    for idx, case in enumerate(cases):
        case["id"] = idx
    cases_by_id = {case["id"]: case for case in cases}

    events = [ev for part in pmap(_observe_many, chunks(cases, CPUS * 4)) for ev in part]
    observed = {ev["id"]: ev for ev in events}
    by_id = {}
    calls_made = 0
    for case in cases:
        ident = case["id"]
        if case["op"] == "scan":
            calls_made += len(case["calls"])
            by_id[ident] = {"op": "scan", "event": ident, "input": {"event": ident}}
            if case.get("rich") or any(call["r"]["v"] for call in observed[ident]["calls"]):
                ctx.nontrivial_case(ident)
        else:
            meta = _meta(case)
            by_id[ident] = {"op": case["op"], "input": case_input(case), "call": meta["call"],
                            "features": meta["features"], "sampled": case.get("sampled", False),
                            "observed": observed[ident]["res"]}
            calls_made += 1
            if case["op"] == "all" and observed[ident]["res"]["v"]:
                ctx.nontrivial_extra += 1
    wire = []
    for event in events:
        event = {k: v for k, v in event.items() if k not in ("sampled", "rich", "L")}
        wire.append(event)
    ctx.evaluations = calls_made
    ctx.validate("Orfs_Trace", wire, by_id)
    _split_scan_failures(ctx, cases_by_id, observed)

    first_rich = next(c for c in cases if c.get("rich"))
    ctx.sample({"string": text(first_rich["s"]), "call": _scan_call_text(first_rich["s"], first_rich["calls"][9]),
                "observed": observed[first_rich["id"]]["calls"][9]})
    for case in (next(c for c in cases if c["op"] == "gaps" and len(c["genes"]) == 2),
                 next(c for c in cases if c["op"] == "all" and observed[c["id"]]["res"]["v"])):
        ctx.sample({"case": case_input(case), "call": _meta(case)["call"], "observed": observed[case["id"]]["res"]})
    ctx.exhaustive = True
    ctx.rule = (f"TLC enumerates every string over A/T/G of length 3..{max_bases} (all start/stop codons are over this "
                f"alphabet) and every concatenation of 3..{max_codons} tokens from ATG TTG TAA TGA GAC A (several ORFs per "
                f"string), and tells which contain an ORF; every one of up to {rep_bases} bases / {rep_codons} tokens (and a "
                "seeded sample of the longer ones) is scanned on both strands (ORF-containing strings: 11 "
                "placements x minimum lengths, windows inside / touching / crossing the origin / filling the record, with "
                "and without record length; ORF-free strings: 3 placements), plus seeded variants with C/N/R/Y/lower case "
                "and random longer strings; find_intergenic_areas on every layout of <= 2 genes on 8 bases plus random "
                "layouts; find_all_orfs on seeded random records (24-41 bases, 0-3 genes incl. multi-exon and "
                "three-part origin-crossing ones on both strands, "
                "origin-spanning, whole record / simple area / origin-crossing area); non-trivial = the string contains an "
                "ORF (scan) or the search returned a feature (find_all_orfs)")
    ctx.notes["strings_enumerated"] = len(strings)
    ctx.notes["strings_replayed_exhaustively"] = len(strings) - len(beyond)
    ctx.notes["strings_with_orf"] = len(rich_strings)
    ctx.notes["scan_calls"] = sum(len(c["calls"]) for c in cases if c["op"] == "scan")
    ctx.notes["gaps_cases"] = sum(1 for c in cases if c["op"] == "gaps")
    ctx.notes["find_all_orfs_cases"] = sum(1 for c in cases if c["op"] == "all")
    ctx.notes["find_all_orfs_cases_with_results"] = ctx.nontrivial_extra
    ctx.assumptions += [
        "minimum length is a sandwich: ORFs longer than the minimum must be reported, shorter must not, equal either way",
        "gap search: soundness only (inside the area, overlap with every existing gene's bases <= max_overlap, each a "
        "start-to-stop stretch with matching translation); completeness is demanded only when there are no genes",
        "windows longer than the record and fuzzy positions are outside the model",
        "find_all_orfs: existing genes are longer than twice the allowed overlap (real callers: 10 bases against genes of "
        "at least 60); with shorter genes the padded gaps on both sides of a gene overlap each other",
        "translation table: NCBI 1/11 amino-acid assignments; ambiguous codons read X unless every reading agrees",
    ]


def replay(ctx, record):
    data = dict(record["input"])
    if data["op"] == "scan":
        case = {"op": "scan", "id": 0, "s": data["s"],
                "calls": [{"d": data["d"], "off": data["off"], "rl": data["rl"], "min": data["min"]}]}
        by_id = {0: {"op": "scan", "event": 0, "input": {"event": 0}}}
    else:
        case = dict(data)
        case["id"] = 0
        by_id = {0: {"op": case["op"], "input": record["input"], "call": _meta(case)["call"]}}
    event = _observe(case)
    wire = {k: v for k, v in event.items() if k not in ("sampled", "rich", "L")}
    res = ctx.validate("Orfs_Trace", [wire], by_id)
    _split_scan_failures(ctx, {0: case}, {0: event})
    ctx.failures = [f for f in ctx.failures if f["op"] == record["op"] and f["clause"] == record["clause"]]
    return res
