""" C11 - reusing saved module results reproduces the original results.

    spec: Reuse.tla (per module: absent / fresh / saved; Run, Save, Regenerate, ChangeOption; which recorded settings are
    hard, soft or free; which conversions are sound); Reuse_MC explores every history of <= Depth actions per kind of
    results with every outcome the spec allows (results in use are never stale), an implementation-shaped module that
    compares every recorded label (refines the spec) and one with a forgotten guard (negative control). Its states are
    the histories replayed on real results objects of seven modules (hmm_detection, sideloader, nrps_pks_domains,
    cluster_hmmer / full_hmmer, tta, pfam2go, t2pks): add to record -> to_json -> dumps -> loads -> regenerate_previous_results
    -> run_on_record -> add to record -> to_json, JSON texts and record effects digested (in interpreters with a fixed hash
    seed, so that set-order leaks into JSON fail reproducibly); Reuse_Trace replays each history through the spec's actions and judges
    every regeneration. Plus seeded content sweeps (many results objects through two save / regenerate cycles) and seeded
    random histories of 6-14 actions.
"""

import multiprocessing
import os
import random
import zlib
from concurrent.futures import ThreadPoolExecutor

from .. import tlc, tlaval
from ..common import CPUS, MachineryError, canon, chunks

MC_CFG = """SPECIFICATION Spec
CONSTANTS
  Depth = %(depth)d
  KindSet = {"rules", "sideload", "nrps", "hmmer", "tta", "pfam2go", "t2pks"}
  Impl = %(impl)s
  Ignored = {%(ignored)s}
CONSTRAINT Bounded
%(invariants)s
"""
INVARIANTS = ["NeverReinterpreted", "ReproducedWhenSame", "ConvertedIsFresh", "StaleDropped", "ImplWithinSpec", "ClassSound"]
KINDS = ["rules", "sideload", "nrps", "hmmer", "tta", "pfam2go", "t2pks"]
TTA_THR = [{"a": 35, "b": 100}, {"a": 50, "b": 100}, {"a": 65, "b": 100}]
HMM_THR = [{"a": 50, "b": 1}, {"a": 100, "b": 2}, {"a": 200, "b": 5}]
NO_THR = {"a": 0, "b": 1}
GC_LEVELS = [30, 40, 50, 60, 80]
CHANGES = {"rules": ["strictness", "ruleset", "multipliers", "schema", "record"], "sideload": ["option", "schema", "record"],
           "nrps": ["schema", "record"], "pfam2go": ["schema", "record"], "t2pks": ["schema", "record"], "hmmer": ["tighten", "loosen", "schema", "record"],
           "tta": ["tighten", "loosen", "schema", "record"]}


def cfg(depth, impl=False, ignored=(), invariants=None):
    return MC_CFG % {"depth": depth, "impl": "TRUE" if impl else "FALSE", "ignored": ", ".join(f'"{x}"' for x in ignored),
                     "invariants": "\n".join(f"INVARIANT {name}" for name in (invariants or INVARIANTS))}


# ---- abstract content cases ----------------------------------------------------------------------------------------
def leaf(profile, neg=False):
    return {"k": "id", "neg": neg, "p": profile, "s": 0, "opts": [], "args": []}


def node(kind, args, neg=False):
    return {"k": kind, "neg": neg, "p": "", "s": 0, "opts": [], "args": args}


CONDITIONS = [leaf("a"), leaf("c"), node("and", [leaf("a"), leaf("b")]), node("or", [leaf("c"), leaf("b")]),
              {"k": "score", "neg": False, "p": "a", "s": 50, "opts": [], "args": []},
              {"k": "min", "neg": False, "p": "", "s": 2, "opts": ["a", "b", "c"], "args": []},
              node("cds", [node("and", [leaf("a"), leaf("c")])]), node("and", [leaf("a"), leaf("d", neg=True)]),
              node("or", [leaf("d"), leaf("e")]), node("and", [leaf("b"), node("or", [leaf("d"), leaf("e"), leaf("c")])])]
EXTENDERS = [leaf("b"), leaf("e"), node("cds", [node("or", [leaf("c"), leaf("d")])])]


def rule_catalogue():
    out = []
    for cond in CONDITIONS:
        for cutoff in (1, 2, 4):
            for nbhd in (0, 1, 3):
                out.append({"name": "r", "cutoff": cutoff, "nbhd": nbhd, "cond": cond, "hasExt": False, "ext": leaf("a"), "sup": []})
        for ext in EXTENDERS:
            out.append({"name": "r", "cutoff": 3, "nbhd": 2, "cond": cond, "hasExt": True, "ext": ext, "sup": []})
    return out


def rules_case(rng, tag):
    from . import c03, c17  # pylint: disable=import-outside-toplevel
    scene = c03.random_big_scene(rng)
    if rng.random() < 0.6:
        scene["hits"] = [rng.choice(c17.RICH_HITS) for _ in scene["locs"]]
    ruleset = c03.scale_rules(rng, c03.make_ruleset(rng, rule_catalogue(), rng.choice([1, 2, 3, 3])))
    # (derived from the tag, not drawn: keeps the random stream of the other kinds' cases unchanged)
    subregion = zlib.crc32(tag.encode()) % 2 == 0
    return {"tag": tag, "scene": scene, "rules": ruleset, "schema_target": rng.choice(["outer", "inner", "all"]), "subregion": subregion}


def make_case(rng, kind, tag, gc=50):
    from .. import reuse as U  # pylint: disable=import-outside-toplevel
    if kind == "rules":
        return rules_case(rng, tag)
    if kind == "sideload":
        return U.sideload_case(rng, tag)
    if kind == "nrps":
        return U.nrps_case(rng, tag)
    if kind in ("hmmer", "pfam2go"):
        return U.hmmer_case(rng, tag, HMM_THR)
    if kind == "tta":
        return U.tta_case(rng, tag, gc)
    if kind == "t2pks":
        return U.t2pks_case(rng, tag)
    raise ValueError(kind)


def env_for(kind, case, fungi=False):
    if kind == "tta":
        return {"fungi": False, "gcn": case["gcn"], "len": case["len"]}
    return {"fungi": bool(fungi), "gcn": 50, "len": 100}


# ---- histories --------------------------------------------------------------------------------------------------------
def norm_ctx(c):
    return {"strict": c["strict"], "subset": c["subset"], "mult": c["mult"], "thr": {"a": c["thr"]["a"], "b": c["thr"]["b"]},
            "opt": c["opt"], "schema": c["schema"], "rec": c["rec"]}


def load_histories(run):
    seen = {}
    for state in tlaval.read_dump(run.dump_path):
        hist = [{"a": step["a"], "c": norm_ctx(step["c"])} for step in state["hist"]]
        if not hist:
            continue
        env = {"fungi": bool(state["env"]["fungi"]), "gcn": state["env"]["gcn"], "len": state["env"]["len"]}
        key = canon([state["kind"], env, hist])
        seen.setdefault(key, {"kind": state["kind"], "env": env, "hist": hist})
    return [seen[key] for key in sorted(seen)]


def levels(kind):
    return TTA_THR if kind == "tta" else HMM_THR


def apply_change(rng, kind, change, c):
    c = dict(c)
    if change == "strictness":
        c["strict"] = rng.choice([x for x in range(3) if x != c["strict"]])
    elif change == "ruleset":
        c["subset"] = rng.choice([x for x in range(3) if x != c["subset"]])
    elif change == "multipliers":
        c["mult"] = rng.choice([x for x in range(3) if x != c["mult"]])
    elif change == "option":
        c["opt"] = 1 - c["opt"]
    elif change == "schema":
        c["schema"] = 1 - c["schema"]
    elif change == "record":
        c["rec"] = 1 - c["rec"]
    else:
        table = levels(kind)
        level = table.index(c["thr"])
        level = min(level + 1, 2) if change == "tighten" else max(level - 1, 0)
        c["thr"] = dict(table[level])
    return c


def initial_ctx(rng, kind):
    thr = dict(rng.choice(levels(kind))) if kind in ("tta", "hmmer") else dict(NO_THR)
    return {"strict": rng.randrange(3) if kind == "rules" else 1, "subset": rng.randrange(3) if kind == "rules" else 0,
            "mult": rng.randrange(3) if kind == "rules" else 0, "thr": thr, "opt": 0, "schema": 0, "rec": 0}


def random_history(rng, kind, length):
    """ a walk over the actions of Reuse_MC; after a Regen both continuations are possible, the replay stops where the real
        outcome makes the next action inapplicable, so the walk assumes the likelier one """
    c = initial_ctx(rng, kind)
    made = None
    hist = []
    state = "absent"
    for _ in range(length):
        if state == "absent":
            action = "Run"
            state, made = "fresh", c
        elif state == "fresh":
            action = "Save"
            state = "saved"
        else:
            if rng.random() < 0.45:
                action = "Regen"
                state = "fresh" if likely_reused(kind, made, c) else "absent"
            else:
                change = rng.choice(CHANGES[kind])
                c = apply_change(rng, kind, change, c)
                action = "Chg:" + change
        hist.append({"a": action, "c": c})
    return hist


def likely_reused(kind, made, c):
    """ only steers the random walk (which action to try next); never used to judge anything """
    if made["schema"] != c["schema"] or made["rec"] != c["rec"]:
        return kind == "pfam2go" and made["schema"] == c["schema"]
    if kind == "rules":
        return (made["subset"], made["mult"]) == (c["subset"], c["mult"]) and (made["subset"] != 0 or made["strict"] == c["strict"])
    if kind == "hmmer":
        return c["thr"]["a"] >= made["thr"]["a"] and c["thr"]["b"] >= made["thr"]["b"]
    return True


_MULTI = {}


def multi_class_labels():
    """ type II PKS profile names that stand for several product classes (read from the module's own table) """
    if not _MULTI:
        import json  # pylint: disable=import-outside-toplevel
        from ..common import REPO  # pylint: disable=import-outside-toplevel
        with open(os.path.join(REPO, "antismash", "modules", "t2pks", "data", "classification.json"), encoding="utf-8") as handle:
            table = json.load(handle)
        _MULTI["labels"] = {f"{ptype}_{func}" for ptype, funcs in table.items() for func, classes in funcs.items() if len(classes) > 1}
    return _MULTI["labels"]


def features(kind, env, hist, case):
    feats = ["kind_" + kind]
    if kind == "t2pks" and any(label in multi_class_labels() for gene in case["t2hits"] for label in gene):
        feats.append("t2pks_hit_with_several_product_classes")
    if env["fungi"]:
        feats.append("fungi")
    for step in hist:
        if step["a"].startswith("Chg:"):
            feats.append("chg_" + step["a"][4:])
    feats.append("regenerations_%d" % min(3, sum(1 for step in hist if step["a"] == "Regen")))
    return sorted(set(feats))


# ---- observation (worker processes) ----------------------------------------------------------------------------------
def observe(item):
    from .. import reuse as U  # pylint: disable=import-outside-toplevel
    steps = U.replay(item["kind"], item["case"], item["env"], item["hist"], item["workdir"])
    return steps


def observe_many(items):
    return [observe(item) for item in items]


def spawn_map(parts, hashseed):
    """ replays in freshly started interpreters with a fixed PYTHONHASHSEED: set / dict iteration orders (the source of
        list(set) leaks into JSON) are then the same in every run of the check, so failing inputs can be listed exactly """
    if not parts:
        return []
    old = os.environ.get("PYTHONHASHSEED")
    os.environ["PYTHONHASHSEED"] = str(hashseed)
    try:
        with multiprocessing.get_context("spawn").Pool(min(CPUS, len(parts))) as pool:
            return pool.map(observe_many, parts, chunksize=1)
    finally:
        if old is None:
            os.environ.pop("PYTHONHASHSEED", None)
        else:
            os.environ["PYTHONHASHSEED"] = old


EVENT_KEYS = ("a", "c", "o", "exc", "js", "ef", "fj", "fe", "hits", "kept", "lab")


def to_event(item, steps):
    return {"id": item["id"], "kind": item["kind"], "env": item["env"], "from": item["from"],
            "steps": [{key: step[key] for key in EVENT_KEYS} for step in steps]}


def run(ctx):
    from .. import reuse as U  # pylint: disable=import-outside-toplevel
    import time  # pylint: disable=import-outside-toplevel
    rng = random.Random(ctx.seed)
    depth = 5 if ctx.quick else 7
    clock = {"start": time.time()}
    jobs = [("Reuse_MC", cfg(depth), dict(dump=True, coverage=True, timeout=3000, workers=max(2, CPUS // 2))),
            ("Reuse_MC", cfg(depth, impl=True), dict(tag="_impl", timeout=3000, workers=max(2, CPUS // 2))),
            ("Reuse_MC", cfg(5, impl=True, ignored=["mu"], invariants=["NeverReinterpreted"]), dict(tag="_neg1", timeout=600, workers=2)),
            ("Reuse_MC", cfg(5, impl=True, ignored=["schema"], invariants=["StaleDropped"]), dict(tag="_neg2", timeout=600, workers=2)),
            ("Reuse_MC", cfg(5, impl=True, ignored=["th"], invariants=["NeverReinterpreted"]), dict(tag="_neg3", timeout=600, workers=2))]
    tlc.stage(ctx.workdir)
    with ThreadPoolExecutor(max_workers=len(jobs)) as pool:
        mc, impl, neg1, neg2, neg3 = list(pool.map(lambda job: tlc.run(job[0], job[1], ctx.workdir, **job[2]), jobs))
    ctx.model(mc, f"Reuse_MC: all histories of <= {depth} actions x {len(KINDS)} kinds of results, every outcome the spec allows",
              vacuity=["Run", "Save", "Regen", "Change"])
    ctx.model(impl, "Reuse_MC: implementation-shaped module comparing every recorded label refines the spec")
    ctx.expect_violation(neg1, "NeverReinterpreted", "a module that ignores changed multipliers on reuse keeps stale results in use")
    ctx.expect_violation(neg2, "StaleDropped", "a module without schema guard regenerates results of another schema version")
    ctx.expect_violation(neg3, "NeverReinterpreted", "a module that ignores a changed threshold keeps results of the old threshold in use")
    clock["model_checking"] = time.time()
    histories = load_histories(mc)
    if not histories:
        raise MachineryError("Reuse_MC produced no histories")
    U.write_pfam_database(ctx.workdir + "/c11_databases")
    U.rule_subsets()

    # content pools (seeded); enumerated histories take a case by a stable hash of the history
    pool_size = 6 if ctx.quick else 24
    pools = {}
    for kind in KINDS:
        if kind == "tta":
            pools[kind] = {gc: [make_case(rng, kind, f"{kind}{gc}_{i}", gc) for i in range(max(2, pool_size // 3))] for gc in GC_LEVELS}
        else:
            pools[kind] = [make_case(rng, kind, f"{kind}_{i}") for i in range(pool_size)]
    items = []
    for entry in histories:
        kind = entry["kind"]
        pick = zlib.crc32(canon(entry["hist"]).encode())
        if kind == "tta":
            pool = pools[kind][entry["env"]["gcn"]]
        else:
            pool = pools[kind]
        case = pool[pick % len(pool)]
        env = env_for(kind, case, entry["env"]["fungi"])
        items.append({"kind": kind, "env": env, "case": case, "hist": entry["hist"], "from": len(entry["hist"]), "sampled": True,
                      "hashseed": 0})
    enumerated = len(items)
    # content sweep: many results objects through two save / regenerate cycles under unchanged settings
    seeds = [0] if ctx.quick else [0, 1, 2, 3]
    sweep = 150 if ctx.quick else 3000
    for kind in KINDS:
        for i in range(sweep):
            gc = rng.choice(GC_LEVELS)
            case = make_case(rng, kind, f"sw_{kind}_{i}", gc)
            c = initial_ctx(rng, kind)
            env = env_for(kind, case, rng.random() < 0.5)
            hist = [{"a": a, "c": c} for a in ("Run", "Save", "Regen", "Save", "Regen")]
            items.append({"kind": kind, "env": env, "case": case, "hist": hist, "from": 1, "sampled": True, "hashseed": i % len(seeds)})
    # random longer histories
    walks = 100 if ctx.quick else 2000
    for kind in KINDS:
        for i in range(walks):
            gc = rng.choice(GC_LEVELS)
            case = make_case(rng, kind, f"rw_{kind}_{i}", gc)
            env = env_for(kind, case, rng.random() < 0.5)
            items.append({"kind": kind, "env": env, "case": case, "hist": random_history(rng, kind, rng.randrange(6, 15)),
                          "from": 1, "sampled": True, "hashseed": i % len(seeds)})
    for idx, item in enumerate(items):
        item["id"] = idx
        item["workdir"] = ctx.workdir

    clock["cases_built"] = time.time()
    stats = {"histories": 0, "regenerations": 0, "outcomes": {}, "run_failed": {}, "classes_drift": 0, "by_kind": {}}
    samples = {}
    batch = 12000
    items.sort(key=lambda item: (item["hashseed"], item["id"]))
    for start in range(0, len(items), batch):
        part = items[start:start + batch]
        began = time.time()
        nested = []
        for hashseed in sorted({item["hashseed"] for item in part}):
            group = [item for item in part if item["hashseed"] == hashseed]
            nested += [steps for sub in spawn_map(chunks(group, CPUS * 3), hashseed) for steps in sub]
        clock["replay_seconds"] = clock.get("replay_seconds", 0) + time.time() - began
        events, by_id = [], {}
        for item, steps in zip(part, nested):
            kind = item["kind"]
            if not steps or steps[0]["exc"].startswith("run:"):
                stats["run_failed"][kind] = stats["run_failed"].get(kind, 0) + 1
                continue
            if any(step["exc"].startswith("run:") for step in steps):
                steps = steps[:[step["exc"].startswith("run:") for step in steps].index(True)]
            if len(steps) < item["from"]:
                continue        # the real outcome made the last action of the enumerated history inapplicable
            event = to_event(item, steps)
            events.append(event)
            hist = item["hist"][:len(steps)]
            judged = steps[item["from"] - 1:]
            by_id[item["id"]] = {"op": "regen", "input": {"kind": kind, "env": item["env"], "case": item["case"], "hist": hist,
                                                            "from": item["from"], "hashseed": item["hashseed"]},
                                 "call": f"PYTHONHASHSEED={item['hashseed']}: harness.reuse.replay({kind!r}, case, env, hist, workdir)  # actions: "
                                         + " ".join(step['a'] for step in hist),
                                 "observed": [{k: step.get(k) for k in ("a", "o", "exc", "msg", "js", "ef", "summary")} for step in judged][-4:],
                                 "features": features(kind, item["env"], hist, item["case"]), "sampled": item["sampled"]}
            stats["histories"] += 1
            stats["by_kind"][kind] = stats["by_kind"].get(kind, 0) + 1
            for step in judged:
                if step["a"] == "Regen":
                    stats["regenerations"] += 1
                    stats["outcomes"][step["o"]] = stats["outcomes"].get(step["o"], 0) + 1
                    if step["o"] == "regenerated" and step.get("size", 0) > 0:
                        ctx.nontrivial_case(item["id"])
                    if kind == "hmmer" and step["o"] == "regenerated" and step["fj"] != step["js"]:
                        stats["classes_drift"] += 1
            if len(samples) < 6 and (item["id"] % 997 == 0 or (item["sampled"] and kind not in samples)):
                samples[kind if item["sampled"] else item["id"]] = {
                    "kind": kind, "actions": [step["a"] for step in hist],
                    "steps": [{k: step.get(k) for k in ("a", "o", "exc", "msg", "js", "ef", "summary", "size")} for step in steps]}
        ctx.validate("Reuse_Trace", events, by_id, min_per_shard=300)
        del events, by_id, nested
    for kind, failed in stats["run_failed"].items():
        total = sum(1 for item in items if item["kind"] == kind)
        if failed * 5 > total:
            raise MachineryError(f"{failed} of {total} {kind} cases could not even be run: the materialiser is broken")
    if set(stats["by_kind"]) != set(KINDS):
        raise MachineryError(f"no history replayed for some kind: {stats['by_kind']}")
    # results that carry their own filter settings (RREFinder): saved hits reused under other settings
    filter_cases = []
    settings = [(250, 50), (300, 50), (350, 50), (250, 70), (300, 70), (200, 50), (250, 40)]
    for number in range(60 if ctx.quick else 1500):
        old = rng.choice([(250, 50), (250, 50), (200, 40)])
        pool = [(sc, ln) for sc in (200, 260, 275, 300, 340, 380) for ln in (40, 55, 60, 90) if sc >= old[0] and ln >= old[1]]
        hits = [{"sc": sc, "len": ln} for sc, ln in (rng.choice(pool) for _ in range(rng.randrange(1, 5)))]
        new = rng.choice(settings)
        filter_cases.append({"id": 10 ** 7 + number, "hits": hits, "old": {"cut": old[0], "minlen": old[1]},
                             "new": {"cut": new[0], "minlen": new[1]}})
    filter_events = U.observe_refilter_many(filter_cases)
    ctx.validate("ReuseFilter_Trace", filter_events,
                 {case["id"]: {"op": "refilter", "input": {k: case[k] for k in ("hits", "old", "new")},
                               "call": f"harness.reuse.observe_refilter({case!r})  # RREFinderResults saved under old, "
                                       "rrefinder.regenerate_previous_results under new, add_to_record on a fresh record",
                               "observed": event["out"], "sampled": True,
                               "features": sorted({"stricter" if (case["new"]["cut"] > case["old"]["cut"] or case["new"]["minlen"] > case["old"]["minlen"]) else "not_stricter",
                                                   "looser" if (case["new"]["cut"] < case["old"]["cut"] or case["new"]["minlen"] < case["old"]["minlen"]) else "not_looser"})}
                  for case, event in zip(filter_cases, filter_events)})
    ctx.notes["refilter_cases"] = len(filter_cases)
    ctx.evaluations = stats["regenerations"] + len(filter_cases)
    ctx.notes["phase_seconds"] = {"model_checking": round(clock["model_checking"] - clock["start"], 1),
                                  "building_cases": round(clock["cases_built"] - clock["model_checking"], 1),
                                  "replaying_on_real_objects": round(clock["replay_seconds"], 1),
                                  "trace_validation": round(time.time() - clock["cases_built"] - clock["replay_seconds"], 1)}
    for sample in samples.values():
        ctx.sample(sample)
    ctx.exhaustive = False       # histories are enumerated exhaustively, the results objects they are replayed on are seeded samples
    ctx.rule = (f"every history of <= {depth} actions (Run, Save, Regenerate, change strictness / rule subset / fungal multipliers / "
                "sideload arguments / schema version / record id / tighten or loosen the TTA or HMMer threshold) for seven kinds of "
                "results (hmm_detection, sideloader, nrps_pks_domains, cluster_hmmer+full_hmmer, tta, pfam2go, t2pks; bacteria and "
                "fungi, five GC levels) is replayed on real results objects built from seeded content (scenes with 4-7 genes and 1-3 rules, "
                "annotation files with origin-spanning areas, domain strings with cross-gene modules, hit tables with scores on "
                f"the thresholds, type II PKS hit tables with several product classes) and its last action judged; plus {sweep} seeded results objects per kind through two save / "
                f"regenerate cycles and {walks} seeded random histories of 6-14 actions per kind with every action judged, in "
                f"interpreters started with PYTHONHASHSEED in {seeds}; "
                "non-trivial = a judged regeneration returned results")
    ctx.notes.update({"enumerated_histories": enumerated, "content_sweep_per_kind": sweep, "random_histories_per_kind": walks,
                      "histories_replayed": stats["histories"], "regenerations_judged": stats["regenerations"],
                      "regeneration_outcomes": stats["outcomes"], "histories_by_kind": stats["by_kind"],
                      "cases_whose_run_failed": stats["run_failed"],
                      "refilter_results_differing_from_fresh_run_reported_as_drift_only": stats["classes_drift"]})
    ctx.assumptions += ["hits enter as data (DynamicProfile tables, hmmscan result tables, patched domain finders); the external "
                        "binaries are outside this check",
                        "hmm_detection results are assembled as run_on_record does (real rule set of the options, abstract rules for "
                        "the detection itself)",
                        "a changed schema version is materialised by shifting the schema field(s) of the saved JSON",
                        "settings a results object does not record (sideload arguments) cannot invalidate it; strictness alone with an "
                        "unchanged rule set may be reused unchanged (hmm_detection warns and does so)",
                        "refiltered HMMer results are judged by the trim contract (strictly passing hits stay, failing hits go, hits on "
                        "a threshold either way: build_hits is exclusive, refilter inclusive, both pinned by tests); their difference "
                        "from a fresh run (overlap removal happens before trimming) is reported as drift"]


def observe_verbose(items):
    from .. import reuse as U  # pylint: disable=import-outside-toplevel
    return [U.replay(item["kind"], item["case"], item["env"], item["hist"], item["workdir"], keep_texts=True) for item in items]


def replay(ctx, record):
    from .. import reuse as U  # pylint: disable=import-outside-toplevel
    if record["op"] == "refilter":
        case = dict(record["input"], id=0)
        event = U.observe_refilter(case)
        ctx.validate("ReuseFilter_Trace", [event], {0: {"op": "refilter", "input": record["input"], "observed": event["out"]}})
        ctx.failures = [f for f in ctx.failures if f["clause"] == record["clause"]]
        return
    U.write_pfam_database(ctx.workdir + "/c11_databases")
    data = record["input"]
    item = {"id": 0, "kind": data["kind"], "env": data["env"], "case": data["case"], "hist": data["hist"], "from": data["from"],
            "workdir": ctx.workdir}
    hashseed = data.get("hashseed", 0)      # set-order leaks only reproduce under the hash seed they were seen with
    old = os.environ.get("PYTHONHASHSEED")
    os.environ["PYTHONHASHSEED"] = str(hashseed)
    try:
        with multiprocessing.get_context("spawn").Pool(1) as pool:
            steps = pool.map(observe_verbose, [[item]])[0][0]
    finally:
        if old is None:
            os.environ.pop("PYTHONHASHSEED", None)
        else:
            os.environ["PYTHONHASHSEED"] = old
    for step in steps:
        print(f"  {step['a']}: {step['o']} {step['exc']} {step.get('msg', '')} json={step.get('text', '')[:400]}")
    ctx.validate("Reuse_Trace", [to_event(item, steps)], {0: {"op": record["op"], "input": data,
                                                              "observed": [{k: step.get(k) for k in ("a", "o", "exc", "msg", "js", "ef")}
                                                                           for step in steps][-3:]}})
    ctx.failures = [f for f in ctx.failures if f["clause"] == record["clause"]]
