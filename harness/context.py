""" Per-run context handed to a property adapter: collects model statistics, observations,
    failures and samples; turns them into exit code, VIOLATION / KNOWN-FINDING lines and evidence.
"""

import glob
import json
import os
import subprocess

from . import evidence, trace as tracemod
from .common import REPO, VERIF, MachineryError, Timer, canon, seed
from .findings import Findings, case_key


class Context:
    def __init__(self, prop: str, tier: str, workdir: str):
        self.prop = prop
        self.tier = tier
        self.quick = tier == "quick"
        self.seed = seed()
        self.workdir = workdir
        self.timer = Timer()
        self.states = 0
        self.transitions = 0
        self.model_runs = []
        self.evaluations = 0
        self.impl_runs = 0
        self.nontrivial = set()
        self.nontrivial_extra = 0
        self.samples = []
        self.failures = []
        self.assumptions = []
        self.exhaustive = True
        self.rule = ""
        self.notes = {}
        self._next_id = 0

    # --- model side -------------------------------------------------------------------------
    def model(self, run, label: str, vacuity: list = None):
        """ Records a TLC model-checking run; it must have completed without violation. """
        run.require_ok(f"({label})")
        self.states += run.distinct
        self.transitions += run.generated
        info = {"label": label, "distinct": run.distinct, "generated": run.generated, "depth": run.depth}
        if run.coverage:
            dead = [name for name in (vacuity or []) if not any(
                key.endswith("!" + name) and val[0] > 0 for key, val in run.coverage.items())]
            if dead:
                raise MachineryError(f"vacuous model run {label}: never taken/evaluated: {dead}")
            info["actions"] = {k: v[0] for k, v in run.coverage.items() if "!" in k}
        self.model_runs.append(info)
        return run

    def expect_violation(self, run, invariant: str, label: str):
        """ Negative control: TLC must find `invariant` violated on this (deliberately wrong) model. """
        if run.violated != invariant:
            raise MachineryError(f"negative control {label}: expected violation of {invariant}, got "
                                 f"{run.violated!r} rc={run.rc}")
        self.states += run.distinct
        self.transitions += run.generated
        self.model_runs.append({"label": label, "distinct": run.distinct, "generated": run.generated,
                                "negative_control_violates": invariant})

    # --- implementation side --------------------------------------------------------------
    def new_id(self) -> int:
        self._next_id += 1
        return self._next_id

    def validate(self, module: str, events: list, by_id: dict = None, **kwargs):
        """ Ships events to a trace spec; every rejection becomes a failure built by
            by_id[event id] (a dict with op/input/call/observed/features...) plus the clause.
        """
        res = tracemod.validate(module, events, self.workdir, **kwargs)
        self.states += res.states
        self.transitions += res.transitions
        self.impl_runs += res.events
        self.notes["trace_jvms"] = self.notes.get("trace_jvms", 0) + res.jvms
        for ident, clauses in sorted(res.rejects.items()):
            for clause in sorted(set(clauses)):
                base = dict(by_id[ident]) if by_id and ident in by_id else {"op": "?", "input": {"event": ident}}
                if "/" in clause:
                    base["op"], clause = clause.split("/", 1)
                base["clause"] = clause
                self.fail(base)
        return res

    def fail(self, failure: dict):
        failure.setdefault("property", self.prop)
        failure.setdefault("features", [])
        self.failures.append(failure)

    def sample(self, obj, limit: int = 6):
        if len(self.samples) < limit:
            self.samples.append(obj)

    def nontrivial_case(self, key):
        self.nontrivial.add(key if isinstance(key, (str, int, tuple)) else canon(key))

    # --- wrap up -----------------------------------------------------------------------------
    def finish(self) -> int:
        findings = Findings()
        known = {}
        violations = []
        for failure in self.failures:
            ident = findings.match(failure)
            failure["finding"] = ident
            if ident:
                known.setdefault(ident, []).append(failure)
            else:
                violations.append(failure)
        for ident, items in sorted(known.items()):
            print(f"KNOWN-FINDING: property={self.prop} {ident} {findings.describe(ident)} ({len(items)} cases)")
        replay_paths = []
        for stale in glob.glob(os.path.join(VERIF, "replays", f"{self.prop}_*.json")):
            os.unlink(stale)
        if violations:
            os.makedirs(os.path.join(VERIF, "replays"), exist_ok=True)
            by_clause = {}
            for failure in violations:
                by_clause.setdefault((failure["op"], failure["clause"]), []).append(failure)
            for (op, clause), items in sorted(by_clause.items()):
                first = items[0]
                name = f"{self.prop}_{op}_{clause}".replace(":", "_").replace("/", "_").replace(" ", "_")[:80]
                path = os.path.join(VERIF, "replays", f"{name}_{case_key(first)}.json")
                record = dict(first)
                record.update({"tier": self.tier, "seed": self.seed, "repo_head": _head(),
                               "same_clause_failures": len(items)})
                with open(path, "w", encoding="utf-8") as handle:
                    json.dump(record, handle, indent=1, sort_keys=True, default=str)
                replay_paths.append(path)
                print(f"VIOLATION property={self.prop} replay={path}")
                print(f"  op={op} clause={clause} cases={len(items)} input={canon(first['input'])[:300]}")
                if first.get("call"):
                    print(f"  call: {first['call']}")
                if "observed" in first:
                    print(f"  observed: {canon(first['observed'])[:300]}")
        coverage = {
            "states": self.states,
            "transitions": self.transitions,
            "traces_validated_against_impl": self.impl_runs,
            "samples": self.samples or ["(no sample recorded)"],
            "evaluations": max(self.evaluations, self.impl_runs),
            "distinct_nontrivial": len(self.nontrivial) + self.nontrivial_extra,
            "rule": self.rule,
            "exhaustive": bool(self.exhaustive),
            "model_runs": self.model_runs,
            "known_findings_hit": {k: len(v) for k, v in known.items()},
            "failures_total": len(self.failures),
        }
        coverage.update(self.notes)
        if self.states < 1 or self.transitions < 1:
            raise MachineryError("no model states explored: evidence would be empty")
        evidence.write(self.prop, self.tier, self.seed, coverage, self.timer.elapsed(), len(violations),
                       self.assumptions)
        status = "VIOLATED" if violations else "held"
        print(f"[{self.prop}] {self.tier}: {status}; model states={self.states} impl executions={self.impl_runs} "
              f"failures={len(self.failures)} (known={len(self.failures) - len(violations)}) "
              f"wall={self.timer.elapsed()}s")
        return 1 if violations else 0


def _head() -> str:
    try:
        return subprocess.run(["git", "-C", REPO, "rev-parse", "HEAD"], stdout=subprocess.PIPE,
                              check=False).stdout.decode().strip()
    except OSError:
        return ""
