""" Parser for TLA+ values as TLC prints them (state dumps, PrintT lines, simulation traces).

    tuple/sequence -> list, set -> TSet (a list subclass, sorted as printed), record -> dict,
    function -> dict (keys keep their python type), interval a..b -> TSet of ints,
    strings/ints/booleans -> python values, model values -> str.
"""

import re


class TSet(list):
    """ A TLA+ set (kept as a list in TLC's print order so that it stays JSON serialisable). """


_TOKEN = re.compile(r"""
    \s*(?:
      (?P<str>"(?:[^"\\]|\\.)*")
    | (?P<int>-?\d+)
    | (?P<sym><<|>>|\|->|:>|@@|\.\.|[\[\]{}(),])
    | (?P<id>[A-Za-z_][A-Za-z0-9_!]*)
    )""", re.X)


def tokenize(text: str):
    pos = 0
    tokens = []
    length = len(text)
    while pos < length:
        match = _TOKEN.match(text, pos)
        if not match:
            if text[pos:].strip() == "":
                break
            raise ValueError(f"cannot tokenize TLA value at: {text[pos:pos + 40]!r}")
        pos = match.end()
        kind = match.lastgroup
        tokens.append((kind, match.group(kind)))
    return tokens


def _unescape(raw: str) -> str:
    body = raw[1:-1]
    return body.replace('\\"', '"').replace("\\\\", "\\").replace("\\n", "\n").replace("\\t", "\t")


class _Parser:
    def __init__(self, tokens):
        self.toks = tokens
        self.i = 0

    def peek(self):
        return self.toks[self.i] if self.i < len(self.toks) else (None, None)

    def take(self, value=None):
        tok = self.toks[self.i]
        if value is not None and tok[1] != value:
            raise ValueError(f"expected {value!r}, found {tok[1]!r} at token {self.i}")
        self.i += 1
        return tok

    def value(self):
        kind, val = self.peek()
        if kind == "str":
            self.take()
            return _unescape(val)
        if kind == "int":
            self.take()
            low = int(val)
            if self.peek()[1] == "..":
                self.take()
                high = int(self.take()[1])
                return TSet(range(low, high + 1))
            return low
        if kind == "id":
            self.take()
            if val == "TRUE":
                return True
            if val == "FALSE":
                return False
            return val
        if val == "<<":
            self.take()
            items = self.items(">>")
            return items
        if val == "{":
            self.take()
            return TSet(self.items("}"))
        if val == "[":
            self.take()
            rec = {}
            if self.peek()[1] == "]":
                self.take()
                return rec
            while True:
                key = self.take()[1]
                self.take("|->")
                rec[key] = self.value()
                if self.peek()[1] == ",":
                    self.take()
                    continue
                self.take("]")
                return rec
        if val == "(":
            self.take()
            func = {}
            while True:
                key = self.value()
                self.take(":>")
                func[_hashable(key)] = self.value()
                if self.peek()[1] == "@@":
                    self.take()
                    continue
                self.take(")")
                return func
        raise ValueError(f"unexpected token {val!r}")

    def items(self, closer):
        out = []
        if self.peek()[1] == closer:
            self.take()
            return out
        while True:
            out.append(self.value())
            if self.peek()[1] == ",":
                self.take()
                continue
            self.take(closer)
            return out


def _hashable(value):
    if isinstance(value, list):
        return tuple(_hashable(v) for v in value)
    if isinstance(value, dict):
        return tuple(sorted((k, _hashable(v)) for k, v in value.items()))
    return value


def parse(text: str):
    parser = _Parser(tokenize(text))
    value = parser.value()
    if parser.i != len(parser.toks):
        raise ValueError(f"trailing tokens in TLA value: {parser.toks[parser.i:parser.i + 5]}")
    return value


def read_dump(path: str, keep=None):
    """ Yields one dict {variable: value} per state of a `-dump` file.
        keep(text) -> bool pre-filters raw state blocks before they are parsed.
    """
    def emit(text):
        if text.strip() and (keep is None or keep(text)):
            yield _state(text)

    with open(path, encoding="utf-8") as handle:
        block = []
        for line in handle:
            if line.startswith("State "):
                yield from emit("".join(block))
                block = []
            else:
                block.append(line)
        yield from emit("".join(block))


_VAR = re.compile(r"^(?:/\\ )?(\w+) = ", re.M)


def _state(text: str) -> dict:
    found = list(_VAR.finditer(text))
    state = {}
    for idx, match in enumerate(found):
        end = found[idx + 1].start() if idx + 1 < len(found) else len(text)
        state[match.group(1)] = parse(text[match.end():end])
    return state


def to_tla(value) -> str:
    """ Python value -> TLA+ expression text (for generated MC_*.tla wrappers). """
    if isinstance(value, bool):
        return "TRUE" if value else "FALSE"
    if isinstance(value, int):
        return str(value)
    if isinstance(value, str):
        return '"' + value.replace("\\", "\\\\").replace('"', '\\"') + '"'
    if isinstance(value, (TSet, set, frozenset)):
        return "{" + ", ".join(to_tla(v) for v in value) + "}"
    if isinstance(value, (list, tuple)):
        return "<<" + ", ".join(to_tla(v) for v in value) + ">>"
    if isinstance(value, dict):
        if not value:
            return "<<>>"
        if all(isinstance(k, str) and re.fullmatch(r"[A-Za-z_]\w*", k) for k in value):
            return "[" + ", ".join(f"{k} |-> {to_tla(v)}" for k, v in value.items()) + "]"
        return "(" + " @@ ".join(f"{to_tla(k)} :> {to_tla(v)}" for k, v in value.items()) + ")"
    raise TypeError(f"cannot render {value!r} as TLA+")
