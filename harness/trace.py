""" Trace validation: observations recorded from the real code are shipped to a *_Trace.tla
    module as ndjson; TLC returns one verdict per event (only rejections are printed).
"""

import json
import os
import re
from concurrent.futures import ThreadPoolExecutor

from . import tlc
from .common import CPUS, MachineryError, chunks

# TLC pretty-prints tuples longer than 80 columns over several lines: match across whitespace/newlines
_REJECT = re.compile(r'<<\s*"REJECT",\s*(-?\d+),\s*"((?:[^"\\]|\\.)*)"\s*>>')
_DONE = re.compile(r'<<\s*"DONE",\s*(\d+)\s*>>')

TRACE_CFG = "SPECIFICATION Spec\n"


class TraceResult:
    def __init__(self):
        self.rejects = {}     # event id -> list of failed clauses ("op/clause")
        self.events = 0
        self.states = 0
        self.transitions = 0
        self.jvms = 0


def validate(module: str, events: list, workdir: str, *, shards: int = None, extra_files: dict = None,
             cfg: str = TRACE_CFG, min_per_shard: int = 400, timeout: int = 1800, heap: str = "3g") -> TraceResult:
    """ Validates events (dicts with a unique integer "id") against `module`.
        Sharded over JVMs; each event is decided independently by the module's Verdict.
    """
    result = TraceResult()
    if not events:
        return result
    shards = shards or CPUS
    shards = max(1, min(shards, len(events) // min_per_shard or 1))
    parts = chunks(events, shards)
    tlc.stage(workdir, extra_files)

    def one(idx_part):
        idx, part = idx_part
        path = os.path.join(workdir, f"trace_{module}_{idx}.ndjson")
        with open(path, "w", encoding="utf-8") as handle:
            for event in part:
                handle.write(json.dumps(event, separators=(",", ":")))
                handle.write("\n")
        run = tlc.run(module, cfg, workdir, workers=1, env={"TRACE_FILE": path}, tag=f"_{idx}",
                      timeout=timeout, heap=heap)
        os.unlink(path)
        return part, run

    with ThreadPoolExecutor(max_workers=len(parts)) as pool:
        outcomes = list(pool.map(one, enumerate(parts)))
    for part, run in outcomes:
        done = _DONE.findall(run.out)
        if run.rc != 0 or not done or int(done[-1]) != len(part):
            tail = "\n".join(run.out.splitlines()[-30:])
            raise MachineryError(f"trace validation by {module} did not complete (rc={run.rc}):\n{tail}")
        found = _REJECT.findall(run.out)
        if len(found) != run.out.count('"REJECT"'):
            raise MachineryError(f"unparsable REJECT line in the output of {module}: "
                                 f"{run.out.count(chr(34) + 'REJECT' + chr(34))} printed, {len(found)} parsed")
        for ident, clause in found:
            result.rejects.setdefault(int(ident), []).append(clause)
        result.events += len(part)
        result.states += run.distinct
        result.transitions += run.generated
        result.jvms += 1
    return result
