""" Driving a real secmet Record along RecordSM calls and projecting it (C06, C08, later C10/C12/C19). """

from .common import import_repo

import_repo()

from antismash.common.secmet.features import Protocluster, SubRegion  # noqa: E402
from antismash.common.secmet.qualifiers.gene_functions import GeneFunction  # noqa: E402
from antismash.common.secmet.test.helpers import DummyCDS  # noqa: E402

from . import build, project  # noqa: E402


class Driver:
    """ One real Record plus the identity maps between universe ids and real features. """

    def __init__(self, uni: dict):
        self.uni = uni
        self.record = build.record(uni["L"], uni["circ"])
        self.gene_of = {}       # id(real cds) -> gene id
        self.area_of = {}       # id(real area) -> area id
        self.keep = []          # keeps removed features alive so ids stay unique
        self.made = {}          # area id -> the real feature built for it

    def apply(self, call: dict) -> str:
        """ Performs the call; returns "" or the exception name. """
        op, arg = call["op"], call["arg"]
        record = self.record
        try:
            if op == "AddGene":
                gene = self.uni["genes"][arg - 1]
                cds = DummyCDS(location=build.loc(gene["loc"]), locus_tag=f"g{arg}")
                for product in gene["core_for"]:
                    cds.gene_functions.add(GeneFunction.CORE, "verif", "core gene", product)
                self.gene_of[id(cds)] = arg
                self.keep.append(cds)
                record.add_cds_feature(cds)
            elif op == "AddProto":
                area = self.uni["areas"][arg - 1]
                # an area that was cleared and is added again is the same object (clearing and re-creating areas)
                proto = self.made.get(arg)
                if proto is None and area.get("sideloaded"):
                    # an externally annotated protocluster (universes that ask for it only)
                    from antismash.common.secmet.features.protocluster import SideloadedProtocluster  # pylint: disable=import-outside-toplevel
                    proto = SideloadedProtocluster(build.loc(area["core"]), build.loc(area["extent"]), tool="verif",
                                                   product=area["product"], neighbourhood_range=1)
                    self.made[arg] = proto
                if proto is None:
                    proto = Protocluster(build.loc(area["core"]), build.loc(area["extent"]), tool="verif",
                                         product=area["product"], cutoff=1, neighbourhood_range=1, detection_rule="rule")
                    self.made[arg] = proto
                self.area_of[id(proto)] = arg
                self.keep.append(proto)
                record.add_protocluster(proto)
            elif op == "AddSub":
                area = self.uni["areas"][arg - 1]
                sub = self.made.get(arg)
                if sub is None:
                    sub = SubRegion(build.loc(area["extent"]), tool="verif", label=f"s{arg}")
                    self.made[arg] = sub
                self.area_of[id(sub)] = arg
                self.keep.append(sub)
                record.add_subregion(sub)
            elif op == "CreateCandidates":
                record.create_candidate_clusters()
            elif op == "CreateRegions":
                record.create_regions()
            elif op == "ClearRegions":
                self.keep.extend(record.get_regions())
                record.clear_regions()
            elif op == "ClearSubs":
                self.keep.extend(record.get_regions())
                record.clear_subregions()
            elif op == "ClearCands":
                self.keep.extend(record.get_regions())
                self.keep.extend(record.get_candidate_clusters())
                record.clear_candidate_clusters()
            elif op == "ClearProtos":
                self.keep.extend(record.get_regions())
                self.keep.extend(record.get_candidate_clusters())
                record.clear_protoclusters()
            else:
                raise ValueError(op)
        except Exception as err:  # pylint: disable=broad-except
            return type(err).__name__ + ":" + str(err)[:50].replace('"', "'")
        return ""

    def project(self) -> dict:
        record = self.record
        protos = list(record.get_protoclusters())
        subs = list(record.get_subregions())
        cands = list(record.get_candidate_clusters())
        regions = list(record.get_regions())

        def position(items, obj):
            if obj is None:
                return 0
            for idx, item in enumerate(items):
                if item is obj:
                    return idx + 1
            return -1

        def kids(area):
            return sorted(self.gene_of[id(cds)] for cds in area.cds_children)

        def numbered(items, getter, fetcher):
            out = []
            for item in items:
                try:
                    num = getter(item)
                    fetch = position(items, fetcher(num))
                except Exception:  # pylint: disable=broad-except
                    num, fetch = -1, -1
                out.append((num, fetch))
            return out

        pn = numbered(protos, record.get_protocluster_number, record.get_protocluster)
        sn = numbered(subs, record.get_subregion_number, record.get_subregion)
        cn = numbered(cands, record.get_candidate_cluster_number, record.get_candidate_cluster)
        rn = numbered(regions, record.get_region_number, record.get_region)
        genes = sorted(self.gene_of[id(cds)] for cds in record.get_cds_features())
        return {
            "genes": genes,
            "protos": [{"id": self.area_of[id(p)], "num": pn[i][0], "fetch": pn[i][1], "kids": kids(p),
                        "defs": sorted(self.gene_of[id(c)] for c in p.definition_cdses),
                        "parent": position(cands, p.parent)} for i, p in enumerate(protos)],
            "subs": [{"id": self.area_of[id(s)], "num": sn[i][0], "fetch": sn[i][1], "kids": kids(s),
                      "parent": position(regions, s.parent)} for i, s in enumerate(subs)],
            "cands": [{"kind": str(c.kind), "members": sorted(self.area_of[id(p)] for p in c.protoclusters),
                       "loc": project.loc(c.location), "num": cn[i][0], "fetch": cn[i][1], "kids": kids(c),
                       "parent": position(regions, c.parent)} for i, c in enumerate(cands)],
            "regions": [{"loc": project.loc(r.location), "num": rn[i][0], "fetch": rn[i][1],
                         "cands": sorted(position(cands, c) for c in r.candidate_clusters),
                         "subs": sorted(self.area_of[id(s)] for s in r.subregions), "kids": kids(r)}
                        for i, r in enumerate(regions)],
            "gene_region": [[self.gene_of[id(cds)], position(regions, cds.region)] for cds in record.get_cds_features()],
        }


def run_history(uni: dict, hist: list, log_from: int = 0) -> list:
    """ Replays hist on a fresh Record; returns one step record per call index >= log_from:
        {"call", "before", "after", "exc"} (stops after the first exception). """
    driver = Driver(uni)
    steps = []
    before = driver.project() if log_from == 0 else None
    for idx, call in enumerate(hist):
        if idx >= log_from and before is None:
            before = driver.project()
        exc = driver.apply(call)
        if idx >= log_from:
            after = driver.project() if not exc else before
            steps.append({"call": call, "before": before, "after": after, "exc": exc})
            before = after
        if exc:
            break
    return steps
