#!/venv/bin/python
""" Shows that the C10 / C12 binding is real: a clean event is accepted by Persist_Trace, the same event with one
    logged field corrupted is rejected with the clause that reads that field.

    usage: harness/selftest/persist_corrupt_event.py        (exit 0 iff every corruption is caught and the clean events pass)
"""
import copy
import os
import sys

sys.path.insert(0, os.path.dirname(os.path.dirname(os.path.dirname(os.path.abspath(__file__)))))

from harness import trace  # noqa: E402
from harness.common import scratch  # noqa: E402
from harness.props import c10, c12  # noqa: E402


def S(start, end, strand=1):
    return {"parts": [[start, end]], "strand": strand}


# a record without any of the known findings: line of 12, two regions, a prepeptide, a codon_start gene
UNI = {"L": 12, "circ": False,
       "genes": [{"loc": S(1, 2), "core_for": ["a"], "pay": 5}, {"loc": S(9, 10, -1), "core_for": ["b"], "pay": 2}],
       "areas": [{"kind": "proto", "core": S(1, 2), "extent": S(1, 4), "product": "a", "pay": 0},
                 {"kind": "sub", "core": S(3, 6), "extent": S(3, 6), "product": "sub", "pay": 0},
                 {"kind": "proto", "core": S(9, 10), "extent": S(8, 11), "product": "b", "pay": 2}]}
HIST = [{"op": "AddGene", "arg": 1}, {"op": "AddGene", "arg": 2}, {"op": "AddProto", "arg": 1}, {"op": "AddSub", "arg": 2},
        {"op": "AddProto", "arg": 3}, {"op": "CreateCandidates", "arg": 0}, {"op": "CreateRegions", "arg": 0}]


def main() -> int:
    case = {"id": 0, "uni": UNI, "hist": HIST, "seed": 0, "sampled": False}
    roundtrip = c10.observe(case)
    assert not roundtrip.pop("build")
    extract = c12.observe(case)[0]   # region 1 (starts at base 36: every location is shifted)
    extract.pop("build")
    extract.pop("info")
    events = [dict(roundtrip, id=0), dict(extract, id=1)]
    expect = {0: set(), 1: set()}

    def corrupt(base, mutate, clause):
        event = copy.deepcopy(base)
        mutate(event)
        event["id"] = len(events)
        events.append(event)
        expect[event["id"]] = {clause}

    corrupt(roundtrip, lambda e: e["gb"].update(out2="hffffffffffff"), "genbank/first_output_is_a_fixed_point")
    corrupt(roundtrip, lambda e: e["json"]["after"]["feats"][0].update(pay="hffffffffffff"), "json/same_features_locations_and_annotations")
    corrupt(roundtrip, lambda e: e["file"]["after"]["protos"][0]["core"]["parts"][0].__setitem__(0, 1), "results_file/same_protoclusters")
    corrupt(roundtrip, lambda e: e["gb"]["after"]["cands"][0].update(protos=[2]), "genbank/same_candidates_with_same_protoclusters")
    corrupt(roundtrip, lambda e: e["gb"]["after"].update(circ=True), "genbank/same_topology")
    corrupt(extract, lambda e: e["ex"]["seq"].__setitem__(5, (e["ex"]["seq"][5] + 1) % 3), "extract/sequence_is_the_region_sequence")
    corrupt(extract, lambda e: e["ex"]["rec"]["feats"][0]["loc"]["parts"][0].__setitem__(1, e["ex"]["rec"]["feats"][0]["loc"]["parts"][0][1] + 3),
            "extract/every_feature_inside_is_present_covering_the_same_bases")
    corrupt(extract, lambda e: e["ex"]["rec"]["feats"][0].update(dna="hffffffffffff"), "extract/shifted_features_read_the_same_bases")
    corrupt(extract, lambda e: e["ex"]["raw"].update(region_cands=[7]), "extract/file_cross_references_use_the_new_numbers")
    corrupt(extract, lambda e: e.update(bio_locs_after="hffffffffffff"), "extract/biopython_record_locations_restored")
    corrupt(extract, lambda e: e["ex"]["pairs"][0]["new"]["parts"][0].__setitem__(0, e["ex"]["pairs"][0]["new"]["parts"][0][0] + 1),
            "extract/named_features_cover_the_same_bases")
    with scratch("verif_persist_corrupt_") as workdir:
        result = trace.validate("Persist_Trace", events, workdir, shards=1)
    failed = 0
    for ident in sorted(expect):
        got = set(result.rejects.get(ident, []))
        ok = expect[ident] <= got if expect[ident] else not got
        print(("ok   " if ok else "FAIL ") + f"event {ident}: expected {sorted(expect[ident]) or 'no rejection'}, rejected clauses {sorted(got)}")
        failed += not ok
    return 1 if failed else 0


if __name__ == "__main__":
    sys.exit(main())
