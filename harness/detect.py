""" Materialising abstract (scene, ruleset) pairs and running the real detection pipeline on them
    (shared by C03, C07, C17). No oracle in here: build, run, project.
"""

from .common import import_repo

import_repo()

from antismash.common.hmm_rule_parser import rule_parser  # noqa: E402
from antismash.common.hmm_rule_parser.cluster_prediction import Ruleset, detect_protoclusters_and_signatures  # noqa: E402
from antismash.common.hmm_rule_parser.structures import DynamicHit, DynamicProfile  # noqa: E402
from antismash.common.secmet.test.helpers import DummyCDS, DummyRecord  # noqa: E402

from . import build, project, rules as R  # noqa: E402

PROFILES = ["a", "b", "c", "d", "e"]


def unscale_loc(loc: dict, scale: int) -> dict:
    if scale == 1:
        return loc
    parts = []
    for start, end in loc["parts"]:
        parts.append([-(-start // scale), end // scale])   # inward rounding (only the deliberate seam is off-grid)
    return {"parts": parts, "strand": loc["strand"]}


def make_record(scene: dict, scale: int = 1):
    record = DummyRecord(seq="A" * (scene["L"] * scale), circular=scene["circ"])
    for idx, loc in enumerate(scene["locs"]):
        name = R.gene_name(idx)
        record.add_cds_feature(DummyCDS(location=build.loc(R.scale_loc(loc, scale)), locus_tag=name))
    return record


def make_ruleset(scene: dict, rules: list, scale: int = 1, reuse=None):
    """ abstract rules -> real Ruleset with one DynamicProfile per profile closing over the hit table """
    texts = []
    for rule in rules:
        texts.append(R.rule_text(rule["name"], rule["cond"], rule["cutoff"], rule["nbhd"],
                                 extenders=rule["ext"] if rule["hasExt"] else None, superiors=rule["sup"]))
    parsed = rule_parser.Parser("\n".join(texts), set(PROFILES), {"cat"}).rules
    if scale == 1:
        for real, rule in zip(parsed, rules):
            real.cutoff = rule["cutoff"]
            real.neighbourhood = rule["nbhd"]
    if reuse is not None:
        # the rule objects of an earlier ruleset (the pipeline keeps one ruleset for all records of a run)
        parsed = reuse.rules
    table = {}
    for idx, gene_hits in enumerate(scene["hits"]):
        for hit in gene_hits:
            table.setdefault(hit["p"], {})[R.gene_name(idx)] = hit["s"]

    def maker(profile):
        def find(_record, _hmmer_hits):
            return {gene: [DynamicHit(gene, profile, bitscore=float(score))]
                    for gene, score in table.get(profile, {}).items()}
        return DynamicProfile(profile, "abstract profile", find)

    return Ruleset(tuple(parsed), {}, "", {"cat"}, "verif", dynamic_profiles={p: maker(p) for p in PROFILES},
                   equivalence_groups=[])


def project_protos(results, scale: int, with_objects: bool = False):
    out = []
    for proto in results.protoclusters:
        defs = []
        for cds_result in results.cds_by_cluster[proto]:
            if cds_result.definition_domains.get(proto.product):
                defs.append(int(cds_result.cds.get_name()[1:]))
        out.append(({"rule": proto.product,
                     "core": unscale_loc(project.loc(proto.core_location), scale),
                     "extent": unscale_loc(project.loc(proto.location), scale),
                     "defs": sorted(defs)}, proto))
    out.sort(key=lambda pair: (pair[0]["rule"], pair[0]["core"]["parts"], pair[0]["extent"]["parts"]))
    if with_objects:
        return [pair[0] for pair in out], [pair[1] for pair in out]
    return [pair[0] for pair in out]


def detect(scene: dict, rules: list, scale: int = 1, earlier_hits: list = None) -> list:
    """ earlier_hits: the hit table of another record with equally named genes that the same rule objects were used on
        first, as for the second record of a multi-record run """
    used = None
    if earlier_hits is not None:
        earlier = dict(scene, hits=earlier_hits)
        used = make_ruleset(earlier, rules, scale)
        detect_protoclusters_and_signatures(make_record(earlier, scale), used)
    record = make_record(scene, scale)
    results = detect_protoclusters_and_signatures(record, make_ruleset(scene, rules, scale, reuse=used))
    return project_protos(results, scale)


def full_run(scene: dict, rules: list, scale: int = 1) -> dict:
    """ detection -> protoclusters added -> candidates -> regions; everything projected.
        Candidates carry their member protoclusters as 1-based indices into "protos", regions their candidates
        as indices into "cands" and the genes they list. """
    record = make_record(scene, scale)
    results = detect_protoclusters_and_signatures(record, make_ruleset(scene, rules, scale))
    protos, objects = project_protos(results, scale, with_objects=True)
    index_of = {id(obj): idx + 1 for idx, obj in enumerate(objects)}
    results.annotate_cds_features()
    for proto in results.protoclusters:
        record.add_protocluster(proto)
    # the defining genes as the record sees them (core gene functions inside the core)
    for entry, obj in zip(protos, objects):
        entry["defs"] = sorted(int(cds.get_name()[1:]) for cds in obj.definition_cdses)
    record.create_candidate_clusters()
    record.create_regions()
    real_cands = list(record.get_candidate_clusters())
    cand_index = {id(c): idx + 1 for idx, c in enumerate(real_cands)}
    cands = [{"kind": str(c.kind), "loc": unscale_loc(project.loc(c.location), scale),
              "members": sorted(index_of[id(p)] for p in c.protoclusters)} for c in real_cands]
    regions = [{"kind": "region", "loc": unscale_loc(project.loc(r.location), scale),
                "cands": sorted(cand_index[id(c)] for c in r.candidate_clusters),
                "kids": sorted(int(cds.get_name()[1:]) for cds in r.cds_children)} for r in record.get_regions()]
    return {"protos": protos, "cands": cands, "regions": regions}
