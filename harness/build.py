""" Materialisers: abstract JSON values -> real antiSMASH objects (import_repo() first). """

from .common import import_repo

import_repo()

from antismash.common.secmet.locations import CompoundLocation, FeatureLocation  # noqa: E402


def loc(abstract: dict):
    """ {"parts": [[s, e], ...], "strand": s} -> FeatureLocation / CompoundLocation """
    strand = abstract["strand"] if abstract["strand"] in (1, -1) else None
    parts = [FeatureLocation(int(s), int(e), strand) for s, e in abstract["parts"]]
    if len(parts) == 1:
        return parts[0]
    return CompoundLocation(parts)


def record(length: int, circular: bool, seq: str = None):
    from antismash.common.secmet.test.helpers import DummyRecord  # pylint: disable=import-outside-toplevel
    return DummyRecord(seq=seq or "A" * length, circular=circular)
