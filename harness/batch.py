""" Batched observe -> validate loop so that thorough tiers keep memory bounded. """

from .common import CPUS, chunks, pmap


def run_batches(ctx, module: str, cases: list, observe_many, describe, *, batch: int = 20000,
                min_per_shard: int = 200, keep_events: bool = False):
    """ cases: dicts with unique int "id". observe_many(list of cases) -> list of events (same order).
        describe(case, event) -> by_id entry (op, input, call, observed, features, sampled).
        Returns {id: event} for the ids in `keep` (samples) only, to stay small.
    """
    kept = {}
    for start in range(0, len(cases), batch):
        part = cases[start:start + batch]
        events = [ev for sub in pmap(observe_many, chunks(part, CPUS * 4)) for ev in sub]
        by_id = {}
        for case, event in zip(part, events):
            by_id[case["id"]] = describe(case, event)
        if keep_events:
            kept.update({ev["id"]: ev for ev in events})
        ctx.validate(module, events, by_id, min_per_shard=min_per_shard)
        del events, by_id
    return kept
