""" Real annotated records for the persistence properties (C10 round trips, C12 region extracts).

    A case is an abstract universe of genes / areas (RecordSM vocabulary, extended with a payload id per gene and area)
    plus a history of RecordSM calls. The record enters the way real inputs do: a GenBank skeleton (header annotations,
    source feature, real sequence) is *parsed* and converted with Record.from_biopython; the calls are then applied
    through the secmet API on real coordinates (abstract unit = SCALE bases) with real translations and the payload
    table below attached by payload id. Nothing in here decides anything: records are built, the code under test is
    called, and records are projected to the abstract JSON of Persist.tla.
"""

import hashlib
import io
import json
import os
import random
import tempfile

from .common import import_repo

import_repo()

from Bio import SeqIO  # noqa: E402
from Bio.Seq import Seq  # noqa: E402
from Bio.SeqFeature import Reference, SeqFeature  # noqa: E402
from Bio.SeqRecord import SeqRecord  # noqa: E402

from antismash.common import serialiser  # noqa: E402
from antismash.common.secmet import Record  # noqa: E402
from antismash.common.secmet.features import (  # noqa: E402
    AntismashDomain, CDSFeature, CDSMotif, Module, PFAMDomain, Prepeptide, Protocluster, SubRegion,
)
from antismash.common.secmet.features.protocluster import SideloadedProtocluster  # noqa: E402
from antismash.common.secmet.features.subregion import SideloadedSubRegion  # noqa: E402
from antismash.common.secmet.locations import FeatureLocation  # noqa: E402
from antismash.common.secmet.qualifiers import GeneFunction, SecMetQualifier  # noqa: E402
from antismash.common.secmet.qualifiers.go import GOQualifier  # noqa: E402
from antismash.common.secmet.qualifiers.t2pks import T2PKSQualifier  # noqa: E402
from antismash.detection.nrps_pks_domains.modular_domain import ModularDomain  # noqa: E402

from . import build, project  # noqa: E402

SCALE = 36       # bases per abstract unit
MARGIN = 3       # genes stay this far inside their abstract cell (room for codon_start, keeps containment exact)
TAXON = "bacteria"
RECORD_ID = "VRF00001.1"

# ---- payload table (DESIGN section 4): fidelity is claimed for exactly this content ----------------------------
ODD_NOTES = ["5'-3' exonuclease; \"quoted\" text, semi;colon = a/b (c) [d] {e} ~ 100% <x> & more",
             "second note with a very long run of words so that the GenBank writer has to wrap this qualifier value over "
             "more than one line of the flat file and the parser has to join it again without changing it"]
GENE_PAYLOADS = {
    0: "plain gene added through the API",
    1: "input-style CDS + gene pair: locus_tag, gene, protein_id, product, two notes with odd characters, several db_xref, "
       "EC_number, inference, transl_table",
    2: "input-style CDS with codon_start=2",
    3: "gene functions of several tools and kinds, sec_met domains",
    4: "NRPS/PKS qualifier, three aSDomains (modular with subtype + specificity, plain with active sites and e-value 0.0), a complete "
       "starter module with monomers, a PFAM domain with gene ontologies, a CDS motif",
    5: "prepeptide with leader / core / tail and alternative weights, plus a CDS motif",
    6: "input-style CDS with codon_start=3 and a note",
}
PROTO_PAYLOADS = {0: "rule-based protocluster", 1: "sideloaded protocluster with extra qualifiers",
                  2: "protocluster with type II PKS qualifier (even universe positions: starter units and product classes only)"}
SUB_PAYLOADS = {0: "subregion with label", 1: "sideloaded subregion with extra qualifiers"}
CORE_TEXT = "PKS_KS"
FREE_KEYS = ["db_xref", "EC_number", "inference", "function", "old_locus_tag", "organism", "mol_type", "strain",
             "gene_synonym", "pseudo", "regulatory_class", "bound_moiety"]


# ---- coordinates ----------------------------------------------------------------------------------------------
def scale_loc(loc: dict) -> dict:
    return {"parts": [[s * SCALE, e * SCALE] for s, e in loc["parts"]], "strand": loc["strand"]}


def gene_loc(loc: dict) -> dict:
    """ the real location of a gene: its scaled cell pulled in by MARGIN at both outer ends """
    parts = [[s * SCALE, e * SCALE] for s, e in loc["parts"]]
    fwd = parts[::-1] if loc["strand"] == -1 else parts
    fwd[0][0] += MARGIN
    fwd[-1][1] -= MARGIN
    return {"parts": parts, "strand": loc["strand"]}


def real_universe(uni: dict) -> dict:
    """ the universe in real coordinates (what the events carry) """
    return {"L": uni["L"] * SCALE, "circ": uni["circ"],
            "genes": [{"loc": gene_loc(g["loc"]), "core_for": list(g["core_for"]), "pay": g.get("pay", 0)} for g in uni["genes"]],
            "areas": [{"kind": a["kind"], "core": scale_loc(a["core"]), "extent": scale_loc(a["extent"]),
                       "product": a["product"], "pay": a.get("pay", 0)} for a in uni["areas"]]}


def sequence(length: int, seed: int) -> str:
    """ no T: no stop codon in any frame of either strand, so every gene has a full-length real translation """
    rng = random.Random(seed * 7919 + length)
    return "".join(rng.choice("ACG") for _ in range(length))


def skeleton_text(length: int, circ: bool, seed: int) -> str:
    """ GenBank text of an unannotated input record with ordinary header content """
    bio = SeqRecord(Seq(sequence(length, seed)), id=RECORD_ID, name=RECORD_ID.split(".", maxsplit=1)[0],
                    description="Streptomyces verificans strain V1 chromosome, complete sequence")
    ref = Reference()
    ref.authors = "Model,A. and Checker,B."
    ref.title = "Direct Submission"
    ref.journal = "Submitted (01-JAN-2020) Somewhere"
    ref.location = [FeatureLocation(0, length)]
    bio.annotations.update({
        "molecule_type": "DNA", "topology": "circular" if circ else "linear", "data_file_division": "BCT",
        "date": "01-JAN-2020", "accessions": ["VRF00001"], "sequence_version": 1, "keywords": [""],
        "source": "Streptomyces verificans", "organism": "Streptomyces verificans",
        "taxonomy": ["Bacteria", "Actinomycetota", "Actinomycetes", "Kitasatosporales", "Streptomycetaceae", "Streptomyces"],
        "references": [ref], "comment": "Synthetic record for verification.\nSecond comment line.",
    })
    source = SeqFeature(FeatureLocation(0, length, 1), type="source")
    source.qualifiers["organism"] = ["Streptomyces verificans"]
    source.qualifiers["mol_type"] = ["genomic DNA"]
    source.qualifiers["strain"] = ["V1"]
    source.qualifiers["db_xref"] = ["taxon:1234567"]
    bio.features.append(source)
    # generic features as annotated input files carry them (kept as plain Features with their notes and qualifiers)
    misc = SeqFeature(FeatureLocation(length - 30, length - 4, -1), type="misc_feature")
    misc.qualifiers["note"] = ["similar to a transposase; \"IS element\"", "possible pseudogene"]
    misc.qualifiers["db_xref"] = ["PSEUDO:X12345.1"]
    bio.features.append(misc)
    regulatory = SeqFeature(FeatureLocation(SCALE + 5, SCALE + 11, 1), type="regulatory")
    regulatory.qualifiers["regulatory_class"] = ["ribosome_binding_site"]
    regulatory.qualifiers["note"] = ["RBS of the first gene"]
    bio.features.append(regulatory)
    # a feature whose parts are listed with order(...) instead of join(...), as annotated inputs sometimes have them
    from Bio.SeqFeature import CompoundLocation as BioCompound, FeatureLocation as BioLocation
    ordered = SeqFeature(BioCompound([BioLocation(2 * SCALE + 4, 2 * SCALE + 10, 1), BioLocation(2 * SCALE + 20, 2 * SCALE + 27, 1)],
                                     operator="order"), type="misc_binding")
    ordered.qualifiers["note"] = ["two binding sites of one factor"]
    ordered.qualifiers["bound_moiety"] = ["some factor"]
    bio.features.append(ordered)
    handle = io.StringIO()
    SeqIO.write([bio], handle, "genbank")
    return handle.getvalue()


def parse_record(text: str) -> Record:
    return Record.from_biopython(next(SeqIO.parse(io.StringIO(text), "genbank")), TAXON)


# ---- driver ---------------------------------------------------------------------------------------------------
class Driver:
    """ One real Record built from a parsed skeleton, driven along RecordSM calls. `uni` is the *abstract* universe. """

    def __init__(self, uni: dict, seed: int = 0):
        self.uni = uni
        self.real = real_universe(uni)
        self.record = parse_record(skeleton_text(self.real["L"], uni["circ"], seed))
        self.keep = []
        self.seed = seed

    # -- genes --
    def _translation(self, location) -> str:
        return str(self.record.get_aa_translation_from_location(location))

    def _tag(self, idx: int, gene: dict) -> str:
        """ the gene's name: short, or - for every other annotated gene with domains / a prepeptide - as long as the names
            of draft assemblies get, which GenBank files have to wrap over two lines """
        if gene.get("pay") in (4, 5) and (self.seed + idx) % 2 == 0:
            return f"g{idx}_DRAFT_ASSEMBLY_SCAFFOLD_00012_ORF_000345_joined"
        return f"g{idx}"

    def _add_input_gene(self, idx: int, gene: dict, codon_start: int, rich: bool):
        """ the gene arrives as Biopython features, the way the CDSs of an annotated input file do """
        location = build.loc(gene["loc"])
        tag = self._tag(idx, gene)
        bio_location = location
        qualifiers = {"locus_tag": [tag]}
        if codon_start > 1:
            # the file's location starts codon_start-1 bases before the first full codon
            bio_location = location.clone_with_frameshift(codon_start, undo=True)
            qualifiers["codon_start"] = [str(codon_start)]
            qualifiers["note"] = ["partial at the start; frame from codon_start"]
        qualifiers["translation"] = [self._translation(location)]
        if gene["core_for"]:
            # as in a file written by an earlier run: the core annotations arrive with the feature
            qualifiers["gene_functions"] = [f"biosynthetic (rule-based-clusters) {product}: {CORE_TEXT}" for product in gene["core_for"]]
        qualifiers["transl_table"] = ["11"]
        if rich:
            qualifiers.update({
                "gene": [f"abc{idx}"], "protein_id": [f"VRF_P{idx:05d}.1"], "product": ["putative 3-oxoacyl-[acyl-carrier-protein] synthase"],
                "note": list(ODD_NOTES), "db_xref": ["GeneID:123456", "UniProtKB/Swiss-Prot:P12345", "GI:99"],
                "EC_number": ["2.3.1.41", "1.1.1.-"], "inference": ["COORDINATES: similar to AA sequence:RefSeq:WP_000000001.1"],
            })
            gene_feature = SeqFeature(bio_location, type="gene")
            gene_feature.qualifiers.update({"locus_tag": [tag], "gene": [f"abc{idx}"], "old_locus_tag": [f"OLD_{idx}"],
                                            "note": ["gene level note; with 'quotes'"]})
            self.record.add_biopython_feature(gene_feature)
        cds_feature = SeqFeature(bio_location, type="CDS")
        cds_feature.qualifiers.update(qualifiers)
        self.record.add_biopython_feature(cds_feature)
        return self.record.get_cds_by_name(tag)

    def _add_api_gene(self, idx: int, gene: dict):
        location = build.loc(gene["loc"])
        cds = CDSFeature(location, translation=self._translation(location), locus_tag=self._tag(idx, gene),
                         product="hypothetical protein", translation_table=11)
        # annotate first, then add: defining genes are decided when a gene meets a protocluster
        for product in gene["core_for"]:
            cds.gene_functions.add(GeneFunction.CORE, "rule-based-clusters", CORE_TEXT, product)
        self.record.add_cds_feature(cds)
        return cds

    def _sub(self, cds, start: int, end: int):
        return cds.get_sub_location_from_protein_coordinates(start, end)

    def _annotate(self, cds, pay: int):
        record = self.record
        name = cds.get_name()
        aminos = len(cds.translation)
        if pay == 3:
            cds.gene_functions.add(GeneFunction.ADDITIONAL, "rule-based-clusters", "biosynthetic-additional (rule-based-clusters) PKS_KS")
            cds.gene_functions.add(GeneFunction.TRANSPORT, "smcogs", "SMCOG1000: ABC transporter ATP-binding protein")
            cds.gene_functions.add(GeneFunction.REGULATORY, "resist", "resistance; model: x_y (a, b)")
            cds.sec_met.add_domains([SecMetQualifier.Domain("PKS_KS", 1.5e-20, 120.5, 12, "rule-based-clusters"),
                                     SecMetQualifier.Domain("p450", 2.5e-8, 33.25, 40, "rule-based-clusters"),
                                     SecMetQualifier.Domain("adh_short", 0.0, 250.0, 3, "rule-based-clusters")])
        elif pay == 4:
            third = max(1, aminos // 3)
            spans = [(0, third), (third, 2 * third), (2 * third, aminos)]
            hits = [("PKS_KS", ["PKS_KS", "Trans-AT-KS"]), ("PKS_AT", ["PKS_AT"]), ("ACP", ["ACP"])]
            domains = []
            for pos, ((start, end), (hit, detailed)) in enumerate(zip(spans, hits)):
                dom_id = f"nrpspksdomains_{name}_{hit}.{pos + 1}"
                if pos < 2:
                    domain = ModularDomain(self._sub(cds, start, end), FeatureLocation(start, end), name)
                    domain.subtypes = detailed[1:]
                    domain.specificity = ["consensus: mal", "PKS signature: Malonyl-CoA"] if pos == 1 else []
                else:
                    domain = AntismashDomain(self._sub(cds, start, end), "verif_domains", FeatureLocation(start, end), name)
                    domain.asf.add("active site serine present")
                    domain.asf.add("another site: found (x/y)")
                domain.domain = hit
                domain.domain_id = dom_id
                domain.label = f"{name}_{hit}{pos + 1}"
                domain.score = 150.5 + pos
                # boundary values: an e-value that underflowed to zero (very strong hit), a bit score of exactly zero
                domain.evalue = 0.0 if pos == 2 else 1.5e-30
                domain.database = "nrpspksdomains.hmm"
                domain.detection = "hmmscan"
                domain.translation = cds.translation[start:end]
                record.add_antismash_domain(domain)
                domains.append(domain)
                hmm = _Hit(hit, start, end, 1.5e-30, 150.5 + pos, detailed)
                cds.nrps_pks.add_domain(hmm, dom_id)
            cds.nrps_pks.type = "Type I Modular PKS"
            module = Module(self._sub(cds, 0, aminos), domains, module_type=Module.types.PKS, complete=True, starter=True)
            module.add_monomer("mal", "ccmal")
            module.add_monomer("mmal", "ccmmal")
            record.add_module(module)
            pfam = PFAMDomain(self._sub(cds, 0, third), "Beta-ketoacyl synthase, N-terminal domain", FeatureLocation(0, third),
                              identifier="PF00109.29", tool="pfam_test", locus_tag=name, domain="ketoacyl-synt")
            pfam.domain_id = f"pfam_{name}_0001"
            pfam.database = "35.0"
            pfam.detection = "hmmscan"
            pfam.score = 77.5
            pfam.evalue = 2.5e-12
            pfam.label = "ketoacyl-synt"
            pfam.translation = cds.translation[0:third]
            pfam.gene_ontologies = GOQualifier({"GO:0016746": "acyltransferase activity", "GO:0008152": "metabolic process",
                                                 # (a term whose name holds a colon itself)
                                                 "GO:0005890": "sodium:potassium-exchanging ATPase complex"})
            record.add_pfam_domain(pfam)
            motif = CDSMotif(self._sub(cds, 1, min(aminos, 4)), name, FeatureLocation(1, min(aminos, 4)), tool="motif_tool")
            motif.domain_id = f"motif_{name}_1"
            motif.label = "C1_dual_004-017"
            motif.score = 0.0
            motif.evalue = 2.5e-3
            motif.detection = "hmmscan"
            motif.database = "abmotifs"
            motif.translation = cds.translation[1:min(aminos, 4)]
            motif.notes.append("NRPS/PKS Motif: C1_dual_004-017 (e-value: 0.0025, bit-score: 12.5)")
            record.add_cds_motif(motif)
        elif pay == 5:
            leader = cds.translation[:3]
            tail = cds.translation[aminos - 2:]
            core = cds.translation[3:aminos - 2]
            prepeptide = Prepeptide(cds.location, "lanthipeptide", core, name, "lanthipeptides", "Class-II", score=12.5,
                                    monoisotopic_mass=1234.5, molecular_weight=1236.5, alternative_weights=[1254.5, 1272.5],
                                    leader=leader, tail=tail)
            record.add_cds_motif(prepeptide)
            motif = CDSMotif(self._sub(cds, 0, 2), name, FeatureLocation(0, 2), tool="motif_tool")
            motif.domain_id = f"motif_{name}_1"
            motif.label = "leader_start"
            record.add_cds_motif(motif)

    def _add_gene(self, idx: int):
        gene = self.real["genes"][idx - 1]
        pay = gene["pay"]
        if pay == 1:
            cds = self._add_input_gene(idx, gene, 1, True)
        elif pay == 2:
            cds = self._add_input_gene(idx, gene, 2, False)
        elif pay == 6:
            cds = self._add_input_gene(idx, gene, 3, False)
        else:
            cds = self._add_api_gene(idx, gene)
        self._annotate(cds, pay)

    # -- areas --
    def _add_proto(self, idx: int):
        area = self.real["areas"][idx - 1]
        core, extent = build.loc(area["core"]), build.loc(area["extent"])
        if area["pay"] == 1:
            proto = SideloadedProtocluster(core, extent, "external tool", area["product"], neighbourhood_range=SCALE,
                                           extra_qualifiers={"custom_key": ["first value", "second; value"], "other": ["x=y"]})
        else:
            proto = Protocluster(core, extent, tool="rule-based-clusters", product=area["product"], cutoff=2 * SCALE,
                                 neighbourhood_range=SCALE, detection_rule=f"(cds(a and b) or minimum(2, [c, d])) for {area['product']}",
                                 product_category="PKS")
            if area["pay"] == 2 and idx % 2:
                proto.t2pks = T2PKSQualifier(["acetyl-CoA", "malonamyl-CoA"], ["7", "8|9"], ["angucycline", "tetracycline"],
                                             {"acetyl-CoA_7": 342.5, "malonamyl-CoA_8|9": 401.125})
            elif area["pay"] == 2:
                # a cluster without a chain length factor hit: starter units and product classes, no elongations / weights
                proto.t2pks = T2PKSQualifier(["acetyl-CoA"], [], ["benzoisochromanequinone", "tetracenomycin"], {})
        self.keep.append(proto)
        self.record.add_protocluster(proto)

    def _add_sub(self, idx: int):
        area = self.real["areas"][idx - 1]
        extent = build.loc(area["extent"])
        if area["pay"] == 1:
            sub = SideloadedSubRegion(extent, "external tool", label=f"s{idx}",
                                      extra_qualifiers={"custom_key": ["a value"], "score": ["12.5"]})
        else:
            sub = SubRegion(extent, tool="cassis", label=f"s{idx}")
        self.keep.append(sub)
        self.record.add_subregion(sub)

    def apply(self, call: dict) -> str:
        op, arg = call["op"], call["arg"]
        record = self.record
        try:
            if op == "AddGene":
                self._add_gene(arg)
            elif op == "AddProto":
                self._add_proto(arg)
            elif op == "AddSub":
                self._add_sub(arg)
            elif op == "CreateCandidates":
                record.create_candidate_clusters()
                for cand in record.get_candidate_clusters():
                    if len(cand.protoclusters) > 1:
                        cand.smiles_structure = "CC(=O)C[C@H](O)C(=O)O"
                        cand.polymer = "(mal-ccmal) + (mmal)"
            elif op == "CreateRegions":
                record.create_regions()
            elif op == "ClearRegions":
                self.keep.extend(record.get_regions())
                record.clear_regions()
            elif op == "ClearSubs":
                self.keep.extend(record.get_regions())
                record.clear_subregions()
            elif op == "ClearCands":
                self.keep.extend(record.get_regions())
                self.keep.extend(record.get_candidate_clusters())
                record.clear_candidate_clusters()
            elif op == "ClearProtos":
                self.keep.extend(record.get_regions())
                self.keep.extend(record.get_candidate_clusters())
                record.clear_protoclusters()
            else:
                raise ValueError(op)
        except Exception as err:  # pylint: disable=broad-except
            return exc_text(err)
        return ""


class _Hit:
    """ HMMResult-like input of NRPSPKSQualifier.add_domain """
    def __init__(self, hit_id, start, end, evalue, bitscore, detailed):
        self.hit_id, self.query_start, self.query_end = hit_id, start, end
        self.evalue, self.bitscore, self.detailed_names = evalue, bitscore, detailed


def exc_text(err) -> str:
    """ exception type and the words of its message (numbers and punctuation dropped, so that one cause is one clause) """
    words = "".join(ch if ch.isalpha() else " " for ch in str(err).replace(RECORD_ID, "")).split()
    return type(err).__name__ + ":" + " ".join(words[:7])


def build_record(uni: dict, hist: list, seed: int = 0):
    """ -> (driver, "" | exception text of the first failing call) """
    driver = Driver(uni, seed)
    for call in hist:
        exc = driver.apply(call)
        if exc:
            return driver, exc
    return driver, ""


# ---- projection -----------------------------------------------------------------------------------------------
def digest(obj) -> str:
    text = obj if isinstance(obj, str) else json.dumps(obj, sort_keys=True, default=str)
    return "h" + hashlib.sha1(text.encode()).hexdigest()[:12]


def _notes(feature) -> list:
    return sorted(list(feature.notes) + list(feature.get_qualifier("note") or ()))


def _free(feature) -> dict:
    out = {}
    for key in FREE_KEYS:
        value = feature.get_qualifier(key)
        if value is not None:
            out[key] = list(value) if value is not True else True
    return out


def _domain_content(dom) -> dict:
    content = {"id": dom.domain_id, "tool": dom.tool, "locus": dom.locus_tag, "domain": dom.domain,
               "ploc": [int(dom.protein_location.start), int(dom.protein_location.end)], "label": dom.label,
               "score": dom.score, "evalue": dom.evalue, "database": dom.database, "detection": dom.detection,
               "translation": dom._translation, "asf": dom.asf.hits}  # pylint: disable=protected-access
    if isinstance(dom, PFAMDomain):
        content.update({"description": dom.description, "identifier": dom.identifier, "version": dom.version,
                        "go": dict(dom.gene_ontologies.go_entries) if dom.gene_ontologies else {}})
    if isinstance(dom, ModularDomain):
        content.update({"subtypes": list(dom.subtypes), "specificity": list(dom.specificity)})
    if isinstance(dom, Prepeptide):
        content.update({"class": dom.peptide_class, "subclass": dom.peptide_subclass, "core": dom.core, "leader": dom.leader,
                        "tail": dom.tail, "pscore": dom.score, "mono": dom.monoisotopic_mass, "weight": dom.molecular_weight,
                        "alt": list(dom.alternative_weights)})
    return content


def _t2pks(qual):
    if not qual:
        return None
    return {"starters": list(qual.starter_units), "elong": list(qual.malonyl_elongations), "classes": list(qual.product_classes),
            "weights": dict(qual.molecular_weights)}


def _operator(location, length: int) -> str:
    """ the operator of a location that really is in several pieces (abutting parts are one piece, as in the comparison
        of locations: the reader may cut a part into abutting pieces, and the two parts of a span over the origin abut on
        the ring and become one part in a region extract) """
    parts = list(location.parts)
    pieces = 1
    for prev, part in zip(parts, parts[1:]):
        ends = {(int(prev.end), int(part.start)), (int(part.end), int(prev.start))}
        if not any(a == b or (a == length and b == 0) for a, b in ends):
            pieces += 1
    return str(getattr(location, "operator", "") or "") if pieces > 1 else ""


def content_of(feature, record) -> tuple:
    """ -> (content carried across both kinds of round trip, additional content that depends on the feature's place in
            the record and is therefore not expected in a region extract) """
    base = {"cls": type(feature).__name__, "type": feature.type, "notes": _notes(feature),
            "antismash": bool(feature.created_by_antismash),
            # join(...) / order(...): how the parts of a location in several parts are meant
            "operator": _operator(feature.location, len(record.seq))}
    placed = {}
    if isinstance(feature, CDSFeature):
        base.update({"locus_tag": feature.locus_tag, "protein_id": feature.protein_id, "gene": feature.gene, "product": feature.product,
                     "translation": feature.translation, "transl_table": feature.transl_table,
                     "codon_start": feature._original_codon_start,  # pylint: disable=protected-access
                     "functions": [str(f) for f in feature.gene_functions], "kind": str(feature.gene_function),
                     "sec_met": [str(d) for d in feature.sec_met.domains], "nrps_pks": list(feature.nrps_pks),
                     "nrps_names": list(feature.nrps_pks.domain_names), "free": _free(feature)})
    elif isinstance(feature, (AntismashDomain, PFAMDomain, CDSMotif)):
        base.update(_domain_content(feature))
    elif isinstance(feature, Module):
        base.update({"domains": [d.get_name() for d in feature.domains], "mtype": str(feature.module_type),
                     "complete": feature.is_complete(), "starter": feature.is_starter_module(), "final": feature.is_final_module(),
                     "iterative": feature.is_iterative(), "monomers": [list(p) for p in feature.monomers],
                     "parents": list(feature.parent_cds_names)})
    elif isinstance(feature, Protocluster):
        base.update({"product": feature.product, "category": feature.product_category, "tool": feature.tool, "cutoff": feature.cutoff,
                     "range": feature.neighbourhood_range, "rule": feature.detection_rule, "t2pks": _t2pks(feature.t2pks),
                     "extra": dict(getattr(feature, "extra_qualifiers", {}))})
        placed["contig_edge"] = bool(feature.contig_edge)
    elif isinstance(feature, SubRegion):
        base.update({"tool": feature.tool, "label": feature.label, "extra": dict(getattr(feature, "extra_qualifiers", {}))})
        placed["contig_edge"] = bool(feature.contig_edge)
    elif feature.type == "cand_cluster":
        base.update({"kind": str(feature.kind), "smiles": feature.smiles_structure, "polymer": feature.polymer,
                     "products": list(feature.products), "rules": list(feature.detection_rules)})
        placed["contig_edge"] = bool(feature.contig_edge)
    elif feature.type == "region":
        base.update({"products": list(feature.products), "rules": list(feature.detection_rules)})
        placed["contig_edge"] = bool(feature.contig_edge)
    else:
        base["free"] = _free(feature)
        if hasattr(feature, "locus_tag"):
            base.update({"locus_tag": feature.locus_tag, "gene_name": getattr(feature, "gene_name", None)})
    return base, placed


def _aux(feature) -> list:
    """ further locations a feature carries in qualifiers of its GenBank form """
    if isinstance(feature, Prepeptide):
        sub = feature.get_sub_location_from_protein_coordinates
        total = len(feature.location) // 3
        out = []
        if feature.leader:
            out.append(project.loc(sub(0, len(feature.leader))))
        out.append(project.loc(sub(len(feature.leader), total - len(feature.tail))))
        if feature.tail:
            out.append(project.loc(sub(total - len(feature.tail), total)))
        return out
    return []


def _position(items, obj) -> int:
    for idx, item in enumerate(items):
        if item is obj:
            return idx + 1
    return -1


def _num(getter, item) -> int:
    try:
        return int(getter(item))
    except Exception:  # pylint: disable=broad-except
        return -1


def project_record(record, contents: dict = None) -> dict:
    """ The abstract record of Persist.tla. `contents` (optional) collects digest -> content for diagnostics. """
    def entry(feature):
        base, placed = content_of(feature, record)
        xpay = digest(base)
        pay = digest([base, placed])
        if contents is not None:
            contents[xpay] = base
            contents[pay] = [base, placed]
        return {"type": feature.type, "loc": project.loc(feature.location), "pay": pay, "xpay": xpay}

    protos = list(record.get_protoclusters())
    subs = list(record.get_subregions())
    cands = list(record.get_candidate_clusters())
    regions = list(record.get_regions())
    feats = []
    for feature in record.all_features:
        if isinstance(feature, (Protocluster, SubRegion)) or feature.type in ("cand_cluster", "region"):
            continue
        item = entry(feature)
        item["aux"] = _aux(feature)
        feats.append(item)
    feats.sort(key=lambda x: (x["type"], x["loc"]["parts"], x["loc"]["strand"], x["pay"]))
    out = {
        "id": str(record.id), "L": len(record), "circ": bool(record.is_circular()), "seq": digest(str(record.seq)),
        "feats": feats,
        "protos": [dict(entry(p), core=project.loc(p.core_location), num=_num(record.get_protocluster_number, p)) for p in protos],
        "subs": [dict(entry(s), num=_num(record.get_subregion_number, s)) for s in subs],
        "cands": [dict(entry(c), num=_num(record.get_candidate_cluster_number, c),
                       protos=[_position(protos, p) for p in c.protoclusters]) for c in cands],
        "regions": [dict(entry(r), num=_num(record.get_region_number, r),
                         cands=[_position(cands, c) for c in r.candidate_clusters],
                         subs=[_position(subs, s) for s in r.subregions]) for r in regions],
    }
    return out


EMPTY_REC = {"id": "", "L": 0, "circ": False, "seq": "", "feats": [], "protos": [], "subs": [], "cands": [], "regions": []}


# ---- C10: round trips ------------------------------------------------------------------------------------------
def write_genbank(record) -> str:
    handle = io.StringIO()
    SeqIO.write([record.to_biopython()], handle, "genbank")
    return handle.getvalue()


def roundtrip_genbank(record) -> dict:
    """ to_biopython -> SeqIO.write -> SeqIO.parse -> from_biopython, twice """
    result = {"exc": "", "after": EMPTY_REC, "out1": "", "out2": "", "texts": None}
    try:
        first = write_genbank(record)
        result["out1"] = digest(first)
        reloaded = parse_record(first)
        result["after"] = project_record(reloaded)
        second = write_genbank(reloaded)
        result["out2"] = digest(second)
        if first != second:
            result["texts"] = (first, second)
    except Exception as err:  # pylint: disable=broad-except
        result["exc"] = exc_text(err)
    return result


def roundtrip_json(record) -> dict:
    """ record_to_json -> dumps -> loads -> record_from_json, twice """
    result = {"exc": "", "after": EMPTY_REC, "out1": "", "out2": "", "texts": None}
    try:
        first = json.dumps(serialiser.record_to_json(record.to_biopython()))
        result["out1"] = digest(first)
        reloaded = serialiser.record_from_json(json.loads(first), TAXON)
        result["after"] = project_record(reloaded)
        second = json.dumps(serialiser.record_to_json(reloaded.to_biopython()))
        result["out2"] = digest(second)
        if first != second:
            result["texts"] = (first, second)
    except Exception as err:  # pylint: disable=broad-except
        result["exc"] = exc_text(err)
    return result


def roundtrip_results_file(record, workdir: str = None) -> dict:
    """ AntismashResults.write_to_file -> from_file, twice """
    result = {"exc": "", "after": EMPTY_REC, "out1": "", "out2": "", "texts": None}
    tmp = tempfile.mkdtemp(prefix="persist_", dir=workdir)
    try:
        one, two = os.path.join(tmp, "one.json"), os.path.join(tmp, "two.json")
        results = serialiser.AntismashResults("input.gbk", [record], [{}], "verif-1", taxon=TAXON)
        with open(one, "w", encoding="utf-8") as handle:
            results.write_to_file(handle)
        with open(one, encoding="utf-8") as handle:
            first = handle.read()
        result["out1"] = digest(first)
        loaded = serialiser.AntismashResults.from_file(one)
        result["after"] = project_record(loaded.records[0])
        with open(two, "w", encoding="utf-8") as handle:
            loaded.write_to_file(handle)
        with open(two, encoding="utf-8") as handle:
            second = handle.read()
        result["out2"] = digest(second)
        if first != second:
            result["texts"] = (first, second)
    except Exception as err:  # pylint: disable=broad-except
        result["exc"] = exc_text(err)
    finally:
        for name in os.listdir(tmp):
            os.unlink(os.path.join(tmp, name))
        os.rmdir(tmp)
    return result


# ---- random universes (abstract units) ------------------------------------------------------------------------
def spans_origin(loc: dict) -> bool:
    """ origin-spanning or in several exons (anything that is not one plain span) """
    return len(loc["parts"]) > 1


def random_universe(rng) -> dict:
    circ = rng.random() < 0.65
    length = rng.choice([9, 10, 12, 14, 16])

    def span(max_size, strand=1):
        size = rng.randrange(1, max_size + 1)
        start = rng.randrange(0, length)
        if start + size <= length:
            parts = [[start, start + size]]
        elif circ:
            parts = [[start, length], [0, start + size - length]]
        else:
            parts = [[length - size, length]]
        if strand == -1:
            parts = parts[::-1]
        return {"parts": parts, "strand": strand}

    def grow(core, by):
        bases = sum(e - s for s, e in core["parts"])
        if bases + 2 * by >= length:
            return {"parts": [[0, length]], "strand": 1}
        first, last = core["parts"][0][0], core["parts"][-1][1]
        if circ:
            start, end = (first - by) % length, (last + by - 1) % length + 1
            if len(core["parts"]) == 1 and first - by >= 0 and last + by <= length:
                return {"parts": [[start, end]], "strand": 1}
            return {"parts": [[start, length], [0, end]], "strand": 1}
        return {"parts": [[max(0, first - by), min(length, last + by)]], "strand": 1}

    products = ["a", "b", "c", "d"]
    areas = []
    for _ in range(rng.randrange(2, 6)):
        roll = rng.random()
        if roll < 0.06 and any(a["kind"] == "sub" for a in areas):
            # the same stretch reported a second time (another tool): same coordinates as an earlier subregion
            twin = rng.choice([a for a in areas if a["kind"] == "sub"])
            areas.append({"kind": "sub", "core": twin["core"], "extent": twin["extent"], "product": "sub", "pay": 1 - twin["pay"]})
        elif roll < 0.3:
            ext = span(max(1, length // 3))
            areas.append({"kind": "sub", "core": ext, "extent": ext, "product": "sub", "pay": rng.choice([0, 0, 1])})
        elif roll < 0.37 and any(a["kind"] == "proto" for a in areas):
            # same coordinates as an earlier protocluster, another product
            twin = rng.choice([a for a in areas if a["kind"] == "proto"])
            areas.append({"kind": "proto", "core": twin["core"], "extent": twin["extent"],
                          "product": rng.choice([p for p in products if p != twin["product"]]), "pay": rng.choice([0, 1, 2])})
        else:
            core = span(max(1, length // 6))
            areas.append({"kind": "proto", "core": core, "extent": grow(core, rng.randrange(0, max(1, length // 5) + 1)),
                          "product": rng.choice(products), "pay": rng.choice([0, 0, 1, 2])})
    def exons(strand):
        """ two or three exons of one unit with introns of one or two units; on a ring the walk may pass the origin, inside an
            intron or between two exons """
        sizes = [1] * rng.choice([2, 2, 3])
        gaps = [rng.choice([1, 1, 2]) for _ in sizes[1:]]
        total = sum(sizes) + sum(gaps)
        if total > length - 1:
            return span(2, strand)
        start = rng.randrange(0, length if circ else length - total + 1)
        parts, pos = [], start
        for i, size in enumerate(sizes):
            parts.append([pos % length, pos % length + size])
            pos += size + (gaps[i] if i < len(gaps) else 0)
        if strand == -1:
            parts = parts[::-1]
        return {"parts": parts, "strand": strand}

    genes = []
    for _ in range(rng.randrange(1, 6)):
        if rng.random() < 0.25:
            loc = exons(rng.choice([1, -1]))
        else:
            loc = span(rng.choice([1, 2, 2, 3]), rng.choice([1, -1]))
        if any(g["loc"] == loc or {tuple(p) for p in g["loc"]["parts"]} == {tuple(p) for p in loc["parts"]} for g in genes):
            continue
        # sub-gene features and codon_start of origin-spanning genes are C09's subject (P9): those payloads stay on ordinary genes
        pays = [0, 1, 3] if spans_origin(loc) else [0, 1, 2, 3, 4, 5, 6]
        genes.append({"loc": loc, "core_for": sorted(rng.sample(products, rng.choice([0, 0, 1, 2]))), "pay": rng.choice(pays)})
    return {"L": length, "circ": circ, "genes": genes, "areas": areas}


def bridged_over_origin_universe(rng) -> dict:
    """ a ring on which an area over the origin and an area in front of the origin are tied into one region by a third that
        overlaps both: the region then lists its members in the order they were merged, not in the order of their numbers """
    length = rng.choice([12, 14, 16])
    reach = rng.randrange(1, 3)
    over = {"parts": [[length - 2, length], [0, reach]], "strand": 1}
    front_start = rng.randrange(3, length - 7)
    front = {"parts": [[front_start, length - 4]], "strand": 1}
    bridge = {"parts": [[length - 5, length - 1]], "strand": 1}

    def proto(extent, product):
        first = extent["parts"][0][0]
        return {"kind": "proto", "core": {"parts": [[first, first + 1]], "strand": 1}, "extent": extent, "product": product,
                "pay": rng.choice([0, 1, 2])}

    def sub(extent):
        return {"kind": "sub", "core": extent, "extent": extent, "product": "sub", "pay": rng.choice([0, 1])}
    kinds = rng.choice(["pps", "psp", "sps", "ppp"])
    areas = [proto(ext, name) if kind == "p" else sub(ext)
             for kind, ext, name in zip(kinds, (over, front, bridge), "abc")]
    rng.shuffle(areas)
    genes = [{"loc": {"parts": [[front_start + 1, front_start + 2]], "strand": rng.choice([1, -1])}, "core_for": ["b"], "pay": 0},
             {"loc": {"parts": [[length - 2, length - 1]], "strand": 1}, "core_for": ["a"], "pay": rng.choice([0, 3])}]
    return {"L": length, "circ": True, "genes": genes, "areas": areas}


def whole_ring_universe(rng) -> dict:
    """ a ring with a protocluster whose neighbourhood reaches all the way round: its extent (and so its candidate and region)
        covers every base of the record, starting and ending at a seam that is not the origin (`[s:L) + [0:s)`, start == end) """
    length = rng.choice([9, 10, 12, 14])
    seam = rng.randrange(1, length)
    extent = {"parts": [[seam, length], [0, seam]], "strand": 1}
    # the core keeps clear of the seam and of the origin
    free = [pos for pos in range(length) if pos not in (seam - 1, seam) and pos not in (length - 1,)]
    core_start = rng.choice(free)
    areas = [{"kind": "proto", "core": {"parts": [[core_start, core_start + 1]], "strand": 1}, "extent": extent,
              "product": "a", "pay": rng.choice([0, 0, 1, 2])}]
    if rng.random() < 0.5:
        start = rng.choice([pos for pos in range(length - 1) if pos + 2 <= length and seam not in (pos + 1,)])
        ext = {"parts": [[start, start + 2]], "strand": 1}
        areas.append({"kind": "sub", "core": ext, "extent": ext, "product": "sub", "pay": rng.choice([0, 1])})
    genes = [{"loc": {"parts": [[core_start, core_start + 1]], "strand": rng.choice([1, -1])}, "core_for": ["a"], "pay": rng.choice([0, 1, 3])}]
    for _ in range(rng.randrange(1, 4)):
        pos = rng.randrange(0, length)
        loc = {"parts": [[pos, pos + 1]], "strand": rng.choice([1, -1])}
        if any(g["loc"]["parts"] == loc["parts"] for g in genes):
            continue
        genes.append({"loc": loc, "core_for": [], "pay": rng.choice([0, 1, 2, 3])})
    if seam not in (1,) and rng.random() < 0.4 and not any(g["loc"]["parts"][0][0] in (0, length - 1) for g in genes):
        genes.append({"loc": {"parts": [[length - 1, length], [0, 1]], "strand": 1}, "core_for": [], "pay": 0})
    return {"L": length, "circ": True, "genes": genes, "areas": areas}


def pipeline_history(rng, uni: dict) -> list:
    """ the order of a real run: genes, protoclusters and subregions in any order, then candidates, then regions;
        sometimes a late gene """
    adds = [{"op": "AddGene", "arg": i + 1} for i in range(len(uni["genes"]))]
    adds += [{"op": "AddSub" if a["kind"] == "sub" else "AddProto", "arg": i + 1} for i, a in enumerate(uni["areas"])]
    rng.shuffle(adds)
    late = []
    if rng.random() < 0.3:
        late = [c for c in adds if c["op"] == "AddGene"][:1]
        adds = [c for c in adds if c not in late]
    hist = list(adds)
    if any(a["kind"] == "proto" for a in uni["areas"]):
        hist.append({"op": "CreateCandidates", "arg": 0})
    hist.append({"op": "CreateRegions", "arg": 0})
    return hist + late


# ---- C12: region files -----------------------------------------------------------------------------------------
BASE_CODE = {"A": 0, "C": 1, "G": 2, "T": 3}


def seq_codes(seq) -> list:
    return [BASE_CODE.get(ch, 4) for ch in str(seq).upper()]


def _named(record) -> dict:
    """ (type, name) -> (feature, location) for the features that carry an identifier of their own """
    out = {}
    for feature in record.all_features:
        name = None
        if isinstance(feature, CDSFeature):
            name = feature.get_name()
        elif isinstance(feature, Prepeptide):
            name = "prepeptide:" + feature.get_name()
        elif isinstance(feature, (AntismashDomain, PFAMDomain, CDSMotif)):
            name = feature.domain_id
        elif isinstance(feature, Module):
            name = ",".join(d.get_name() for d in feature.domains)
        elif feature.type == "gene":
            name = getattr(feature, "locus_tag", None)
        if name:
            out[(feature.type, name)] = feature
    return out


def _dna(feature, seq) -> str:
    try:
        return digest(str(feature.location.extract(seq)))
    except Exception as err:  # pylint: disable=broad-except
        return "x" + type(err).__name__


def add_dna(projection: dict, record) -> dict:
    """ attaches to every projected feature the digest of the bases it covers (read through its own location) """
    by_key = {}
    for feature in record.all_features:
        by_key.setdefault((feature.type, json.dumps(project.loc(feature.location))), []).append(feature)
    for group in ("feats", "protos", "subs", "cands", "regions"):
        for item in projection[group]:
            found = by_key.get((item["type"], json.dumps(item["loc"])), [])
            item["dna"] = _dna(found[0], record.seq) if found else "missing"
    return projection


def _raw_numbers(bio) -> dict:
    """ the numbering qualifiers as written in a region file """
    def ints(feature, key):
        out = []
        for value in feature.qualifiers.get(key, []):
            try:
                out.append(int(value))
            except ValueError:
                out.append(-1)
        return out
    raw = {"protos": [], "cores": [], "cands": [], "subs": [], "cand_protos": [], "region_cands": [], "region_subs": [], "regions": 0}
    for feature in bio.features:
        if feature.type == "protocluster":
            raw["protos"] += ints(feature, "protocluster_number")
        elif feature.type == "proto_core":
            raw["cores"] += ints(feature, "protocluster_number")
        elif feature.type == "cand_cluster":
            raw["cands"] += ints(feature, "candidate_cluster_number")
            raw["cand_protos"].append(ints(feature, "protoclusters"))
        elif feature.type == "subregion":
            raw["subs"] += ints(feature, "subregion_number")
        elif feature.type == "region":
            raw["regions"] += 1
            raw["region_cands"] += ints(feature, "candidate_cluster_numbers")
            raw["region_subs"] += ints(feature, "subregion_numbers")
    return raw


EMPTY_RAW = {"protos": [], "cores": [], "cands": [], "subs": [], "cand_protos": [], "region_cands": [], "region_subs": [], "regions": 0}


def _bio_digest(bio) -> str:
    handle = io.StringIO()
    SeqIO.write([bio], handle, "genbank")
    return digest(handle.getvalue())


def _bio_locations(bio) -> str:
    return digest([[feature.type, str(feature.location)] for feature in bio.features])


def extract_regions(record, workdir: str = None, keep_text: bool = False) -> list:
    """ writes the region file of every region the way main.write_outputs does (one Biopython record shared by all
        regions), reloads each file and projects it; one result per region, each with the full record (secmet
        projection and identity of the Biopython form) before and after that region's write """
    results = []
    tmp = tempfile.mkdtemp(prefix="persist_", dir=workdir)
    try:
        codes = seq_codes(record.seq)
        bio = record.to_biopython()
        named_before = _named(record)
        for index, region in enumerate(record.get_regions()):
            out = {"region": index + 1, "exc": "", "seq": codes, "before": add_dna(project_record(record), record),
                   "bio_before": _bio_digest(bio), "after": EMPTY_REC, "bio_after": "",
                   "bio_locs_before": _bio_locations(bio), "bio_locs_after": ""}
            item = {"exc": "", "rec": EMPTY_REC, "seq": [], "raw": EMPTY_RAW, "pairs": [], "stage": "write", "topology": ""}
            out["ex"] = item
            path = os.path.join(tmp, f"region{index + 1}.gbk")
            try:
                region.write_to_genbank(filename=path, record=bio)
            except Exception as err:  # pylint: disable=broad-except
                out["exc"] = exc_text(err)
            out["after"] = add_dna(project_record(record), record)
            out["bio_after"] = _bio_digest(bio)
            out["bio_locs_after"] = _bio_locations(bio)
            if not out["exc"]:
                try:
                    item["stage"] = "parse"
                    with open(path, encoding="utf-8") as text_handle:
                        text = text_handle.read()
                    if keep_text:
                        item["text"] = text
                    parsed = list(SeqIO.parse(io.StringIO(text), "genbank"))
                    item["raw"] = _raw_numbers(parsed[0])
                    item["seq"] = seq_codes(parsed[0].seq)
                    item["topology"] = str(parsed[0].annotations.get("topology", ""))
                    item["stage"] = "load"
                    loaded = Record.from_biopython(parsed[0], TAXON)
                    item["stage"] = "project"
                    item["rec"] = add_dna(project_record(loaded), loaded)
                    for key, feature in sorted(_named(loaded).items()):
                        if key in named_before:
                            item["pairs"].append({"type": key[0], "orig": project.loc(named_before[key].location),
                                                  "new": project.loc(feature.location)})
                    item["stage"] = "done"
                except Exception as err:  # pylint: disable=broad-except
                    item["exc"] = exc_text(err)
            results.append(out)
    finally:
        for name in os.listdir(tmp):
            os.unlink(os.path.join(tmp, name))
        os.rmdir(tmp)
    return results


# ---- cases ------------------------------------------------------------------------------------------------------
MC_CFG = """SPECIFICATION Spec
CONSTANTS
  UniverseIds = {%(universes)s}
  MaxAreas = %(max_areas)d
  Faithful = %(faithful)s
%(checks)s
"""
MC_INVARIANTS = ["ExtractsWellFormed", "ShiftPreservesBases", "ShiftIsRingShift", "ReloadGivesOneRegion", "ModelExtractAccepted",
                 "MembersAreInside"]


def mc_config(max_areas: int, universes=(1, 2, 3, 4), faithful: bool = True, invariants=None, stutter: bool = True) -> str:
    checks = "\n".join(f"INVARIANT {name}" for name in (MC_INVARIANTS if invariants is None else invariants))
    if stutter:
        checks += "\nPROPERTY RoundTripIsStutter"
    return MC_CFG % {"universes": ", ".join(str(u) for u in universes), "max_areas": max_areas,
                     "faithful": "TRUE" if faithful else "FALSE", "checks": checks}


def norm_loc(loc) -> dict:
    return {"parts": [list(p) for p in loc["parts"]], "strand": loc["strand"]}


def norm_uni(uni) -> dict:
    return {"L": uni["L"], "circ": uni["circ"],
            "genes": [{"loc": norm_loc(g["loc"]), "core_for": list(g["core_for"]), "pay": g["pay"]} for g in uni["genes"]],
            "areas": [{"kind": a["kind"], "core": norm_loc(a["core"]), "extent": norm_loc(a["extent"]), "product": a["product"],
                       "pay": a["pay"]} for a in uni["areas"]]}


def mc_cases(run, seed: int, want_regions: bool = False) -> list:
    """ the states of a Persist_MC dump as cases {"uni", "hist", "seed", "phase"} """
    from . import tlaval, tlc  # pylint: disable=import-outside-toplevel
    universes = [norm_uni(u) for u in tlc.printed_value(run.out, "UNIVERSES")]
    cases = []
    for state in tlaval.read_dump(run.dump_path):
        if state["phase"] == "genes" or (want_regions and state["phase"] not in ("regions", "done")):
            continue
        hist = [{"op": c["op"], "arg": c["arg"]} for c in state["hist"]]
        cases.append({"uni": universes[state["u"] - 1], "hist": hist, "seed": seed, "phase": state["phase"], "sampled": False})
    cases.sort(key=lambda c: json.dumps([c["uni"]["L"], c["hist"]]))
    return cases


def random_history(rng, uni: dict, length: int) -> list:
    """ any call sequence the RecordSM spec enables (including the clearing calls) """
    genes, protos, subs = set(), set(), set()
    have_cands = have_regions = False
    hist = []
    for _ in range(length):
        options = [("AddGene", g) for g in range(1, len(uni["genes"]) + 1) if g not in genes]
        options += [("AddProto", a) for a in range(1, len(uni["areas"]) + 1) if uni["areas"][a - 1]["kind"] == "proto" and a not in protos]
        options += [("AddSub", a) for a in range(1, len(uni["areas"]) + 1) if uni["areas"][a - 1]["kind"] == "sub" and a not in subs]
        if protos and not have_cands and not have_regions:
            options += [("CreateCandidates", 0)] * 3
        if not have_regions and (have_cands or subs):
            options += [("CreateRegions", 0)] * 3
        if have_regions:
            options.append(("ClearRegions", 0))
        if subs:
            options.append(("ClearSubs", 0))
        if have_cands:
            options.append(("ClearCands", 0))
        if protos:
            options.append(("ClearProtos", 0))
        if not options:
            break
        op, arg = rng.choice(options)
        hist.append({"op": op, "arg": arg})
        if op == "AddGene":
            genes.add(arg)
        elif op == "AddProto":
            protos.add(arg)
        elif op == "AddSub":
            subs.add(arg)
        elif op == "CreateCandidates":
            have_cands = True
        elif op == "CreateRegions":
            have_regions = True
        elif op == "ClearRegions":
            have_regions = False
        elif op == "ClearSubs":
            subs.clear()
            have_regions = have_regions and have_cands
        elif op == "ClearCands":
            have_cands = False
            have_regions = have_regions and bool(subs)
        elif op == "ClearProtos":
            protos.clear()
            have_cands = False
            have_regions = have_regions and bool(subs)
    return hist


def _same_place(a: dict, b: dict) -> bool:
    return a["kind"] == b["kind"] and a["extent"] == b["extent"]


def features(uni: dict, hist: list) -> list:
    """ feature literals of the abstract input (universe restricted to what the history adds) """
    genes = [uni["genes"][c["arg"] - 1] for c in hist if c["op"] == "AddGene"]
    areas = []
    for call in hist:
        if call["op"] in ("AddProto", "AddSub"):
            areas.append(uni["areas"][call["arg"] - 1])
        elif call["op"] == "ClearProtos":
            areas = [a for a in areas if a["kind"] != "proto"]
        elif call["op"] == "ClearSubs":
            areas = [a for a in areas if a["kind"] != "sub"]
    feats = ["circular" if uni["circ"] else "linear"]
    if any(spans_origin(a["extent"]) for a in areas):
        feats.append("area_spans_origin")
    if any(spans_origin(g["loc"]) for g in genes):
        feats.append("gene_spans_origin")
    protos = [a for a in areas if a["kind"] == "proto"]
    subs = [a for a in areas if a["kind"] == "sub"]
    if any(spans_origin(a["extent"]) for a in protos):
        feats.append("protocluster_spans_origin")
    if any(_same_place(a, b) for i, a in enumerate(protos) for b in protos[i + 1:]):
        feats.append("equal_coordinate_protoclusters")
    if any(_same_place(a, b) for i, a in enumerate(subs) for b in subs[i + 1:]):
        feats.append("equal_coordinate_subregions")
    if any(a["pay"] == 1 for a in protos):
        feats.append("sideloaded_protocluster")
    if any(a["pay"] == 1 for a in subs):
        feats.append("sideloaded_subregion")
    if any(sum(e - s for s, e in a["extent"]["parts"]) == uni["L"] for a in areas):
        feats.append("area_covers_whole_record")
    # on a ring, protoclusters that together leave no gap longer than half the record: the span of their candidates
    # is no longer the plain union (C05 / C06 call these "big") and a candidate can cover the whole record
    if uni["circ"] and protos:
        covered = set()
        for area in protos:
            for start, end in area["extent"]["parts"]:
                covered.update(range(start, end))
        gap = best = 0
        for pos in list(range(uni["L"])) * 2:
            gap = 0 if pos in covered else gap + 1
            best = max(best, gap)
        if 2 * min(best, uni["L"]) <= uni["L"]:
            feats.append("protoclusters_reach_around_half_the_ring")
    for pay, name in ((1, "input_style_gene"), (2, "codon_start"), (6, "codon_start"), (3, "gene_functions"), (4, "nrps_pks_domains"), (5, "prepeptide")):
        if any(g["pay"] == pay for g in genes):
            feats.append(name)
    ops = [c["op"] for c in hist]
    if "CreateRegions" in ops and ops.index("CreateRegions") < max([i for i, op in enumerate(ops) if op == "AddGene"], default=-1):
        feats.append("gene_added_after_regions")
    if any(op.startswith("Clear") for op in ops):
        feats.append("clearing_calls")
    return sorted(set(feats))


def call_text(case: dict) -> str:
    return (f"d, exc = harness.persist.build_record(uni, hist, seed={case['seed']}); record = d.record  "
            f"with uni={json.dumps(case['uni'])} hist={json.dumps(case['hist'])}")


def _inside(region_loc: dict, loc: dict) -> bool:
    return all(any(rs <= s and e <= re for rs, re in region_loc["parts"]) for s, e in loc["parts"])


def _consecutive(numbers: list) -> bool:
    return not numbers or sorted(numbers) == list(range(min(numbers), min(numbers) + len(numbers)))


def region_features(before: dict, number: int) -> list:
    """ feature literals of one region of the projected full record (the input of the write) """
    region = before["regions"][number - 1]
    feats = []
    cross = len(region["loc"]["parts"]) > 1
    feats.append("region_spans_origin" if cross else "region_in_one_piece")
    if number > 1:
        feats.append("later_region")
    cands = [c for c in region["cands"] if c > 0]
    subs = [s for s in region["subs"] if s > 0]
    protos = sorted({p for c in cands for p in before["cands"][c - 1]["protos"] if p > 0})
    if cands and min(cands) > 1:
        feats.append("first_candidate_number_above_1")
    if subs and min(subs) > 1:
        feats.append("first_subregion_number_above_1")
    if protos and min(protos) > 1:
        feats.append("first_protocluster_number_above_1")
    if not (_consecutive(cands) and _consecutive(subs) and _consecutive(protos)):
        feats.append("numbers_not_consecutive")
    if sum(e - s for s, e in region["loc"]["parts"]) == before["L"]:
        feats.append("region_covers_whole_record")
    everything = before["feats"] + before["protos"] + before["subs"] + before["cands"]
    spanning = [f for f in everything if len(f["loc"]["parts"]) > 1 and f["loc"]["parts"][0][0] > f["loc"]["parts"][-1][0]
                or (len(f["loc"]["parts"]) > 1 and f["loc"]["strand"] == -1 and f["loc"]["parts"][0][0] < f["loc"]["parts"][-1][0]
                    and f["loc"]["parts"][0][0] == 0)]
    if cross and spanning:
        feats.append("holds_origin_spanning_feature")
    if cross and any(not _inside(region["loc"], f["loc"]) for f in spanning):
        feats.append("origin_spanning_feature_partly_outside")
    if cross and any(f["aux"] and _inside({"parts": region["loc"]["parts"][1:]}, f["loc"]) for f in before["feats"]):
        feats.append("prepeptide_after_origin")
    if any(f["aux"] and _inside(region["loc"], f["loc"]) for f in before["feats"]):
        feats.append("holds_prepeptide")
    return feats
