""" Driving real module results objects along Reuse.tla histories (C11).

    Per kind of results: a materialiser for the abstract content case (base record, options for a context), the real
    Run (the module's own run path; only the external binaries are replaced by hit tables), the real Regenerate
    (module.regenerate_previous_results followed by module.run_on_record, exactly as main.run_module does) and the
    effects on a record (what main adds for that detection stage). Nothing in here decides anything: objects are
    built, antiSMASH is called, JSON texts and record projections are digested and logged for Reuse_Trace.
"""

import hashlib
import logging
import os
import random
from types import SimpleNamespace
from unittest import mock

from .common import MachineryError, import_repo

import_repo()

from antismash.common import json as asjson  # noqa: E402  (the serialiser's JSON layer: orjson)
from antismash.common import subprocessing  # noqa: E402
from antismash.common.hmm_rule_parser import rule_parser  # noqa: E402
from antismash.common.hmm_rule_parser.cluster_prediction import Ruleset, detect_protoclusters_and_signatures  # noqa: E402
from antismash.common.hmm_rule_parser.structures import DynamicHit, DynamicProfile  # noqa: E402
from antismash.common.hmmscan_refinement import HMMResult  # noqa: E402
from antismash.common.secmet.features import SubRegion  # noqa: E402
from antismash.common.secmet.locations import FeatureLocation  # noqa: E402
from antismash.common.secmet.test.helpers import DummyCDS, DummyRecord  # noqa: E402
from antismash.config import build_config, get_config, update_config  # noqa: E402
from antismash.detection import cluster_hmmer, full_hmmer, hmm_detection, nrps_pks_domains, sideloader  # noqa: E402
from antismash.detection.nrps_pks_domains import domain_identification  # noqa: E402
from antismash.detection.sideloader.data_structures import SideloadSimple  # noqa: E402
from antismash.common.secmet.features import Protocluster  # noqa: E402
from antismash.modules import pfam2go, t2pks, tta  # noqa: E402
from antismash.modules.t2pks import t2pks_analysis  # noqa: E402

from . import build, rules as R  # noqa: E402

KINDS = ["rules", "sideload", "nrps", "hmmer", "tta", "pfam2go", "t2pks"]
STRICTNESS = ["strict", "relaxed", "loose"]
MULTIPLIERS = [(1.0, 1.5), (2.0, 1.5), (1.0, 0.5)]       # fungal cutoff / neighbourhood multipliers per ctx.mult
PROFILES = ["a", "b", "c", "d", "e"]
PFAMS = [("p450", "PF00067.25"), ("MCPsignal", "PF00015.24"), ("Biopterin_H", "PF00351.24"), ("LANC_like", "PF05147.16"),
         ("Unmapped_dom", "PF99990.1")]
PFAM_VERSION = "35.0"
NRPS_DOMAINS = ["Condensation_LCL", "Condensation_DCL", "Condensation_Starter", "Heterocyclization", "AMP-binding", "A-OX", "PCP",
                "PP-binding", "Epimerization", "Thioesterase", "TD", "PKS_KS", "PKS_AT", "PKS_DH", "PKS_KR", "PKS_ER", "ACP", "PKS_PP",
                "cMT", "nMT", "oMT", "CAL_domain", "Trans-AT_docking", "NRPS-COM_Nterm", "PKS_Docking_Cterm", "ECH", "NAD_binding_4",
                "TIGR01720", "Aminotran_3"]
KS_SUBTYPES = ["Trans-AT-KS", "Modular-KS", "Iterative-KS", "Enediyne-KS", "Hybrid-KS"]
TRANSATOR = ["beta-OH", "double_bonds_1", "non_elongating"]
MOTIFS = ["C1_dual_004-017", "NRPS-A_a3", "PKSI-KR_m1", "NRPS-te1"]

_STATE = {}


def digest(text: str) -> str:
    return hashlib.sha1(text.encode("utf-8")).hexdigest()[:16]


def exc_text(err) -> str:
    """ exception type name (the part of a refusal the trace spec puts into clause names) """
    return type(err).__name__


def exc_message(err) -> str:
    return (type(err).__name__ + ": " + str(err))[:200]


def setup_process():
    """ once per worker process: quiet logging, an isolated antiSMASH config for the modules that read the global one """
    if _STATE.get("ready"):
        return
    logging.disable(logging.CRITICAL)
    build_config([], isolated=True, modules=[tta])
    _STATE["ready"] = True


def rule_subsets() -> list:
    """ rule-name subsets per ctx.subset; the names are taken from the strict rule file so that a named subset selects
        the same rules at every strictness level """
    if "subsets" not in _STATE:
        names = {}
        for level in STRICTNESS:
            options = SimpleNamespace(hmmdetection_strictness=level, hmmdetection_limit_to_rules=[], hmmdetection_limit_to_categories=[],
                                      taxon="bacteria", hmmdetection_fungal_cutoff_multiplier=1.0,
                                      hmmdetection_fungal_neighbourhood_multiplier=1.5)
            names[level] = hmm_detection.get_ruleset(options).get_rule_names()
        if not names["strict"] < names["relaxed"] < names["loose"]:
            raise MachineryError("rule files of the strictness levels no longer nest strictly: the 'changed strictness' case "
                                 "cannot be materialised as a changed rule set")
        base = sorted(names["strict"])
        _STATE["subsets"] = [[], base[:2], base[:1]]
    return _STATE["subsets"]


# ---- generic pieces -------------------------------------------------------------------------------------------
def project_record(record) -> list:
    feats = []
    for feature in record.all_features:
        for bio in feature.to_biopython():
            quals = sorted((key, [str(x) for x in val] if isinstance(val, (list, tuple)) else [repr(val)])
                           for key, val in bio.qualifiers.items())
            feats.append([bio.type, str(bio.location), quals])
    feats.sort(key=repr)
    return feats


def summary(feats: list) -> dict:
    counts = {}
    for kind, _, _ in feats:
        counts[kind] = counts.get(kind, 0) + 1
    return counts


def dumps(results) -> str:
    return asjson.dumps(results.to_json())


def schema_paths(data, path=()):
    """ every (path, value) of an integer "schema_version" / "schema" entry in a JSON structure """
    found = []
    if isinstance(data, dict):
        for key, val in data.items():
            if key in ("schema_version", "schema") and isinstance(val, int) and not isinstance(val, bool):
                found.append((path + (key,), val))
            else:
                found.extend(schema_paths(val, path + (key,)))
    return found


def shift_schema(data, delta: int, target: str):
    """ the saved JSON as a code base `delta` schema versions away would have written it """
    paths = schema_paths(data)
    if not paths:
        raise MachineryError("saved results carry no schema version field: 'changed schema version' cannot be materialised")
    paths.sort(key=lambda item: len(item[0]))
    if target == "outer":
        paths = paths[:1]
    elif target == "inner":
        paths = paths[-1:]
    for path, value in paths:
        node = data
        for key in path[:-1]:
            node = node[key]
        node[path[-1]] = value - delta
    return data


def plain_record(length: int, circular: bool, rec: int, seq: str = None):
    """ record 0 is "rec0"; record 1 is the second record of an input in which two records were called "rec0": it was
        renamed to "rec0_0" and remembers the name it had (results saved for "rec0" are still those of another record) """
    if rec == 0:
        return DummyRecord(seq=seq or "A" * length, circular=circular, record_id="rec0")
    record = DummyRecord(seq=seq or "A" * length, circular=circular, record_id="rec0_0")
    record.original_id = "rec0"
    return record


def gene_record(case: dict, rec: int, seq: str = None):
    """ record with the case's genes, all inside one region (PER_AREA modules look at genes in regions) """
    record = plain_record(case["L"], False, rec, seq)
    for idx, (start, end, strand) in enumerate(case["genes"]):
        record.add_cds_feature(DummyCDS(start=start, end=end, strand=strand, locus_tag=f"g{idx + 1}",
                                        translation="M" + "A" * ((end - start) // 3 - 1)))
    record.add_subregion(SubRegion(FeatureLocation(0, case["L"], 1), tool="verif", label="all"))
    record.create_regions()
    return record


class _HSP:  # pylint: disable=too-few-public-methods
    def __init__(self, gene, profile, start, end, score, evalue):
        self.query_id = gene
        self.hit_id = profile
        self.query_start = start
        self.query_end = end
        self.bitscore = score
        self.evalue = evalue
        self.hit_description = "description of " + profile


class _QueryResult:  # pylint: disable=too-few-public-methods
    def __init__(self, gene, hsps):
        self.id = gene
        self.hsps = hsps


def hmmscan_table(case: dict) -> list:
    by_gene = {}
    for gene, profile, start, end, sc10, evk in case["hits"]:
        by_gene.setdefault(gene, []).append(_HSP(f"g{gene}", PFAMS[profile][0], start, end, sc10 / 10, 10 ** -evk))
    return [_QueryResult(f"g{gene}", hsps) for gene, hsps in sorted(by_gene.items())]


def write_pfam_database(root: str) -> str:
    """ a miniature Pfam-A.hmm (names, accessions, trusted cutoffs) in the antiSMASH database layout """
    directory = os.path.join(root, "pfam", PFAM_VERSION)
    os.makedirs(directory, exist_ok=True)
    path = os.path.join(directory, "Pfam-A.hmm")
    if not os.path.exists(path):
        with open(path + ".tmp", "w", encoding="utf-8") as handle:
            for idx, (name, acc) in enumerate(PFAMS):
                handle.write(f"HMMER3/f [3.1b2 | February 2015]\nNAME  {name}\nACC   {acc}\nDESC  description of {name}\n"
                             f"LENG  100\nTC    {20 + 5 * idx}.00 {20 + 5 * idx}.00;\n//\n")
        os.replace(path + ".tmp", path)
    return root


# ---- kinds --------------------------------------------------------------------------------------------------------
class Rules:
    """ hmm_detection: rule_results from the real detection on an abstract scene (hits enter through DynamicProfiles);
        the module results are assembled as run_on_record does, with the real rule set of the options """
    module = hmm_detection

    @staticmethod
    def options(case, env, c, workdir):
        cutoff, neighbourhood = MULTIPLIERS[c["mult"]]
        return SimpleNamespace(hmmdetection_strictness=STRICTNESS[c["strict"]],
                               hmmdetection_limit_to_rules=list(rule_subsets()[c["subset"]]),
                               hmmdetection_limit_to_categories=[], taxon="fungi" if env["fungi"] else "bacteria",
                               hmmdetection_fungal_cutoff_multiplier=cutoff,
                               hmmdetection_fungal_neighbourhood_multiplier=neighbourhood)

    @staticmethod
    def record(case, env, c):
        scene = case["scene"]
        record = plain_record(scene["L"], scene["circ"], c["rec"])
        for idx, loc in enumerate(scene["locs"]):
            record.add_cds_feature(DummyCDS(location=build.loc(loc), locus_tag=R.gene_name(idx)))
        if case.get("subregion"):   # an existing subregion: genes with hits outside every protocluster are reported, too
            record.add_subregion(SubRegion(FeatureLocation(0, scene["L"], 1), tool="verif", label="whole record"))
        return record

    @staticmethod
    def ruleset(case, multipliers, tool):
        scene = case["scene"]
        texts = [R.rule_text(rule["name"], rule["cond"], rule["cutoff"], rule["nbhd"],
                             extenders=rule["ext"] if rule["hasExt"] else None, superiors=rule["sup"]) for rule in case["rules"]]
        parsed = rule_parser.Parser("\n".join(texts), set(PROFILES), {"cat"}).rules
        for real, rule in zip(parsed, case["rules"]):
            real.cutoff = rule["cutoff"]
            real.neighbourhood = rule["nbhd"]
        table = {}
        for idx, gene_hits in enumerate(scene["hits"]):
            for hit in gene_hits:
                table.setdefault(hit["p"], {})[R.gene_name(idx)] = hit["s"]

        def maker(profile):
            def find(_record, _hmmer_hits):
                return {gene: [DynamicHit(gene, profile, bitscore=float(score))] for gene, score in table.get(profile, {}).items()}
            return DynamicProfile(profile, "abstract profile", find)

        return Ruleset(tuple(parsed), {}, "", {"cat"}, tool, multipliers=multipliers,
                       dynamic_profiles={p: maker(p) for p in PROFILES}, equivalence_groups=[])

    @classmethod
    def run(cls, case, env, c, record, options, workdir):
        real = hmm_detection.get_ruleset(options)
        found = detect_protoclusters_and_signatures(record, cls.ruleset(case, real.multipliers, real.tool))
        found.annotate_cds_features()
        return hmm_detection.HMMDetectionResults(record.id, found, list(real.get_rule_names()), options.hmmdetection_strictness)

    @staticmethod
    def patches(case, env, c, workdir):
        return []

    @staticmethod
    def effects(results, record):
        for proto in results.get_predicted_protoclusters():
            record.add_protocluster(proto)
        for sub in results.get_predicted_subregions():
            record.add_subregion(sub)


class Sideload:
    module = sideloader

    @staticmethod
    def options(case, env, c, workdir):
        args = case["args"][c["opt"]]
        files = []
        for idx, content in enumerate(args["files"]):
            path = os.path.join(workdir, f"sideload_{os.getpid()}_{case['tag']}_{c['opt']}_{idx}.json")
            if not os.path.exists(path):
                with open(path, "w", encoding="utf-8") as handle:
                    handle.write(asjson.dumps(content))
            files.append(path)
        simple = SideloadSimple(*args["simple"]) if args["simple"] else ""
        return SimpleNamespace(sideload=files, sideload_simple=simple, sideload_cds_markers=list(args["markers"]),
                               sideload_cds_padding=args["padding"])

    @staticmethod
    def record(case, env, c):
        record = plain_record(case["L"], case["circ"], c["rec"])
        for idx, (start, end, strand) in enumerate(case["genes"]):
            record.add_cds_feature(DummyCDS(start=start, end=end, strand=strand, locus_tag=f"g{idx + 1}"))
        return record

    @staticmethod
    def run(case, env, c, record, options, workdir):
        return sideloader.run_on_record(record, None, options)

    @staticmethod
    def patches(case, env, c, workdir):
        return []

    @staticmethod
    def effects(results, record):
        results.add_to_record(record)


class Nrps:
    module = nrps_pks_domains

    @staticmethod
    def options(case, env, c, workdir):
        return SimpleNamespace()

    @staticmethod
    def record(case, env, c):
        return gene_record(case, c["rec"])

    @staticmethod
    def finders(case):
        domains, subtypes, motifs = {}, {}, {}
        for idx, gene in enumerate(case["domains"]):
            name = f"g{idx + 1}"
            hits = []
            for pos, (label, sub, sub2) in enumerate(gene):
                start = 5 + pos * 40
                hit = HMMResult(label, start, start + 30, 10 ** -(20 + pos), 100.5 + pos)
                hits.append(hit)
                if sub:
                    subtypes.setdefault(name, []).append((start, HMMResult(sub, start + 2, start + 25, 1e-10, 55.0 + pos), sub2))
            if hits:
                domains[name] = hits
        for idx, gene in enumerate(case["motifs"]):
            if gene:
                motifs[f"g{idx + 1}"] = [HMMResult(label, start, start + 12, 0.01, 12.5) for label, start in gene]

        def find_subtypes(target, _database, existing, _record, modifier_callback=None, options=None):  # pylint: disable=unused-argument
            out = {}
            for name, entries in subtypes.items():
                for start, sub_hit, sub2 in entries:
                    for parent in existing.get(name, []):
                        if target == "PKS_KS" and parent.hit_id == "PKS_KS" and parent.query_start == start:
                            parent.add_internal_hits([sub_hit])
                            out.setdefault(name, []).append(sub_hit)
                        elif target == "Trans-AT-KS" and sub2 and parent is sub_hit and parent.hit_id == "Trans-AT-KS":
                            inner = HMMResult(sub2, parent.query_start + 1, parent.query_end - 1, 1e-5, 33.0)
                            parent.add_internal_hits([inner])
                            out.setdefault(name, []).append(inner)
            return out
        return domains, find_subtypes, motifs

    @classmethod
    def patches(cls, case, env, c, workdir):
        domains, find_subtypes, motifs = cls.finders(case)
        return [mock.patch.object(domain_identification, "find_domains", return_value=domains),
                mock.patch.object(domain_identification, "find_subtypes", side_effect=find_subtypes),
                mock.patch.object(domain_identification, "find_ab_motifs", return_value=motifs),
                mock.patch.object(domain_identification, "get_database_path", return_value="")]

    @staticmethod
    def run(case, env, c, record, options, workdir):
        return nrps_pks_domains.run_on_record(record, None, options)

    @staticmethod
    def effects(results, record):
        results.add_to_record(record)


class Hmmer:
    """ cluster_hmmer / full_hmmer (HmmerResults); the thresholds in force are the modules' MIN_SCORE / MAX_EVALUE """

    @staticmethod
    def mod(case):
        return {"cluster_hmmer": cluster_hmmer, "full_hmmer": full_hmmer}[case["module"]]

    @staticmethod
    def options(case, env, c, workdir):
        return SimpleNamespace(database_dir=os.path.join(workdir, "c11_databases"), clusterhmmer_pfamdb_version=PFAM_VERSION,
                               fullhmmer_pfamdb_version=PFAM_VERSION)

    @staticmethod
    def record(case, env, c):
        return gene_record(case, c["rec"])

    @classmethod
    def patches(cls, case, env, c, workdir):
        module = cls.mod(case)
        if not hasattr(module, "MIN_SCORE") or not hasattr(module, "MAX_EVALUE"):
            raise MachineryError(f"{module.__name__} no longer exposes MIN_SCORE / MAX_EVALUE: thresholds cannot be varied")
        return [mock.patch.object(subprocessing, "run_hmmscan", return_value=hmmscan_table(case)),
                mock.patch.object(module, "MIN_SCORE", c["thr"]["a"] / 10),
                mock.patch.object(module, "MAX_EVALUE", 10 ** -c["thr"]["b"])]

    @classmethod
    def run(cls, case, env, c, record, options, workdir):
        return cls.mod(case).run_on_record(record, None, options)

    @staticmethod
    def effects(results, record):
        results.add_to_record(record)


class Tta:
    module = tta

    @staticmethod
    def options(case, env, c, workdir):
        update_config({"tta_threshold": c["thr"]["a"] / c["thr"]["b"]})
        return get_config()

    @staticmethod
    def record(case, env, c):
        return gene_record(case, c["rec"], seq=case["seq"])

    @staticmethod
    def patches(case, env, c, workdir):
        return []

    @staticmethod
    def run(case, env, c, record, options, workdir):
        return tta.run_on_record(record, None, options)

    @staticmethod
    def effects(results, record):
        results.add_to_record(record)


class Pfam2go:
    module = pfam2go

    @staticmethod
    def options(case, env, c, workdir):
        return SimpleNamespace(pfam2go=True, database_dir=os.path.join(workdir, "c11_databases"),
                               fullhmmer_pfamdb_version=PFAM_VERSION)

    @staticmethod
    def record(case, env, c):
        """ genes plus the PFAM domains a full_hmmer run (fixed thresholds) leaves in the record """
        record = gene_record(case, c["rec"])
        options = SimpleNamespace(database_dir=os.path.join(case["workdir"], "c11_databases"), fullhmmer_pfamdb_version=PFAM_VERSION)
        with mock.patch.object(subprocessing, "run_hmmscan", return_value=hmmscan_table(case)):
            full_hmmer.run_on_record(record, None, options).add_to_record(record)
        return record

    @staticmethod
    def patches(case, env, c, workdir):
        return []

    @staticmethod
    def run(case, env, c, record, options, workdir):
        return pfam2go.run_on_record(record, None, options)

    @staticmethod
    def effects(results, record):
        results.add_to_record(record)


class T2pks:
    """ type II PKS analysis: the hmmscan / blastp finders are replaced by hit tables, everything downstream is real """
    module = t2pks

    @staticmethod
    def options(case, env, c, workdir):
        return SimpleNamespace()

    @staticmethod
    def record(case, env, c):
        record = plain_record(case["L"], False, c["rec"])
        for idx, (start, end, strand) in enumerate(case["genes"]):
            record.add_cds_feature(DummyCDS(start=start, end=end, strand=strand, locus_tag=f"g{idx + 1}"))
        for start, end, product in case["clusters"]:
            record.add_protocluster(Protocluster(FeatureLocation(start + 3, end - 3, 1), FeatureLocation(start, end, 1), tool="verif",
                                                 product=product, cutoff=10, neighbourhood_range=3, detection_rule="a"))
        record.create_candidate_clusters()
        record.create_regions()
        return record

    @staticmethod
    def patches(case, env, c, workdir):
        def hmmscan(cds_features):
            out = {}
            for cds in cds_features:
                idx = int(cds.get_name()[1:]) - 1
                hits = [HMMResult(label, 2 + 9 * k, 10 + 9 * k, 10 ** -(12 + k), 40.5 + 3 * k) for k, label in enumerate(case["t2hits"][idx])]
                if hits:
                    out[cds.get_name()] = hits
            return out

        def blastp(cds_hmm_hits):
            out = {}
            for cds in cds_hmm_hits:
                idx = int(cds.get_name()[1:]) - 1
                hits = [HMMResult(label, 1, 9, 1e-30, 200.25 + k) for k, label in enumerate(case["blast"][idx])]
                if hits:
                    out[cds.get_name()] = hits
            return out
        return [mock.patch.object(t2pks_analysis, "run_t2pks_hmmscan", side_effect=hmmscan),
                mock.patch.object(t2pks_analysis, "run_starter_unit_blastp", side_effect=blastp)]

    @staticmethod
    def run(case, env, c, record, options, workdir):
        return t2pks.run_on_record(record, None, options)

    @staticmethod
    def effects(results, record):
        results.add_to_record(record)


DRIVERS = {"t2pks": T2pks, "rules": Rules, "sideload": Sideload, "nrps": Nrps, "hmmer": Hmmer, "tta": Tta, "pfam2go": Pfam2go}


class _Patched:
    def __init__(self, patches):
        self.patches = patches

    def __enter__(self):
        for patch in self.patches:
            patch.start()

    def __exit__(self, *_):
        for patch in reversed(self.patches):
            patch.stop()


def hit_key(hit: dict) -> dict:
    """ HMMer hit as [a |-> 10 * score, b |-> -log10(evalue)] (the generator only uses such values) """
    import math  # pylint: disable=import-outside-toplevel
    return {"a": int(round(hit["score"] * 10)), "b": int(round(-math.log10(hit["evalue"])))}


def observe_results(driver, results, record) -> tuple:
    """ (json text, effects projection) of results held after a Run / Regenerate on `record`; as in the pipeline the results
        are first put into the record and serialised afterwards (protoclusters are written with the number the record gave them) """
    driver.effects(results, record)
    feats = project_record(record)
    return dumps(results), feats


def reuse_view(record):
    """ the record of the earlier run as main.read_data hands it to the modules of a run with --reuse-results: the
        annotated record with antiSMASH's own annotations stripped again (the stand-in genes of these records cannot pass
        through a results file themselves, so the record object is the one the earlier run annotated) """
    record.strip_antismash_annotations()
    return record


def observe_refilter(case: dict) -> dict:
    """ RREFinder results holding the hits of the case (one gene each), saved under the old settings and regenerated under
        the new ones; what the regenerated results hold, say when saved again, and add to a fresh record """
    setup_process()
    from antismash.common.hmmer import HmmerHit  # pylint: disable=import-outside-toplevel
    from antismash.modules import rrefinder  # pylint: disable=import-outside-toplevel
    from antismash.modules.rrefinder.rrefinder import RREFinderResults  # pylint: disable=import-outside-toplevel
    from antismash.modules.rrefinder.rre_domain import RREDomain  # pylint: disable=import-outside-toplevel
    hits = case["hits"]
    layout = {"L": 330 * len(hits) + 60, "genes": [[30 + 330 * idx, 330 + 330 * idx, 1] for idx in range(len(hits))]}
    event = {"id": case["id"], "op": "refilter", "hits": hits, "old": case["old"], "new": case["new"]}
    try:
        by_cds = {}
        for idx, hit in enumerate(hits):
            start = layout["genes"][idx][0]
            by_cds[f"g{idx + 1}"] = [HmmerHit(location=f"[{start}:{start + 3 * hit['len']}](+)", label="RRE_type_A", locus_tag=f"g{idx + 1}",
                                              domain="RRE_type_A", evalue=1e-5, score=hit["sc"] / 10, identifier="RREFam001.1",
                                              description="RRE", protein_start=0, protein_end=hit["len"], translation="M" * hit["len"])]
        update_config({"rre_cutoff": case["old"]["cut"] / 10, "rre_min_length": case["old"]["minlen"]})
        record = gene_record(layout, 0)
        first = RREFinderResults(record.id, case["old"]["cut"] / 10, case["old"]["minlen"], {1: sorted(by_cds)}, by_cds)
        saved = asjson.loads(asjson.dumps(first.to_json()))
        update_config({"rre_cutoff": case["new"]["cut"] / 10, "rre_min_length": case["new"]["minlen"]})
        fresh = gene_record(layout, 0)
        again = rrefinder.regenerate_previous_results(saved, fresh, get_config())
        if again is None:
            event["out"] = {"exc": "", "o": "discarded", "kept": [], "feats": [], "cut": 0, "minlen": 0}
        else:
            text = asjson.loads(asjson.dumps(again.to_json()))
            again.add_to_record(fresh)
            feats = sorted(int(dom.locus_tag[1:]) for dom in fresh.get_antismash_domains() if isinstance(dom, RREDomain))
            event["out"] = {"exc": "", "o": "regenerated", "kept": sorted(int(name[1:]) for name in text["hits_by_cds"]),
                            "feats": feats, "cut": int(round(text["bitscore_cutoff"] * 10)), "minlen": int(text["min_length"])}
    except Exception as err:  # pylint: disable=broad-except
        event["out"] = {"exc": exc_text(err), "o": "", "kept": [], "feats": [], "cut": 0, "minlen": 0}
    return event


def observe_refilter_many(cases: list) -> list:
    return [observe_refilter(case) for case in cases]


def replay(kind: str, case: dict, env: dict, hist: list, workdir: str, keep_texts: bool = False) -> list:
    """ hist: [{"a": action, "c": context in force after it}]. Returns the logged steps (see Reuse_Trace.tla); stops before
        an action that does not apply to the real state (e.g. Save after results were dropped). """
    setup_process()
    driver = DRIVERS[kind]
    case = dict(case)
    case["workdir"] = workdir
    module = driver.mod(case) if kind == "hmmer" else driver.module
    held = None            # results object in use
    held_schema = 0
    saved_text = None
    saved_schema = 0
    annotated = None       # (record context, the record as the run that produced the held results left it)
    steps = []
    blank = {"o": "", "exc": "", "msg": "", "js": "", "ef": "", "fj": "", "fe": "", "hits": [], "kept": [], "lab": {"a": 0, "b": 1}}
    for entry in hist:
        action, c = entry["a"], entry["c"]
        step = dict(blank, a=action, c=c)
        if action.startswith("Chg:"):
            if saved_text is None:
                break
        elif action == "Run":
            if held is not None or saved_text is not None:
                break
            try:
                options = driver.options(case, env, c, workdir)
                record = driver.record(case, env, c)
                with _Patched(driver.patches(case, env, c, workdir)):
                    held = driver.run(case, env, c, record, options, workdir)
            except Exception as err:  # pylint: disable=broad-except
                step.update(exc="run:" + exc_text(err), msg=exc_message(err))   # the module's own run path failed: not about reuse
                held = None
            else:
                try:
                    driver.effects(held, record)
                    feats = project_record(record)
                except Exception as err:  # pylint: disable=broad-except
                    step.update(exc="run:" + exc_text(err), msg=exc_message(err))     # still the module's own run path
                    held = None
                else:
                    annotated = (c["rec"], record)
                    try:
                        text = dumps(held)
                        step.update(js=digest(text), ef=digest(repr(feats)), summary=summary(feats), size=len(text))
                        if keep_texts:
                            step["text"] = text
                        held_schema = c["schema"]
                    except Exception as err:  # pylint: disable=broad-except
                        step.update(exc=exc_text(err), msg=exc_message(err))          # results that cannot be saved
                        held = None
            saved_text = None
        elif action == "Save":
            if held is None:
                break
            try:
                saved_text = dumps(held)
                step["js"] = digest(saved_text)
                saved_schema = held_schema
            except Exception as err:  # pylint: disable=broad-except
                step.update(exc=exc_text(err), msg=exc_message(err))
                saved_text = None
            if saved_text is not None:
                held = None
        elif action == "Regen":
            if saved_text is None:
                break
            data = asjson.loads(saved_text)
            if c["schema"] != saved_schema:
                data = shift_schema(data, c["schema"] - saved_schema, case.get("schema_target", "all"))
            held = None
            try:
                options = driver.options(case, env, c, workdir)
                record = driver.record(case, env, c)
                if kind == "rules" and annotated is not None and annotated[0] == c["rec"] and len(steps) % 2:
                    # every other time the record is what a run with --reuse-results works on: the annotated record of the
                    # earlier run with antiSMASH's annotations stripped again
                    record = reuse_view(annotated[1])
                    if case.get("subregion"):   # (what another module had put there is put there again by that module)
                        record.add_subregion(SubRegion(FeatureLocation(0, case["scene"]["L"], 1), tool="verif", label="whole record"))
            except Exception as err:  # pylint: disable=broad-except
                raise MachineryError(f"could not materialise {kind} case for regeneration: {err!r}") from err
            with _Patched(driver.patches(case, env, c, workdir)):
                try:
                    regenerated = module.regenerate_previous_results(data, record, options)
                    if regenerated is None or isinstance(regenerated, dict):
                        step["o"] = "discarded"
                    else:               # main.run_module hands whatever came back (even if falsy) to run_on_record
                        used = module.run_on_record(record, regenerated, options)
                        if used is regenerated:
                            step["o"] = "regenerated"
                            held = regenerated
                        else:
                            step["o"] = "discarded"     # the module chose to run again
                except Exception as err:  # pylint: disable=broad-except
                    step.update(o="refused", exc=exc_text(err), msg=exc_message(err))
                if held is not None:
                    try:
                        text, feats = observe_results(driver, held, record)
                        annotated = (c["rec"], record)
                        step.update(js=digest(text), ef=digest(repr(feats)), summary=summary(feats), size=len(text))
                        if keep_texts:
                            step["text"] = text
                    except Exception as err:  # pylint: disable=broad-except
                        step.update(o="refused", exc=exc_text(err), msg="while adding the regenerated results to the record: " + exc_message(err))
                        held = None
                if kind in ("tta", "hmmer"):
                    try:
                        fresh_record = driver.record(case, env, c)
                        fresh = driver.run(case, env, c, fresh_record, options, workdir)
                        text, feats = observe_results(driver, fresh, fresh_record)
                        step.update(fj=digest(text), fe=digest(repr(feats)))
                    except Exception as err:  # pylint: disable=broad-except
                        step.update(fj="exc " + exc_text(err), fe="exc")         # never equal to a real digest
            if kind == "hmmer":
                before = asjson.loads(saved_text)["hits"]
                step["hits"] = [hit_key(hit) for hit in before]
                if held is not None:
                    after = [hit.to_json() for hit in held.hits]
                    step["kept"] = [hit in after for hit in before]
                    step["lab"] = {"a": int(round(held.score * 10)), "b": hit_key({"score": 0, "evalue": held.evalue})["b"]}
                    step["extra"] = len([hit for hit in after if hit not in before])
            held_schema = c["schema"]
            saved_text = None
        else:
            raise MachineryError(f"unknown action {action}")
        steps.append(step)
        if step["exc"] and action in ("Run", "Save"):
            break
    return steps


# ---- abstract content cases (inputs only) ---------------------------------------------------------------------------
def sideload_case(rng: random.Random, tag: str) -> dict:
    circ = rng.random() < 0.5
    length = rng.choice([600, 900, 1200])
    genes = []
    pos = 10
    while pos + 40 < length - 5:
        size = rng.choice([30, 36, 42])
        genes.append([pos, pos + size, rng.choice([1, -1])])
        pos += size + rng.choice([10, 20, 30])

    def span(min_size=140):
        size = rng.randrange(min_size, length // 2)
        start = rng.randrange(0, length)
        if start + size <= length:
            return start, start + size
        if circ:
            return start, start + size - length
        return length - size, length

    def details():
        pool = [("score", "6.5"), ("some_option", ["first", "second"]), ("evidence-code", "x.y-z"), ("note2", "text with spaces; and = signs")]
        return dict(rng.sample(pool, rng.randrange(0, 3)))

    def annotation_file(tool_name):
        subs, protos = [], []
        for _ in range(rng.randrange(0, 3)):
            start, end = span()
            entry = {"start": start, "end": end, "label": rng.choice(["Polyketide", "sub A", "x-1", "unknown"])}
            if rng.random() < 0.6:
                entry["details"] = details()
            subs.append(entry)
        for _ in range(rng.randrange(0, 3)):
            start, end = span()
            left = rng.choice([0, 5, 20])
            right = rng.choice([0, 7, 30])
            if not circ:
                left = min(left, start)
                right = min(right, length - end)
            entry = {"core_start": start, "core_end": end, "product": rng.choice(["T1PKS", "NRPS", "weird-product", "terpene"])}
            if left:
                entry["neighbourhood_left"] = left
            if right:
                entry["neighbourhood_right"] = right
            if rng.random() < 0.5:
                entry["details"] = details()
            protos.append(entry)
        tool = {"name": tool_name, "version": rng.choice(["1.0", "2.3-beta"])}
        if rng.random() < 0.7:
            tool["description"] = "an external tool; with punctuation"
        if rng.random() < 0.7:
            tool["configuration"] = {"setting1": "value", "multi-setting": ["first", "second"]}
        return {"tool": tool, "records": [{"name": "rec0", "subregions": subs, "protoclusters": protos},
                                           {"name": "rec0_0", "subregions": subs, "protoclusters": protos},
                                           {"name": "some-other-record", "subregions": [{"start": 1, "end": 50, "label": "elsewhere"}]}]}

    def arguments():
        files = [annotation_file(name) for name in rng.sample(["tool one", "second_tool", "third-tool"], rng.randrange(0, 3))]
        simple = None
        if rng.random() < 0.6 or not files:
            start, end = span()
            if start < end:
                simple = [rng.choice(["rec0", "rec0_0"]) if rng.random() < 0.2 else "rec0", start, end]
        markers = [f"g{rng.randrange(1, len(genes) + 1)}" for _ in range(rng.randrange(0, 3))]
        if simple and simple[0] != "rec0":
            simple = ["rec0", simple[1], simple[2]]
        return {"files": files, "simple": simple, "markers": sorted(set(markers)), "padding": rng.choice([60, 100, 200])}

    return {"tag": tag, "L": length, "circ": circ, "genes": genes, "args": [arguments(), arguments()]}


def nrps_case(rng: random.Random, tag: str) -> dict:
    genes, domains, motifs = [], [], []
    pos = 30
    templates = [["PKS_KS", "PKS_AT", "PKS_DH", "PKS_KR", "ACP"], ["Condensation_LCL", "AMP-binding", "PCP"],
                 ["Condensation_Starter", "AMP-binding", "nMT", "PCP", "Epimerization"], ["PKS_KS", "PKS_AT"], ["PKS_KR", "ACP", "Thioesterase"],
                 ["PKS_KS", "Trans-AT_docking", "PKS_DH", "ACP", "PKS_KR"], ["CAL_domain", "ACP"], ["AMP-binding"], ["PCP", "TD"], []]
    strand = rng.choice([1, -1])
    for _ in range(rng.randrange(2, 5)):
        if rng.random() < 0.3:
            strand = -strand
        if rng.random() < 0.6:
            labels = list(rng.choice(templates))
            if rng.random() < 0.3:
                labels += list(rng.choice(templates))
        else:
            labels = [rng.choice(NRPS_DOMAINS) for _ in range(rng.randrange(1, 7))]
        gene_domains = []
        for label in labels:
            sub = sub2 = ""
            if label == "PKS_KS" and rng.random() < 0.7:
                sub = rng.choice(KS_SUBTYPES)
                if sub == "Trans-AT-KS" and rng.random() < 0.6:
                    sub2 = rng.choice(TRANSATOR)
            gene_domains.append([label, sub, sub2])
        aminos = max(20, 10 + 40 * len(gene_domains))
        genes.append([pos, pos + 3 * aminos, strand])
        pos += 3 * aminos + rng.choice([12, 30])
        domains.append(gene_domains)
        motifs.append([[rng.choice(MOTIFS), 3 + 14 * k] for k in range(rng.randrange(0, 3))] if gene_domains or rng.random() < 0.3 else [])
    return {"tag": tag, "L": pos + 30, "genes": genes, "domains": domains, "motifs": motifs}


def hmmer_case(rng: random.Random, tag: str, thresholds: list) -> dict:
    genes, hits = [], []
    pos = 30
    scores = sorted({t["a"] for t in thresholds} | {5, 30, 55, 120, 205, 255, 300, 455})
    evalues = sorted({t["b"] for t in thresholds} | {0, 3, 4, 8, 12, 30})
    for gene in range(1, rng.randrange(2, 5) + 1):
        aminos = rng.choice([120, 200, 260])
        genes.append([pos, pos + 3 * aminos, rng.choice([1, -1])])
        pos += 3 * aminos + 30
        for _ in range(rng.randrange(0, 5)):
            start = rng.randrange(0, aminos - 40)
            end = min(aminos, start + rng.choice([25, 40, 80]))
            hits.append([gene, rng.randrange(0, len(PFAMS)), start, end, rng.choice(scores), rng.choice(evalues)])
    return {"tag": tag, "L": pos + 30, "genes": genes, "hits": hits, "module": rng.choice(["cluster_hmmer", "full_hmmer"])}


def tta_case(rng: random.Random, tag: str, gc_percent: int) -> dict:
    """ sequence of 600 bases with exactly gc_percent % G/C and TTA codons inside the genes """
    length = 600
    genes = [[30, 150, 1], [180, 330, -1], [360, 540, 1]]
    seq = [rng.choice("AT") for _ in range(length)]
    fixed = set()
    for start, end, strand in genes:
        for codon in range(start, end, 3):
            if rng.random() < 0.15:
                seq[codon:codon + 3] = list("TTA" if strand == 1 else "TAA")
                fixed.update(range(codon, codon + 3))
    free = [i for i in range(length) if i not in fixed]
    rng.shuffle(free)
    wanted = length * gc_percent // 100
    if wanted > len(free):
        raise MachineryError("cannot reach the requested GC content")
    for i in free[:wanted]:
        seq[i] = rng.choice("GC")
    text = "".join(seq)
    assert sum(text.count(x) for x in "GC") == wanted
    return {"tag": tag, "L": length, "genes": genes, "seq": text, "gcn": wanted, "len": length}


T2_HITS = ["KS", "CLF_7", "CLF_8|9", "CLF_11|12", "CYC_C7-C12", "CYC_C5-C14", "CYC_C5-C14/C3-C16", "CYC_C9-C14", "CYC_C2-C19", "KR_C9",
           "OXY", "MET_C6", "HAL", "ACP", "KSIII", "AT", "GT"]
T2_BLAST = ["KSIII_AAF70109.1_Aclacinomycin_propionyl-CoA", "AT_ADG86309.1_A-74528_hexadienyl-CoA", "KSIII_ACI88883.1_Alnumycin_butyryl-CoA"]


def t2pks_case(rng: random.Random, tag: str) -> dict:
    genes, t2hits, blast = [], [], []
    pos = 12
    for _ in range(rng.randrange(3, 8)):
        genes.append([pos, pos + 90, rng.choice([1, -1])])
        pos += 90 + rng.choice([6, 15])
        labels = rng.sample(T2_HITS, rng.choice([0, 1, 1, 2]))
        if rng.random() < 0.35:
            labels.append(rng.choice(["CLF_8|9", "CYC_C7-C12", "CYC_C5-C14/C3-C16"]))
        t2hits.append(labels)
        blast.append([rng.choice(T2_BLAST)] if any(x in ("KSIII", "AT") for x in labels) and rng.random() < 0.8 else [])
    length = pos + 12
    clusters = [[0, length, "T2PKS"]]
    if len(genes) >= 5 and rng.random() < 0.4:
        cut = genes[len(genes) // 2][0] - 3
        clusters = [[0, cut, "T2PKS"], [cut, length, rng.choice(["T2PKS", "T1PKS"])]]
    return {"tag": tag, "L": length, "genes": genes, "t2hits": t2hits, "blast": blast, "clusters": clusters}
