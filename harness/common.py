""" Shared plumbing: locating the tree under test, seeds, scratch dirs, process fan-out. """

import json
import multiprocessing
import os
import shutil
import sys
import tempfile
import time
from contextlib import contextmanager

VERIF = os.path.dirname(os.path.dirname(os.path.abspath(__file__)))
REPO = os.path.abspath(os.environ.get("VERIF_REPO", "/repo"))
SPEC_DIR = os.path.join(VERIF, "spec")
CPUS = int(os.environ.get("VERIF_CPUS", str(min(16, os.cpu_count() or 1))))


def import_repo():
    """ Makes `import antismash` resolve to the working tree under test (never the
        develop-mode install of the venv) and asserts that it did.
    """
    if sys.path[0] != REPO:
        sys.path.insert(0, REPO)
    os.environ.setdefault("ANTISMASH_VERIF", "1")
    import antismash  # pylint: disable=import-outside-toplevel
    where = os.path.abspath(antismash.__file__)
    if not where.startswith(REPO + os.sep):
        raise MachineryError(f"antismash imported from {where}, not from {REPO}")
    return antismash


class MachineryError(Exception):
    """ The check itself is broken (exit 2), as opposed to the property being violated. """


def seed() -> int:
    try:
        return int(os.environ.get("VERIF_SEED", "0"))
    except ValueError:
        return 0


@contextmanager
def scratch(prefix="verif_"):
    """ A scratch directory removed afterwards (kept if VERIF_KEEP is set). """
    base = os.environ.get("VERIF_SCRATCH") or tempfile.gettempdir()
    path = tempfile.mkdtemp(prefix=prefix, dir=base)
    try:
        yield path
    finally:
        if not os.environ.get("VERIF_KEEP"):
            shutil.rmtree(path, ignore_errors=True)


def chunks(items, n):
    """ Splits a list into at most n contiguous chunks of near-equal size. """
    items = list(items)
    if not items:
        return []
    n = max(1, min(n, len(items)))
    size, extra = divmod(len(items), n)
    out = []
    pos = 0
    for i in range(n):
        step = size + (1 if i < extra else 0)
        out.append(items[pos:pos + step])
        pos += step
    return out


def pmap(func, items, procs=None):
    """ Ordered parallel map over processes (fork), falling back to in-process for tiny inputs. """
    items = list(items)
    procs = procs or CPUS
    if procs <= 1 or len(items) <= 1:
        return [func(item) for item in items]
    ctx = multiprocessing.get_context("fork")
    with ctx.Pool(min(procs, len(items))) as pool:
        return pool.map(func, items, chunksize=1)


def canon(obj) -> str:
    """ Canonical JSON text of an abstract value (used as identity of a case). """
    return json.dumps(obj, sort_keys=True, separators=(",", ":"))


class Timer:
    def __init__(self):
        self.start = time.time()

    def elapsed(self) -> float:
        return round(time.time() - self.start, 3)
