""" Known findings: matching failure records against the committed known_findings.json.

    An entry suppresses (turns into a KNOWN-FINDING line) only failures that match it *exactly*:
      - same property, call site (`op`) and failed clause, and
      - either the canonical abstract input is listed in the entry's cases file (exhaustive shards),
      - or (failures from sampled spaces, `sampled: true`) the failure's input features include
        every literal of the entry's `class`.
    Nothing in here ever writes the findings files.
"""

import glob
import hashlib
import json
import os

from .common import VERIF, canon

FILE = os.path.join(VERIF, "known_findings.json")


def case_key(failure: dict) -> str:
    ident = canon({"op": failure["op"], "clause": failure["clause"], "input": failure["input"]})
    return hashlib.sha1(ident.encode()).hexdigest()[:20]


class Findings:
    def __init__(self, path: str = FILE):
        self.entries = []
        self.fixed = []
        paths = [path] + sorted(glob.glob(os.path.join(os.path.dirname(path), "known_findings.d", "*.json")))
        for one in paths:
            if not os.path.exists(one):
                continue
            with open(one, encoding="utf-8") as handle:
                data = json.load(handle)
            self.entries += data.get("findings", [])
            self.fixed += data.get("fixed", [])
        self._cases = {}
        for entry in self.entries:
            keys = set()
            name = entry.get("cases_file")
            if name:
                with open(os.path.join(VERIF, name), encoding="utf-8") as handle:
                    for line in handle:
                        line = line.strip()
                        if line:
                            keys.add(json.loads(line)["key"])
            self._cases[entry["id"]] = keys

    def match(self, failure: dict):
        """ Returns the id of the entry that lists this failure, or None. """
        for entry in self.entries:
            if failure["property"] not in entry["properties"]:
                continue
            if failure["op"] not in entry["ops"]:
                continue
            if not any(failure["clause"] == c or failure["clause"].startswith(c + ":") for c in entry["clauses"]):
                continue
            if failure.get("sampled") or not entry.get("cases_file"):
                literals = entry.get("class")
                if literals is not None and set(literals) <= set(failure.get("features", [])):
                    return entry["id"]
                # further shapes of input through which the same call site shows (each a list of literals)
                for other in entry.get("class_also", []):
                    if set(other) <= set(failure.get("features", [])):
                        return entry["id"]
                continue
            if case_key(failure) in self._cases[entry["id"]]:
                return entry["id"]
        return None

    def describe(self, ident: str) -> str:
        for entry in self.entries:
            if entry["id"] == ident:
                return entry["what"]
        return ""
