""" Running TLC / SANY from python: literal configs, stats and coverage parsing. """

import glob
import os
import re
import subprocess
from dataclasses import dataclass, field

from .common import CPUS, SPEC_DIR, MachineryError

CLASSPATH = "/opt/veriftools/tla/tla2tools.jar:/opt/veriftools/tla/CommunityModules-deps.jar"

_STATS = re.compile(r"(\d+) states generated, (\d+) distinct states found, (\d+) states left on queue")
_DEPTH = re.compile(r"The depth of the complete state graph search is (\d+)")
_INV = re.compile(r"Invariant (\S+) is violated")
_APROP = re.compile(r"Action property (\S+) is violated")
_COV = re.compile(r"^<(\w+) line (\d+), col \d+ to line \d+, col \d+ of module (\w+)>: (\d+):(\d+)", re.M)


@dataclass
class TLCRun:
    rc: int
    out: str
    workdir: str
    generated: int = 0
    distinct: int = 0
    depth: int = 0
    violated: str = ""
    errors: list = field(default_factory=list)
    coverage: dict = field(default_factory=dict)
    dump_path: str = ""

    @property
    def ok(self) -> bool:
        return self.rc == 0 and not self.violated and not self.errors

    def require_ok(self, what=""):
        if not self.ok:
            tail = "\n".join(self.out.splitlines()[-40:])
            raise MachineryError(f"TLC run failed {what}: rc={self.rc} violated={self.violated!r}\n{tail}")
        return self


def stage(workdir: str, extra_files: dict = None) -> None:
    """ Places all spec modules (symlinks) plus generated files into workdir. """
    os.makedirs(workdir, exist_ok=True)
    for path in glob.glob(os.path.join(SPEC_DIR, "*.tla")):
        target = os.path.join(workdir, os.path.basename(path))
        if not os.path.exists(target):
            os.symlink(path, target)
    for name, text in (extra_files or {}).items():
        target = os.path.join(workdir, name)
        if os.path.islink(target):
            os.unlink(target)
        with open(target, "w", encoding="utf-8") as handle:
            handle.write(text)


def run(module: str, cfg: str, workdir: str, *, extra_files: dict = None, workers: int = None,
        simulate: str = None, depth: int = None, seed: int = None, dump: bool = False,
        coverage: bool = False, env: dict = None, timeout: int = 1800, heap: str = None,
        deadlock_off: bool = True, tag: str = "", cont: bool = False, queue_dfs: bool = False) -> TLCRun:
    """ Runs TLC on `module` (found in spec/ or extra_files) with the literal config text `cfg`. """
    stage(workdir, extra_files)
    cfg_name = f"{module}{tag}.cfg"
    with open(os.path.join(workdir, cfg_name), "w", encoding="utf-8") as handle:
        handle.write(cfg)
    meta = os.path.join(workdir, f"meta{tag}")
    # (TLC's own temporary directories go into the scratch directory of the check and are removed with it)
    jtmp = os.path.join(workdir, f"jtmp{tag}")
    os.makedirs(jtmp, exist_ok=True)
    cmd = ["java", "-XX:+UseParallelGC", f"-Djava.io.tmpdir={jtmp}"]
    if heap:
        cmd.append(f"-Xmx{heap}")
    if queue_dfs:
        cmd.append("-Dtlc2.tool.queue.IStateQueue=StateDeque")
    cmd += ["-cp", CLASSPATH, "tlc2.TLC", "-workers", str(workers or CPUS), "-metadir", meta,
            "-noGenerateSpecTE", "-config", cfg_name]
    if deadlock_off:
        cmd.append("-deadlock")
    if cont:
        cmd.append("-continue")
    dump_path = ""
    if dump:
        dump_path = os.path.join(workdir, f"states{tag}")
        cmd += ["-dump", dump_path]
        dump_path += ".dump"
    if coverage:
        cmd += ["-coverage", "1"]
    if simulate is not None:
        cmd += ["-simulate", simulate] if simulate else ["-simulate"]
        if depth:
            cmd += ["-depth", str(depth)]
    if seed is not None:
        cmd += ["-seed", str(seed)]
    cmd.append(module)
    full_env = dict(os.environ)
    full_env.update(env or {})
    try:
        proc = subprocess.run(cmd, cwd=workdir, env=full_env, stdout=subprocess.PIPE,
                              stderr=subprocess.STDOUT, timeout=timeout, check=False)
        out = proc.stdout.decode("utf-8", "replace")
        rc = proc.returncode
    except subprocess.TimeoutExpired as err:
        out = (err.stdout or b"").decode("utf-8", "replace") + "\n[harness] TLC timed out"
        rc = 124
    result = TLCRun(rc=rc, out=out, workdir=workdir, dump_path=dump_path)
    stats = _STATS.findall(out)
    if stats:
        result.generated, result.distinct = int(stats[-1][0]), int(stats[-1][1])
    depth_match = _DEPTH.findall(out)
    if depth_match:
        result.depth = int(depth_match[-1])
    violated = _INV.findall(out) or _APROP.findall(out)
    if violated:
        result.violated = violated[0]
    for line in out.splitlines():
        if line.startswith("Error:") and "is violated" not in line:
            result.errors.append(line)
    if rc == 124:
        result.errors.append("timeout")
    for name, line, mod, a, b in _COV.findall(out):
        key = f"{mod}!{name}"
        prev = result.coverage.get(key, (0, 0))
        result.coverage[key] = (prev[0] + int(a), prev[1] + int(b))
    return result


def sany(path: str) -> tuple:
    """ Parses one module with SANY; returns (ok, output). """
    proc = subprocess.run(["java", "-cp", CLASSPATH, "tla2sany.SANY", os.path.basename(path)],
                          cwd=os.path.dirname(path), stdout=subprocess.PIPE, stderr=subprocess.STDOUT,
                          check=False)
    out = proc.stdout.decode("utf-8", "replace")
    ok = proc.returncode == 0 and "*** Errors" not in out and "Fatal errors" not in out and "Could not" not in out
    return ok, out


_PRINT = re.compile(r'^<<"(\w+)"')


def printed(out: str, tag: str):
    """ Yields the text of every `PrintT(<<"tag", ...>>)` line in TLC output. """
    prefix = f'<<"{tag}"'
    for line in out.splitlines():
        if line.startswith(prefix):
            yield line


def printed_value(out: str, tag: str):
    """ Parses the value of a (possibly multi-line) `PrintT(<<"tag", value>>)` from TLC output. """
    from . import tlaval  # pylint: disable=import-outside-toplevel
    start = out.find(f'<<"{tag}"')
    if start < 0:
        start = out.find(f'<< "{tag}"')
    if start < 0:
        raise MachineryError(f"TLC did not print {tag}")
    depth = 0
    pos = start
    in_string = False
    while pos < len(out):
        two = out[pos:pos + 2]
        char = out[pos]
        if in_string:
            if char == "\\":
                pos += 1
            elif char == '"':
                in_string = False
        elif char == '"':
            in_string = True
        elif two == "<<":
            depth += 1
            pos += 1
        elif two == ">>":
            depth -= 1
            pos += 1
            if depth == 0:
                return tlaval.parse(out[start:pos + 1])[1]
        pos += 1
    raise MachineryError(f"unterminated {tag} value in TLC output")
