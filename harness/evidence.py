""" Evidence writer: evidence/<id>.json, validated against the EVIDENCE schema before writing. """

import json
import os

import tempfile

from .common import REPO, VERIF

SCHEMA = "/root/.vp/EVIDENCE.schema.json"


def write(prop: str, tier: str, seed: int, coverage: dict, wall_s: float, violations: int,
          assumptions: list, extra: dict = None) -> str:
    data = {
        "property_id": prop,
        "tier": tier,
        "seed": seed,
        "level": "model_checking",
        "coverage": coverage,
        "assumptions": assumptions,
        "wall_s": wall_s,
        "violations": violations,
    }
    data.update(extra or {})
    try:
        import jsonschema  # pylint: disable=import-outside-toplevel
        if os.path.exists(SCHEMA):
            with open(SCHEMA, encoding="utf-8") as handle:
                jsonschema.validate(data, json.load(handle))
    except ImportError:
        pass
    directory = os.path.join(VERIF, "evidence")
    if os.path.abspath(REPO) != "/repo":
        # a run against a scratch copy (mutant self-test, seeded change) must not overwrite the evidence of /repo
        directory = os.path.join(tempfile.gettempdir(), "verif_scratch_evidence")
    os.makedirs(directory, exist_ok=True)
    path = os.path.join(directory, f"{prop}.json")
    tmp = path + ".tmp"
    with open(tmp, "w", encoding="utf-8") as handle:
        json.dump(data, handle, indent=1, sort_keys=True, default=str)
        handle.write("\n")
    os.replace(tmp, path)
    return path
