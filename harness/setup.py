""" setup_cmd: parse every spec module with SANY (fails loudly if a module is broken). """
import glob
import os
import sys
from concurrent.futures import ThreadPoolExecutor

from . import tlc
from .common import SPEC_DIR, VERIF


def main() -> int:
    os.makedirs(os.path.join(VERIF, "evidence"), exist_ok=True)
    os.makedirs(os.path.join(VERIF, "replays"), exist_ok=True)
    modules = sorted(glob.glob(os.path.join(SPEC_DIR, "*.tla")))
    with ThreadPoolExecutor(max_workers=8) as pool:
        results = list(pool.map(tlc.sany, modules))
    bad = 0
    for path, (ok, out) in zip(modules, results):
        print(("ok   " if ok else "FAIL ") + os.path.basename(path))
        if not ok:
            bad += 1
            print(out[-1500:])
    return 1 if bad else 0


if __name__ == "__main__":
    sys.exit(main())
