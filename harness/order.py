""" Location order of features and areas (spec/Order.tla): comparison matrices of real features and the lists a real Record
    keeps for every insertion order, judged by Order_Trace. Used as a stage of the C06 check (numbering in location order,
    numbers identify features whatever the build order). Nothing in here decides anything.
"""

import itertools
import random

from . import tlc
from .common import CPUS, MachineryError, chunks, pmap

MC_CFG = """SPECIFICATION Spec
CHECK_DEADLOCK FALSE
CONSTANTS
  Len0 = %d
  Comparison = "%s"
INVARIANT ComparisonLawful
INVARIANT ListSorted
INVARIANT NumbersIndependentOfInsertionOrder
"""


def _plain_loc(value):
    return {"parts": [list(p) for p in value["parts"]], "strand": value["strand"]}


def _real(kind, loc, idx):
    from . import build as B  # pylint: disable=import-outside-toplevel
    from antismash.common.secmet.features import Feature, SubRegion  # pylint: disable=import-outside-toplevel
    if kind == "area":
        return SubRegion(B.loc(loc), tool="verif", label=f"s{idx}")
    return Feature(B.loc(loc), feature_type="misc_feature")


def observe(case):
    from . import build as B, project as P  # pylint: disable=import-outside-toplevel
    event = {"id": case["id"], "op": case["op"], "kind": case["kind"], "L": case["L"], "circ": case["circ"], "items": case["items"],
             "exc": "", "lt": [], "orders": []}
    try:
        if case["op"] == "compare":
            objs = [_real(case["kind"], loc, idx) for idx, loc in enumerate(case["items"])]
            event["lt"] = [[bool(a < b) for b in objs] for a in objs]
            return event
        from antismash.common.secmet.features import SubRegion  # pylint: disable=import-outside-toplevel
        from antismash.common.secmet.test.helpers import DummyCDS  # pylint: disable=import-outside-toplevel
        for order in case["perms"]:
            record = B.record(case["L"], case["circ"])
            index_of = {}
            for idx in order:
                loc = case["items"][idx - 1]
                if case["kind"] == "area":
                    obj = SubRegion(B.loc(loc), tool="verif", label=f"s{idx}")
                    record.add_subregion(obj)
                else:
                    obj = DummyCDS(location=B.loc(loc), locus_tag=f"g{idx}")
                    record.add_cds_feature(obj)
                index_of[id(obj)] = idx
            listed = record.get_subregions() if case["kind"] == "area" else record.get_cds_features()
            if case["kind"] == "area" and [record.get_subregion(i + 1) for i in range(len(listed))] != list(listed):
                raise AssertionError("number does not fetch the listed subregion")
            event["orders"].append([index_of[id(obj)] for obj in listed])
    except Exception as err:  # pylint: disable=broad-except
        event["exc"] = type(err).__name__ + ":" + str(err)[:60].replace('"', "'")
        event["lt"], event["orders"] = [], []
    return event


def observe_many(cases):
    return [observe(case) for case in cases]


def _bridging(loc):
    parts = loc["parts"][::-1] if loc["strand"] == -1 else loc["parts"]
    return any(a[0] > b[0] for a, b in zip(parts, parts[1:]))


def features(case):
    feats = [case["kind"], "circular" if case["circ"] else "linear"]
    items = case["items"]
    if any(_bridging(loc) for loc in items):
        feats.append("item_spans_origin")
    if any(sum(e - s for s, e in loc["parts"]) == case["L"] for loc in items):
        feats.append("item_covers_whole_record")
    if any(len(loc["parts"]) > 1 and not _bridging(loc) or len(loc["parts"]) > 2 for loc in items):
        feats.append("item_in_several_exons")
    return sorted(feats)


def call_text(case):
    if case["op"] == "compare":
        ctor = "SubRegion(build.loc(x), tool='verif')" if case["kind"] == "area" else "Feature(build.loc(x), feature_type='misc_feature')"
        return f"objs = [{ctor} for x in {case['items']}]; [[a < b for b in objs] for a in objs]"
    add = "add_subregion(SubRegion(build.loc(x), tool='verif'))" if case["kind"] == "area" else "add_cds_feature(DummyCDS(location=build.loc(x)))"
    return (f"for order in {case['perms']}: rec = DummyRecord(seq='A'*{case['L']}, circular={case['circ']}); "
            f"[rec.{add} for x in (items[i-1] for i in order)] with items={case['items']}")


def stage(ctx, rng, first_id):
    """ runs the model, builds the cases, validates them; returns the number of events """
    size = 5 if ctx.quick else 6
    mc = tlc.run("Order_MC", MC_CFG % (size, "key"), ctx.workdir, timeout=3000)
    ctx.model(mc, f"Order_MC ring of {size}: every insertion order of every three areas, key comparison lawful, numbers independent "
                  "of the insertion order")
    neg = tlc.run("Order_MC", MC_CFG % (4, "shortcut"), ctx.workdir, tag="_neg", timeout=3000)
    ctx.expect_violation(neg, "ListSorted", "Order_MC with the container shortcut: a whole-record area and an origin-spanning one "
                                            "are each before the other")
    areas = tlc.printed_value(mc.out, "AREAS")
    feats = tlc.printed_value(mc.out, "FEATURES")
    cases = []

    def add(op, kind, circ, items, sampled, perms=None):
        cases.append({"op": op, "kind": kind, "L": size, "circ": circ, "items": items, "sampled": sampled, "perms": perms or []})

    for circ in (False, True):
        area_locs = sorted((_plain_loc(v) for v in areas[circ]), key=str)
        feat_locs = sorted((_plain_loc(v) for v in feats[circ]), key=str)
        if not area_locs or not feat_locs:
            raise MachineryError("Order_MC printed an empty universe")
        # comparisons: all areas at once; features in random dozens, plus the origin-spanning ones among themselves
        add("compare", "area", circ, area_locs, False)
        for _ in range(80 if ctx.quick else 1500):
            add("compare", "feature", circ, rng.sample(feat_locs, min(12, len(feat_locs))), True)
        bridging = [loc for loc in feat_locs if _bridging(loc)]
        for _ in range(30 if ctx.quick else 600):
            if len(bridging) >= 6:
                add("compare", "feature", circ, rng.sample(bridging, 6) + rng.sample(feat_locs, 4), True)
        # insertion: every three areas (thorough; sampled in quick), sampled fours; sampled gene sets
        triples = list(itertools.combinations(area_locs, 3))
        if ctx.quick:
            triples = rng.sample(triples, min(len(triples), 300))
        for triple in triples:
            add("insert", "area", circ, list(triple), ctx.quick, [list(p) for p in itertools.permutations((1, 2, 3))])
        for _ in range(100 if ctx.quick else 3000):
            items = rng.sample(area_locs, 4)
            perms = [[1, 2, 3, 4], [4, 3, 2, 1]] + [rng.sample([1, 2, 3, 4], 4) for _ in range(4)]
            add("insert", "area", circ, items, True, perms)
        for _ in range(150 if ctx.quick else 4000):
            count = rng.choice([3, 4])
            items = rng.sample(feat_locs, count)
            base = list(range(1, count + 1))
            add("insert", "feature", circ, items, True, [base, base[::-1]] + [rng.sample(base, count) for _ in range(4)])
    for idx, case in enumerate(cases):
        case["id"] = first_id + idx
    events = [ev for sub in pmap(observe_many, chunks(cases, CPUS * 4)) for ev in sub]
    by_id = {}
    for case, event in zip(cases, events):
        observed = {"exc": event["exc"], "orders": event["orders"]} if case["op"] == "insert" else {"exc": event["exc"]}
        by_id[case["id"]] = {"op": case["op"] + "_" + case["kind"],
                             "input": {k: case[k] for k in ("op", "kind", "L", "circ", "items", "perms")},
                             "call": call_text(case), "observed": observed, "features": features(case), "sampled": case["sampled"]}
        if "item_spans_origin" in by_id[case["id"]]["features"]:
            ctx.nontrivial_case(case["id"])
    ctx.validate("Order_Trace", events, by_id, min_per_shard=100)
    ctx.notes["order_events"] = len(events)
    return len(events)


def replay(ctx, record):
    case = dict(record["input"], id=0)
    event = observe(case)
    ctx.validate("Order_Trace", [event], {0: {"op": record["op"], "input": record["input"]}})
