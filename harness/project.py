""" Projection: real antiSMASH objects -> abstract JSON values of the specs. """


def loc(location) -> dict:
    """ Location -> {"parts": [[s, e], ...], "strand": 1 | -1 | 0} (parts in Biopython order). """
    return {"parts": [[int(part.start), int(part.end)] for part in location.parts],
            "strand": int(location.strand) if location.strand in (1, -1) else 0}


DUMMY_LOC = {"parts": [[0, 1]], "strand": 1}


def result(func, shape=None, proj=None):
    """ Runs func(); returns {"exc": "", "v": projected value} or {"exc": <type name>, "v": shape}. """
    try:
        value = func()
    except Exception as err:  # pylint: disable=broad-except
        return {"exc": type(err).__name__, "v": shape}
    return {"exc": "", "v": proj(value) if proj else value}
