#!/bin/sh
# Offline setup: parse every spec module with SANY, create output dirs.
set -e
cd "$(dirname "$0")"
mkdir -p evidence replays
exec /venv/bin/python -m harness.setup
