----------------------------- MODULE Translate -----------------------------
(***************************************************************************)
(* Property C09: an annotation placed by protein coordinates inside a gene *)
(* covers exactly the nucleotides that encode those residues.              *)
(*                                                                         *)
(* A gene is g == [loc |-> location, cs |-> 1..3]: `loc` is the location as *)
(* written in the annotation (Ring.tla conventions: parts in transcription *)
(* order, strand 1 / -1, exon borders anywhere, an exon may be split by    *)
(* the origin of a ring) and `cs` the codon_start qualifier: the first     *)
(* cs-1 bases in transcription order are not translated.                   *)
(*                                                                         *)
(* No genetic code appears here: residue i of the translation is encoded   *)
(* by Coding(g)[3i+1..3i+3] whatever the sequence is, so "extract and       *)
(* translate gives translation[s..e)" for every sequence is exactly        *)
(* "reading the annotation's bases in transcription order gives            *)
(* Coding(g)[3s+1..3e]".                                                   *)
(***************************************************************************)
EXTENDS Ring

Gene(loc, cs) == [loc |-> loc, cs |-> cs]

(* bases of a location in transcription order: parts as listed, each part descending
   on the reverse strand (exactly what extracting the location reads) *)
TWalk(loc) == IF loc.strand = -1 THEN RevSeq(FwdWalk(loc)) ELSE Walk(loc)

RawCoding(g) == TWalk(g.loc)
Coding(g) == SubSeq(RawCoding(g), g.cs, Len(RawCoding(g)))
NumRes(g) == Len(Coding(g)) \div 3
Slice(g, s, e) == SubSeq(Coding(g), 3 * s + 1, 3 * e)
Ranges(g) == {q \in (0..NumRes(g)) \X (0..NumRes(g)) : q[1] < q[2]}

(* the location of a non-empty transcription-ordered walk: maximal runs, in transcription order *)
LocOfWalk(w, strand) ==
    IF strand = -1 THEN Loc(RevSeq(PartsOfWalk(RevSeq(w))), -1) ELSE Loc(PartsOfWalk(w), strand)

(* what the code keeps as the gene's location once codon_start is applied, and the way back *)
CodingLoc(g) == LocOfWalk(Coding(g), g.loc.strand)
SkippedBases(g) == RangeOf(SubSeq(RawCoding(g), 1, g.cs - 1))

(* the constructive answer *)
Sub(g, s, e) == LocOfWalk(Slice(g, s, e), g.loc.strand)

(* --- the relations of the statement, for an observed location r ------------- *)
(* parts may be listed more finely than maximal runs; empty parts carry no bases *)
InRecord(R, r) ==
    /\ Len(r.parts) >= 1
    /\ \A i \in DOMAIN r.parts : 0 <= r.parts[i][1] /\ r.parts[i][1] <= r.parts[i][2] /\ r.parts[i][2] <= R.L
    /\ \A i, j \in DOMAIN r.parts : i # j => PartBases(r.parts[i]) \cap PartBases(r.parts[j]) = {}

SubClause(R, g, s, e, r) ==
    IF ~InRecord(R, r) THEN "well_formed"
    ELSE IF r.strand # g.loc.strand THEN "strand_kept"
    ELSE IF ~(Bases(r) \subseteq RangeOf(Coding(g))) THEN "inside_gene"
    ELSE IF Len(TWalk(r)) # 3 * (e - s) THEN "three_per_residue"
    ELSE IF TWalk(r) # Slice(g, s, e) THEN "encodes_residues"
    ELSE "ok"
SubOK(R, g, s, e, r) == SubClause(R, g, s, e, r) = "ok"

(* a pair <<first, past_last>>: the coordinate of the lowest base of the stretch's first part in
   ascending record order and one past its last one (for an origin-crossing stretch first > last) *)
FwdFirst(g, s, e) == IF g.loc.strand = -1 THEN Slice(g, s, e)[3 * (e - s)] ELSE Slice(g, s, e)[1]
FwdLast(g, s, e) == IF g.loc.strand = -1 THEN Slice(g, s, e)[1] ELSE Slice(g, s, e)[3 * (e - s)]
ConvClause(g, s, e, pair) ==
    IF pair[1] # FwdFirst(g, s, e) THEN "start_is_first_base"
    ELSE IF pair[2] # FwdLast(g, s, e) + 1 THEN "end_is_past_last_base"
    ELSE "ok"

(* the gene itself: the location kept for the gene reads the coding bases; writing it back
   with its codon_start qualifier restores the annotated location *)
GeneLocClause(R, g, kept) ==
    IF ~InRecord(R, kept) THEN "well_formed"
    ELSE IF kept.strand # g.loc.strand THEN "strand_kept"
    ELSE IF TWalk(kept) # Coding(g) THEN "codon_start_applied"
    ELSE "ok"
GeneBackClause(R, g, back, cs) ==
    IF ~InRecord(R, back) THEN "well_formed"
    ELSE IF cs # g.cs THEN "codon_start_kept"
    ELSE IF back.strand # g.loc.strand \/ TWalk(back) # RawCoding(g) THEN "codon_start_undone"
    ELSE "ok"

(* --- implementation-shaped companions (never used for verdicts on the code) ----- *)
RECURSIVE SortByStart(_)
SortByStart(P) == IF P = {} THEN <<>>
                  ELSE LET m == CHOOSE p \in P : \A q \in P : p[1] <= q[1]
                       IN  <<m>> \o SortByStart(P \ {m})
(* design of convert_protein_position_to_dna + get_sub_location...: exons are walked in
   ascending order of their start coordinate *)
SortedWalk(loc) == LET fw == WalkFrom(SortByStart(RangeOf(loc.parts)), 1)
                   IN  IF loc.strand = -1 THEN RevSeq(fw) ELSE fw
SortedSlice(g, s, e) == SubSeq(SubSeq(SortedWalk(CodingLoc(g)), 1, 3 * NumRes(g)), 3 * s + 1, 3 * e)
(* the repaired design: ascending order, starting with the parts above the origin when the
   location bridges it *)
BridgeAwareWalk(loc) ==
    IF ~Bridges(loc) THEN SortedWalk(loc)
    ELSE LET fp == Fwd(loc)
             cut == CHOOSE i \in 1..(Len(fp) - 1) : fp[i][1] > fp[i + 1][1]
             fw == WalkFrom(SortByStart({fp[i] : i \in 1..cut}), 1) \o
                   WalkFrom(SortByStart({fp[i] : i \in (cut + 1)..Len(fp)}), 1)
         IN  IF loc.strand = -1 THEN RevSeq(fw) ELSE fw
BridgeAwareSlice(g, s, e) == SubSeq(BridgeAwareWalk(CodingLoc(g)), 3 * s + 1, 3 * e)
(* design of the TTA marker: three bases at outer start + offset (forward) or
   outer end - offset - 3 (reverse), offset = 3s *)
TtaMarker(g, s) ==
    LET c == CodingLoc(g)
        lo == MinOf(Bases(c))
        hi == MaxOf(Bases(c)) + 1
        st == IF c.strand = -1 THEN hi - 3 * s - 3 ELSE lo + 3 * s
    IN  Simple(st, st + 3, c.strand)
=============================================================================
