----------------------------- MODULE Reuse_Trace -----------------------------
(***************************************************************************)
(* Trace validation for C11.  One event = one history replayed on real      *)
(* results objects of one module:                                            *)
(*  ev == [id, kind, env : [fungi, gcn, len], from : first step to judge,    *)
(*         steps : Seq([a : "Run" | "Save" | "Regen" | "Chg:<what>",         *)
(*                      c : context in force after the action,               *)
(*                      o : "" | "regenerated" | "discarded" | "refused",    *)
(*                      exc : exception name or "",                          *)
(*                      js, ef : digest of the JSON text / of the record     *)
(*                               effects of the results held after the step, *)
(*                      fj, fe : the same for a fresh run under c (threshold *)
(*                               kinds only, else ""),                       *)
(*                      hits, kept, lab : HMMer results only - the saved     *)
(*                               hits, which of them the regenerated results *)
(*                               still hold, the thresholds they now carry)])]*)
(* The history is replayed through the actions of Reuse.tla: the model keeps *)
(* which context the held / saved results were made for; every Regen is       *)
(* classified (same / soft / convert / stale) and the logged outcome judged;  *)
(* afterwards the model is resynchronised to the logged state.                *)
(***************************************************************************)
EXTENDS Reuse, TLC, Json, IOUtils
VARIABLE l
Trace == ndJsonDeserialize(IOEnv.TRACE_FILE)

ZeroCtx == [strict |-> 0, subset |-> 0, mult |-> 0, thr |-> NoThr, opt |-> 0, schema |-> 0, rec |-> 0]
M0 == [st |-> "absent", made |-> ZeroCtx, js |-> "", ef |-> "", svjs |-> "", svef |-> "", svmade |-> ZeroCtx]

RegenFailed(ev, s, m) ==
    LET cls == Class(ev.kind, ev.env, m.svmade, s.c)
        reg == s.o = "regenerated"
    IN  CASE cls = "same" ->
               (IF ~reg THEN {"same_settings_must_regenerate:" \o s.o \o ":" \o s.exc} ELSE {})
               \cup (IF reg /\ s.js # m.svjs THEN {"json_byte_identical"} ELSE {})
               \cup (IF reg /\ s.ef # m.svef THEN {"effects_identical"} ELSE {})
          [] cls = "soft" ->
               (IF reg /\ s.js # m.svjs THEN {"reused_results_unchanged:json"} ELSE {})
               \cup (IF reg /\ s.ef # m.svef THEN {"reused_results_unchanged:effects"} ELSE {})
          [] cls = "convert" ->
               IF ~reg THEN {}
               ELSE IF ev.kind = "tta"
                    THEN (IF s.js # s.fj THEN {"converted_equals_fresh_run:json"} ELSE {})
                         \cup (IF s.ef # s.fe THEN {"converted_equals_fresh_run:effects"} ELSE {})
                    ELSE (IF ~RefilterBandOK(s.hits, s.kept, s.c.thr) THEN {"refilter_keeps_exactly_the_passing_hits"} ELSE {})
                         \cup (IF s.lab # s.c.thr THEN {"refilter_labels_new_thresholds"} ELSE {})
          [] OTHER ->
               IF reg THEN {"stale_results_dropped:" \o FirstChanged(ev.kind, ev.env, m.svmade, s.c)} ELSE {}

StepFailed(ev, s, m) ==
    CASE s.a = "Run" -> (IF s.exc # "" THEN {"run/no_exception:" \o s.exc} ELSE {})
                        \cup (IF m.st # "absent" THEN {"trace/run_while_results_held"} ELSE {})
      [] s.a = "Save" -> (IF s.exc # "" THEN {"save/no_exception:" \o s.exc} ELSE {})
                         \cup (IF m.st # "fresh" THEN {"trace/save_without_results"} ELSE {})
                         \cup (IF s.exc = "" /\ m.st = "fresh" /\ s.js # m.js THEN {"save/json_stable_between_calls"} ELSE {})
      [] s.a = "Regen" -> IF m.st # "saved" THEN {"trace/regen_without_saved_results"}
                          ELSE {"regen/" \o c : c \in RegenFailed(ev, s, m)}
      [] OTHER -> {}

StepNext(ev, s, m) ==
    CASE s.a = "Run" -> IF s.exc # "" THEN [m EXCEPT !.st = "absent"]
                        ELSE [m EXCEPT !.st = "fresh", !.made = s.c, !.js = s.js, !.ef = s.ef]
      [] s.a = "Save" -> IF s.exc # "" THEN m
                         ELSE [m EXCEPT !.st = "saved", !.svjs = s.js, !.svef = m.ef, !.svmade = m.made]
      [] s.a = "Regen" ->
            IF s.o = "regenerated"
            THEN [m EXCEPT !.st = "fresh", !.js = s.js, !.ef = s.ef,
                           !.made = IF m.st # "saved" THEN s.c
                                    ELSE LET cls == Class(ev.kind, ev.env, m.svmade, s.c) IN
                                         IF cls = "convert" THEN [m.svmade EXCEPT !.thr = s.c.thr]
                                         ELSE IF cls = "stale" THEN s.c     \* reported above; from here on they pass for results of s.c
                                         ELSE m.svmade]
            ELSE [m EXCEPT !.st = "absent"]
      [] OTHER -> m

RECURSIVE Replay(_, _, _)
Replay(ev, i, m) ==
    IF i > Len(ev.steps) THEN {}
    ELSE (IF i >= ev.from THEN StepFailed(ev, ev.steps[i], m) ELSE {})
         \cup Replay(ev, i + 1, StepNext(ev, ev.steps[i], m))

Failed(ev) == IF ev.kind \notin Kinds THEN {"trace/unknown_kind"} ELSE Replay(ev, 1, M0)

Init == l = 1
Step == /\ l <= Len(Trace)
        /\ \A c \in Failed(Trace[l]) : PrintT(<<"REJECT", Trace[l].id, c>>)
        /\ l' = l + 1
Done == l = Len(Trace) + 1 /\ PrintT(<<"DONE", Len(Trace)>>) /\ l' = l + 1
Next == Step \/ Done
Spec == Init /\ [][Next]_l
=============================================================================
