------------------------- MODULE RuleGrammar_Trace -------------------------
(* Trace validation for C02.  TLC re-runs the reference parser (Denote) on the token        *)
(* sequence carried by every event and decides the observed result of the real parser.       *)
(*                                                                                            *)
(* ops                                                                                        *)
(*   "parse"  files (token texts of the closed vocabulary), sigs, cats, mult, must            *)
(*            ("denote" | "reject"), res = [exc, v: rules], rt = round trips (one per rule,    *)
(*            empty unless unit multipliers)                                                   *)
(*   "lex"    chars (code points of a text), toks (observed token texts as code points,        *)
(*            <<<<-1>>>> if the tokeniser raised)                                              *)
(*   "scaled" the shipped rules through get_ruleset with multipliers (after the items)         *)
(*   "file"   a shipped rule file was parsed as a whole by the real parser (exc = "" or the error) *)
(*   "begin" / "item"  the shipped rule files, one event per DEFINE / RULE item, validated      *)
(*            statefully: the model state (aliases, rules) lives in the variable st and is      *)
(*            resynchronised to the logged state after a mismatch                               *)
(* A rule projection is [name, category, cutoff, nbhd, superiors, tree, ext: [has, tree]];      *)
(* a tree projection mirrors the condition classes: [k: "id"|"score"|"min"|"cds"|"conds", ...]. *)
EXTENDS RuleGrammar, Json, IOUtils
VARIABLES l, st
Trace == ndJsonDeserialize(IOEnv.TRACE_FILE)

AsSet(seq) == {seq[i] : i \in DOMAIN seq}
RuleErrors == {"RuleSyntaxError", "ValueError"}

(* --- observed trees -> raw trees (operators keep their documented precedence) --- *)
RECURSIVE ObsRaw(_), ObsChain(_, _, _, _, _)
(* items[i..] with pending and-group acc (raw nodes) and finished or-operands done *)
ObsChain(items, ops, i, acc, done) ==
    LET close(a) == IF Len(a) = 1 THEN a[1] ELSE Grp("and", a, FALSE) IN
    IF i > Len(items)
    THEN LET all == Append(done, close(acc)) IN IF Len(all) = 1 THEN all[1] ELSE Grp("or", all, FALSE)
    ELSE IF ops[i - 1] = "and" THEN ObsChain(items, ops, i + 1, Append(acc, ObsRaw(items[i])), done)
    ELSE ObsChain(items, ops, i + 1, <<ObsRaw(items[i])>>, Append(done, close(acc)))
ObsRaw(o) ==
    CASE o.k = "id" -> Id(o.name, o.neg)
      [] o.k = "score" -> Score(o.name, o.n, o.neg)
      [] o.k = "min" -> Min(o.n, AsSet(o.opts), o.neg)
      [] o.k = "cds" -> IF Len(o.items) = 0 \/ Len(o.ops) # Len(o.items) - 1 THEN NoNode
                        ELSE Cds(ObsChain(o.items, o.ops, 2, <<ObsRaw(o.items[1])>>, <<>>), o.neg)
      [] o.k = "conds" -> IF Len(o.items) = 0 \/ Len(o.ops) # Len(o.items) - 1 THEN NoNode
                          ELSE Paren(ObsChain(o.items, o.ops, 2, <<ObsRaw(o.items[1])>>, <<>>), o.neg)
      [] OTHER -> NoNode
RECURSIVE HasNone(_)
HasNone(x) == x.k = "none" \/ \E i \in DOMAIN x.args : HasNone(x.args[i])
ObsTree(o) == LET raw == ObsRaw(o) IN IF HasNone(raw) THEN NoNode ELSE Norm(raw)

(* --- one expected rule against one observed rule projection --- *)
RuleDiff(e, o) ==
    (IF o.category # e.category THEN {"category"} ELSE {})
    \cup (IF o.cutoff # e.cutoff THEN {"cutoff_scaled"} ELSE {})
    \cup (IF o.nbhd # e.nbhd THEN {"neighbourhood_scaled"} ELSE {})
    \cup (IF AsSet(o.superiors) # e.superiors THEN {"superiors_closed"} ELSE {})
    \cup (IF ~SameTree(e.ast, ObsTree(o.tree)) THEN {"conditions"} ELSE {})
    \cup (IF (e.ext.k # "none") # o.ext.has THEN {"extenders"}
          ELSE IF o.ext.has /\ ~SameTree(e.ext, ObsTree(o.ext.tree)) THEN {"extenders"} ELSE {})
RulesDiff(exp, obs) ==
    IF Len(exp) # Len(obs) THEN {"rule_count"}
    ELSE IF {exp[i].name : i \in DOMAIN exp} # {obs[i].name : i \in DOMAIN obs} THEN {"rule_names"}
    ELSE UNION {RuleDiff(exp[i], obs[CHOOSE j \in DOMAIN obs : obs[j].name = exp[i].name]) : i \in DOMAIN exp}

(* round trip of one parsed rule o (unit multipliers): rt = [exc, v: rule projection] *)
RoundTripDiff(o, rt) ==
    IF rt.exc # "" THEN {"roundtrip_parses:" \o rt.exc}
    ELSE (IF rt.v.name # o.name THEN {"roundtrip_name"} ELSE {})
         \cup (IF rt.v.cutoff # o.cutoff \/ rt.v.nbhd # o.nbhd THEN {"roundtrip_distances"} ELSE {})
         \cup (IF ~SameTree(ObsTree(o.tree), ObsTree(rt.v.tree)) THEN {"roundtrip_meaning"} ELSE {})

(* flags under which the documentation does not decide between acceptance and rejection *)
EitherWay == {"alias_forward_reference", "alias_self_reference", "cds_with_one_operand",
              "operands_equal_up_to_parentheses", "example_values"}
ParseFailed(ev) ==
    LET env == [sigs |-> AsSet(ev.sigs), cats |-> AsSet(ev.cats)]
        d == Denote(ev.files, env, ev.mult)
        allowed == RuleErrors \cup (IF "example_values" \in d.soft THEN {"AttributeError"} ELSE {})
        mustReject == ev.must = "reject" \/ (~d.ok /\ "alias_forward_reference" \notin d.soft)
        mustParse == ev.must # "reject" /\ d.ok /\ d.soft \cap EitherWay = {}
        class == IF d.ok THEN "constructed" ELSE d.err
    IN  IF ev.res.exc # ""
        THEN (IF ev.res.exc \notin allowed THEN {"error_type:" \o class} ELSE {})
             \cup (IF mustParse THEN {"refused:" \o ev.res.exc} ELSE {})
        ELSE (IF mustReject THEN {"accepted:" \o class} ELSE {})
             \cup (IF d.ok /\ ev.must # "reject" THEN RulesDiff(d.st.rules, ev.res.v) ELSE {})
             \cup UNION {RoundTripDiff(ev.res.v[i], ev.rt[i]) : i \in DOMAIN ev.rt \cap DOMAIN ev.res.v}
             \cup (IF ev.rt # <<>> /\ Len(ev.rt) # Len(ev.res.v) THEN {"roundtrip_per_rule"} ELSE {})

(* the name the real tokeniser gives to a lexical class *)
TypeName(k) == CASE k = "(" -> "group_open" [] k = ")" -> "group_close" [] k = "[" -> "list_open" [] k = "]" -> "list_close"
                 [] k = "," -> "comma" [] k = "." -> "dot" [] k = "minscore" -> "score"
                 [] k = "ID" -> "identifier" [] k = "INT" -> "int" [] k = "TEXT" -> "text"
                 [] k = "RULE" -> "rule" [] k = "CATEGORY" -> "category" [] k = "DESCRIPTION" -> "description"
                 [] k = "EXAMPLE" -> "example" [] k = "RELATED" -> "related" [] k = "SUPERIORS" -> "superiors"
                 [] k = "CUTOFF" -> "cutoff" [] k = "NEIGHBOURHOOD" -> "neighbourhood" [] k = "CONDITIONS" -> "conditions"
                 [] k = "EXTENDERS" -> "extenders" [] k = "DEFINE" -> "define" [] k = "AS" -> "as"
                 [] OTHER -> k
(* ev.texts / ev.types: text and class name of every observed token (parallel to ev.toks) *)
LexFailed(ev) ==
    (IF Tokenise(ev.chars) # ev.toks THEN {"tokens"} ELSE {})
    \cup (IF \E i \in DOMAIN ev.types : TypeName(Classify(ev.texts[i], ev.toks[i]).k) # ev.types[i] THEN {"token_classes"} ELSE {})

(* --- shipped rule files, stateful --- *)
LexItem(toks) == [i \in DOMAIN toks |-> Classify(toks[i].s, toks[i].cp)]
Unit == <<1, 1, 1, 1>>
ItemResult(ev) == PItems(LexItem(ev.toks), 1, [aliases |-> st.aliases, rules |-> st.rules], st.env, Unit, {})
ObsAsRule(o) == [name |-> o.name, category |-> o.category, cutoff |-> o.cutoff, nbhd |-> o.nbhd,
                 superiors |-> AsSet(o.superiors), ast |-> ObsTree(o.tree),
                 ext |-> IF o.ext.has THEN ObsTree(o.ext.tree) ELSE NoNode]
Texts(lt) == [i \in DOMAIN lt |-> lt[i].s]
ItemFailed(ev) ==
    LET r == ItemResult(ev) IN
    IF ~r.ok THEN {"ill_formed:" \o r.err}
    ELSE IF ev.kind = "RULE"
    THEN IF Len(r.st.rules) # Len(st.rules) + 1 THEN {"one_rule_per_item"}
         ELSE LET e == r.st.rules[Len(r.st.rules)] IN
              (IF e.name # ev.obs.name THEN {"rule_names"} ELSE {}) \cup RuleDiff(e, ev.obs)
    ELSE IF DOMAIN r.st.aliases # DOMAIN st.aliases \cup {ev.name} \/ Len(r.st.rules) # Len(st.rules) THEN {"one_alias_per_item"}
         ELSE IF Texts(r.st.aliases[ev.name]) # Texts(LexItem(ev.alias)) THEN {"alias_expansion"} ELSE {}
ItemNext(ev) ==
    LET r == ItemResult(ev) IN
    IF ItemFailed(ev) = {} THEN [st EXCEPT !.aliases = r.st.aliases, !.rules = r.st.rules]
    ELSE IF ev.kind = "RULE" THEN [st EXCEPT !.rules = Append(st.rules, ObsAsRule(ev.obs))]
    ELSE [st EXCEPT !.aliases = WithAlias(st.aliases, ev.name, LexItem(ev.alias))]

(* the shipped rules obtained through get_ruleset with multipliers ev.mult: every distance of the model
   state (unit multipliers) scaled exactly once *)
ScaledFailed(ev) ==
    LET names == {ev.rules[j].name : j \in DOMAIN ev.rules}
        obs(name) == ev.rules[CHOOSE j \in DOMAIN ev.rules : ev.rules[j].name = name]
    IN  IF ev.exc # "" THEN {"ruleset_built:" \o ev.exc}
        ELSE IF names # KnownNames(st.rules) \/ Len(ev.rules) # Len(st.rules) THEN {"rule_names"}
        ELSE (IF \E i \in DOMAIN st.rules : obs(st.rules[i].name).cutoff # (st.rules[i].cutoff * ev.mult[1]) \div ev.mult[2]
              THEN {"cutoff_scaled"} ELSE {})
             \cup (IF \E i \in DOMAIN st.rules : obs(st.rules[i].name).nbhd # (st.rules[i].nbhd * ev.mult[3]) \div ev.mult[4]
                   THEN {"neighbourhood_scaled"} ELSE {})

Failed(ev) == CASE ev.op = "parse" -> ParseFailed(ev)
                [] ev.op = "scaled" -> ScaledFailed(ev)
                [] ev.op = "lex" -> LexFailed(ev)
                [] ev.op = "item" -> ItemFailed(ev)
                [] ev.op = "file" -> IF ev.exc # "" THEN {"parses:" \o ev.exc} ELSE {}
                [] ev.op = "begin" -> {}
                [] OTHER -> {"trace/unknown_op"}
Tagged(ev) == {IF ev.op = "parse" THEN ev.via \o "/" \o c ELSE ev.op \o "/" \o c : c \in Failed(ev)}

StNext(ev) == CASE ev.op = "begin" -> [aliases |-> NoAliases, rules |-> <<>>,
                                       env |-> [sigs |-> AsSet(ev.sigs), cats |-> AsSet(ev.cats)]]
                [] ev.op = "item" -> ItemNext(ev)
                [] OTHER -> st

Init == l = 1 /\ st = [aliases |-> NoAliases, rules |-> <<>>, env |-> [sigs |-> {}, cats |-> {}]]
Step == /\ l <= Len(Trace)
        /\ \A c \in Tagged(Trace[l]) : PrintT(<<"REJECT", Trace[l].id, c>>)
        /\ l' = l + 1
        /\ st' = StNext(Trace[l])
Done == l = Len(Trace) + 1 /\ PrintT(<<"DONE", Len(Trace)>>) /\ l' = l + 1 /\ UNCHANGED st
Next == Step \/ Done
Spec == Init /\ [][Next]_<<l, st>>
=============================================================================
