--------------------------- MODULE SafeWrite_DirMC ---------------------------
(* Model checking of the output directory guard (C20 part 2): every directory  *)
(* configuration is an initial state (and a case replayed against the code);   *)
(* the single action applies a guard (implementation-shaped or the loosened    *)
(* negative control) and the invariants relate it to the sandwich.             *)
EXTENDS SafeWrite, TLC
CONSTANT GuardModel
VARIABLES d, stage, refused
vars == <<d, stage, refused>>

Refuse(x) == IF GuardModel = "impl" THEN ImplRefuse(x) ELSE LooseRefuse(x)

Init == d \in DirConfigs /\ stage = 0 /\ refused = FALSE
Decide == stage = 0 /\ stage' = 1 /\ refused' = Refuse(d) /\ UNCHANGED d
Next == Decide
Spec == Init /\ [][Next]_vars

(* the sandwich is consistent: nothing is both required and forbidden *)
SandwichConsistent == ~(MustRefuse(d) /\ MustAccept(d))
(* the unspecified band is exactly: absent directories, dot-files as the only foreign contents of a
   fresh run, and reuse runs whose source lives elsewhere into a directory with foreign contents *)
BandIsWhatIsDocumented ==
    Unspecified(d) <=> \/ d.state = "absent"
                       \/ d.state = "dir" /\ d.mode = "fresh" /\ Foreign(d) = {"dot"}
                       \/ d.state = "dir" /\ d.mode = "reuse" /\ "json" \notin d.contents /\ Foreign(d) # {}
GuardInSandwich == stage = 1 => GuardWithinSandwich(refused, d)
(* a refusal verdict with an untouched listing is accepted, a touched one rejected *)
UntouchedRefusalAccepted ==
    (stage = 1 /\ refused) =>
        /\ DirClauses(d, TRUE, [it \in Items |-> "same"], 0, d.state) = {}
        /\ d.contents # {} => "refusal_leaves_directory_untouched" \in
                                 DirClauses(d, TRUE, [it \in Items |-> "missing"], 0, d.state)
=============================================================================
