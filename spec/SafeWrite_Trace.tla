--------------------------- MODULE SafeWrite_Trace ---------------------------
(* Trace validation for C20.                                                    *)
(* op "write": one call of a results writer on a configuration TLC enumerated:  *)
(*   c      the configuration [nrec, nmod, writer, fault]                       *)
(*   trace  the logged events (Convert/Ser from the stub results, Open/Write     *)
(*          from the wrapped builtins.open on the target path), in order        *)
(*   ret    [exc |-> "" | exception type name]                                  *)
(*   disk   status of the target's bytes afterwards: old|truncated|new|partial  *)
(* The events are replayed through the actions of SafeWrite.tla (every broken   *)
(* guard is reported, the state is resynchronised by applying the event), then  *)
(* the property is decided on the final state and the observed bytes.           *)
(* op "dir": one call of prepare_output_directory on a directory configuration. *)
EXTENDS SafeWrite, TLC, Json, IOUtils
VARIABLE l
Trace == ndJsonDeserialize(IOEnv.TRACE_FILE)

AsSet(seq) == {seq[i] : i \in DOMAIN seq}
Tag(op, S) == {op \o "/" \o x : x \in S}

WriteFailed(ev) ==
    LET c == ev.c
        evs == ev.trace \o << Ev("Return", 0, 0, ev.ret.exc = "") >>
        r == Replay(c, Start(c), evs, 1, {})
    IN  Tag(c.writer, r.broken)
        \cup (IF \E k \in DOMAIN ev.trace : ev.trace[k].ok # StubOk(c, ev.trace[k])
              THEN {"machinery/stub_not_as_configured"} ELSE {})
        \cup (IF WillFail(c) /\ ev.disk # "old" THEN {c.writer \o "/failed_implies_old"} ELSE {})
        \cup (IF ~WillFail(c) /\ ev.ret.exc = "" /\ ev.disk # "new" THEN {c.writer \o "/success_implies_new"} ELSE {})
        \cup (IF ~FailedImpliesOldAt([r.s EXCEPT !.disk = ev.disk]) THEN {c.writer \o "/failed_implies_old"} ELSE {})

DirFailed(ev) ==
    LET d == [state |-> ev.d.state, contents |-> AsSet(ev.d.contents), mode |-> ev.d.mode, logcfg |-> ev.d.logcfg]
    IN  Tag("prepare_output_directory", DirClauses(d, ev.ret.exc # "", ev.status, ev.extra, ev.after))
        \cup (IF d \notin DirConfigs THEN {"machinery/not_a_directory_configuration"} ELSE {})

(* op "target": where the result files of a run go (main.canonical_base_filename, which feeds the results json, the
   genbank and the zip file): inside the output directory - the directory the guard has examined - whatever the path
   and the compression suffix of the input file; leaf = the file name part as character codes *)
TargetFailed(ev) ==
    IF ev.ret.exc # "" THEN {"target/no_exception:" \o ev.ret.exc}
    ELSE (IF ~ev.ret.v.inside THEN {"target/results_go_into_the_examined_directory"} ELSE {})
         \cup (IF \E i \in DOMAIN ev.ret.v.leaf : ev.ret.v.leaf[i] = 47 THEN {"target/base_name_is_a_plain_file_name"} ELSE {})
         \cup (IF ev.ret.v.leaf = <<>> THEN {"target/base_name_not_empty"} ELSE {})

Failed(ev) == CASE ev.op = "write" -> WriteFailed(ev)
                [] ev.op = "target" -> TargetFailed(ev)
                [] ev.op = "dir" -> DirFailed(ev)
                [] OTHER -> {"trace/unknown_op"}

Init == l = 1
Step == /\ l <= Len(Trace)
        /\ \A x \in Failed(Trace[l]) : PrintT(<<"REJECT", Trace[l].id, x>>)
        /\ l' = l + 1
Done == l = Len(Trace) + 1 /\ PrintT(<<"DONE", Len(Trace)>>) /\ l' = l + 1
Next == Step \/ Done
Spec == Init /\ [][Next]_l
=============================================================================
