-------------------------- MODULE Determinism_Trace --------------------------
(* Trace validation for C17: one event = one input pushed through the pipeline   *)
(* stages in several interpreters (different PYTHONHASHSEED, different heap      *)
(* noise).  ev.stages names the stages, ev.runs[k] = [seed, exc, d : Seq(digest)]*)
(* with d[i] the digest of stage i's canonical dump in run k.                    *)
EXTENDS Determinism, TLC, Json, IOUtils
VARIABLE l
Trace == ndJsonDeserialize(IOEnv.TRACE_FILE)

Failed(ev) ==
    (IF \E k \in DOMAIN ev.runs : ev.runs[k].exc # "" THEN {"pipeline/no_exception"} ELSE {})
    \cup UNION {IF \A k \in DOMAIN ev.runs : ev.runs[k].exc = "" /\ Len(ev.runs[k].d) = Len(ev.stages)
                THEN (IF AllEqual([k \in DOMAIN ev.runs |-> ev.runs[k].d[i]]) THEN {} ELSE {ev.stages[i] \o "/same_output_in_every_process"})
                ELSE {} : i \in DOMAIN ev.stages}

Init == l = 1
Step == /\ l <= Len(Trace)
        /\ \A c \in Failed(Trace[l]) : PrintT(<<"REJECT", Trace[l].id, c>>)
        /\ l' = l + 1
Done == l = Len(Trace) + 1 /\ PrintT(<<"DONE", Len(Trace)>>) /\ l' = l + 1
Next == Step \/ Done
Spec == Init /\ [][Next]_l
=============================================================================
