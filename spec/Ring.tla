------------------------------- MODULE Ring -------------------------------
(***************************************************************************)
(* A record is a line or a ring of L bases 0..L-1.  A location is          *)
(*   [parts |-> << <<s1,e1>>, <<s2,e2>>, ... >>, strand |-> 1 | -1 | 0]     *)
(* with half-open parts in *transcription order* exactly as Biopython      *)
(* keeps them.  A ring/line descriptor is R == [L |-> n, circ |-> BOOLEAN]. *)
(* Everything here is the set-of-bases reading of property C04; all other  *)
(* modules build on it.                                                     *)
(***************************************************************************)
EXTENDS Integers, Sequences, FiniteSets

Abs(x) == IF x < 0 THEN -x ELSE x
MinOf(S) == CHOOSE x \in S : \A y \in S : x <= y
MaxOf(S) == CHOOSE x \in S : \A y \in S : x >= y
RangeOf(seq) == {seq[i] : i \in DOMAIN seq}
RevSeq(seq) == [i \in 1..Len(seq) |-> seq[Len(seq) + 1 - i]]

Loc(parts, strand) == [parts |-> parts, strand |-> strand]
Simple(s, e, strand) == Loc(<< <<s, e>> >>, strand)

PartBases(p) == p[1]..(p[2] - 1)
Bases(loc) == UNION {PartBases(loc.parts[i]) : i \in DOMAIN loc.parts}
BasesOfAll(X) == UNION {Bases(x) : x \in X}
Size(loc) == Cardinality(Bases(loc))

(* parts in forward (ascending around the ring) order *)
Fwd(loc) == IF loc.strand = -1 THEN RevSeq(loc.parts) ELSE loc.parts
(* bridges the origin: forward-ordered part starts are not ascending *)
Bridges(loc) == \E i \in 1..(Len(loc.parts) - 1) : Fwd(loc)[i][1] > Fwd(loc)[i + 1][1]

OuterStart(loc) == Fwd(loc)[1][1]
OuterEnd(loc) == Fwd(loc)[Len(loc.parts)][2]

(* --- the relations of the statement ------------------------------------ *)
Overlaps(a, b) == Bases(a) \cap Bases(b) # {}

Contains(outer, inner) ==
    \A k \in DOMAIN inner.parts : \E j \in DOMAIN outer.parts :
        PartBases(inner.parts[k]) \subseteq PartBases(outer.parts[j])

(* number of bases strictly between two bases, the shorter way round on a ring *)
Gap(R, x, y) == LET d == Abs(x - y)
                IN  (IF R.circ /\ R.L - d < d THEN R.L - d ELSE d) - 1
DistSets(R, A, B) == IF A \cap B # {} THEN 0
                     ELSE MinOf({Gap(R, x, y) : x \in A, y \in B})
Dist(R, a, b) == DistSets(R, Bases(a), Bases(b))

(* --- well-formedness ----------------------------------------------------- *)
WellFormed(R, r) ==
    /\ Len(r.parts) >= 1
    /\ \A i \in DOMAIN r.parts : 0 <= r.parts[i][1] /\ r.parts[i][1] < r.parts[i][2] /\ r.parts[i][2] <= R.L
    /\ \A i, j \in DOMAIN r.parts : i # j => PartBases(r.parts[i]) \cap PartBases(r.parts[j]) = {}

(* a span: one part, or on a ring two parts <<s,L>>,<<0,e>> with e <= s *)
IsSpan(R, r) ==
    \/ Len(r.parts) = 1
    \/ /\ R.circ /\ Len(r.parts) = 2
       /\ Fwd(r)[1][2] = R.L /\ Fwd(r)[2][1] = 0 /\ Fwd(r)[2][2] <= Fwd(r)[1][1]

(* --- covering arcs --------------------------------------------------------- *)
LinHull(U) == MinOf(U)..MaxOf(U)
(* length of the arc that starts at s and runs forward until all of U is covered *)
ArcLenFrom(R, U, s) == MaxOf({(x - s) % R.L : x \in U}) + 1
ShortestCoverLen(R, U) == MinOf({ArcLenFrom(R, U, s) : s \in U})
ArcBases(R, s, n) == {(s + k) % R.L : k \in 0..(n - 1)}

(* the canonical covering span used by the other modules *)
SpanOfArc(R, s, n) ==
    IF n >= R.L THEN Simple(0, R.L, 1)
    ELSE IF s + n <= R.L THEN Simple(s, s + n, 1)
    ELSE Loc(<< <<s, R.L>>, <<0, s + n - R.L>> >>, 1)
CoverBases(R, U) ==
    IF ~R.circ THEN Simple(MinOf(U), MaxOf(U) + 1, 1)
    ELSE LET n == ShortestCoverLen(R, U)
             lin == MaxOf(U) - MinOf(U) + 1
         IN  IF lin <= n THEN Simple(MinOf(U), MaxOf(U) + 1, 1)
             ELSE LET s == MinOf({t \in U : ArcLenFrom(R, U, t) = n}) IN SpanOfArc(R, s, n)

(* the footprint of a location is the arc from its outer start to its outer end, introns
   included: connecting treats every input as the stretch of record it occupies *)
Footprint(R, loc) ==
    IF Len(loc.parts) = 1 THEN Bases(loc)
    ELSE LET n == (IF Bridges(loc) \/ OuterEnd(loc) <= OuterStart(loc)
                   THEN OuterEnd(loc) + R.L - OuterStart(loc) ELSE OuterEnd(loc) - OuterStart(loc))
         IN  ArcBases(R, OuterStart(loc), n)
FootprintOfAll(R, X) == UNION {Footprint(R, x) : x \in X}

Cover(R, X) == CoverBases(R, FootprintOfAll(R, X))

(* connect: r is a span covering everything; the exact hull on a line; on a ring never
   longer than the hull and the shortest covering arc whenever one shorter than L/2 exists *)
ConnectOK(R, X, r) ==
    LET U == FootprintOfAll(R, X) IN
    /\ WellFormed(R, r) /\ IsSpan(R, r)
    /\ U \subseteq Bases(r)
    /\ IF ~R.circ THEN Bases(r) = LinHull(U)
       ELSE /\ Size(r) <= Cardinality(LinHull(U))
            /\ (2 * ShortestCoverLen(R, U) < R.L) => (Size(r) = ShortestCoverLen(R, U))

(* first clause that fails, for verdicts *)
ConnectClause(R, X, r) ==
    LET U == FootprintOfAll(R, X) IN
    IF ~WellFormed(R, r) THEN "result_well_formed"
    ELSE IF ~IsSpan(R, r) THEN "result_is_span"
    ELSE IF ~(U \subseteq Bases(r)) THEN "covers_all_inputs"
    ELSE IF ~R.circ /\ Bases(r) # LinHull(U) THEN "exact_hull_on_line"
    ELSE IF R.circ /\ Size(r) > Cardinality(LinHull(U)) THEN "never_longer_than_hull"
    ELSE IF R.circ /\ 2 * ShortestCoverLen(R, U) < R.L /\ Size(r) # ShortestCoverLen(R, U) THEN "shortest_arc_below_half"
    ELSE "ok"

(* the smallest span: as the connect-relation, but the shortest covering arc on a ring whatever its length (where several
   arcs are shortest any of them; all have that size).  For statements that say "the smallest span covering ..." *)
SmallestSpanClause(R, X, r) ==
    LET U == FootprintOfAll(R, X) IN
    IF ConnectClause(R, X, r) # "ok" THEN ConnectClause(R, X, r)
    ELSE IF R.circ /\ Size(r) # ShortestCoverLen(R, U) THEN "smallest_span_on_a_ring"
    ELSE "ok"

(* extend: bases within d of either outer end are added, clipped on a line, wrapped on a ring;
   interior gaps (introns) may stay gaps *)
ExtendMust(R, loc, d) ==
    Bases(loc) \cup
    (IF R.circ THEN {(OuterStart(loc) - k) % R.L : k \in 1..d} \cup {(OuterEnd(loc) - 1 + k) % R.L : k \in 1..d}
     ELSE {x \in 0..(R.L - 1) : (OuterStart(loc) - d <= x /\ x < OuterStart(loc)) \/ (OuterEnd(loc) <= x /\ x < OuterEnd(loc) + d)})
(* gap bases between consecutive parts (in ring order from outer start to outer end) *)
Interior(R, loc) ==
    LET n == (IF Bridges(loc) \/ OuterEnd(loc) <= OuterStart(loc)
              THEN OuterEnd(loc) + R.L - OuterStart(loc) ELSE OuterEnd(loc) - OuterStart(loc))
    IN  ArcBases(R, OuterStart(loc), n) \ Bases(loc)
ExtendClause(R, loc, d, r) ==
    IF ~WellFormed(R, r) THEN "result_well_formed"
    ELSE IF ~((ExtendMust(R, loc, d) \ Interior(R, loc)) \subseteq Bases(r)) THEN "covers_bases_within_distance"
    ELSE IF ~(Bases(r) \subseteq ExtendMust(R, loc, d) \cup Interior(R, loc)) THEN "nothing_beyond_distance"
    ELSE IF Len(loc.parts) = 1 /\ ~IsSpan(R, r) THEN "span_stays_span"
    ELSE "ok"
ExtendOK(R, loc, d, r) == ExtendClause(R, loc, d, r) = "ok"

(* shift: the same bases rotated by k, read in the same order.  FwdWalk lists the bases in
   ascending ring order (the reverse of transcription order for strand -1). *)
RECURSIVE WalkFrom(_, _)
WalkFrom(parts, i) == IF i > Len(parts) THEN <<>>
                      ELSE [k \in 1..(parts[i][2] - parts[i][1]) |-> parts[i][1] + k - 1] \o WalkFrom(parts, i + 1)
Walk(loc) == WalkFrom(loc.parts, 1)
FwdWalk(loc) == WalkFrom(Fwd(loc), 1)
RotWalk(R, w, k) == [i \in 1..Len(w) |-> (w[i] + k) % R.L]
ShiftClause(R, loc, k, r) ==
    IF ~WellFormed(R, r) THEN "result_well_formed"
    ELSE IF r.strand # loc.strand THEN "strand_kept"
    ELSE IF Size(r) # Size(loc) THEN "length_kept"
    ELSE IF Bases(r) # {(x + k) % R.L : x \in Bases(loc)} THEN "same_bases_rotated"
    ELSE IF Size(loc) = R.L THEN "ok"   (* a whole-ring location has no distinguished start *)
    ELSE IF loc.strand # -1 /\ FwdWalk(r) # RotWalk(R, FwdWalk(loc), k) THEN "order_of_parts_kept"
         (* reverse strand: the statement does not fix whether the two halves of a part split
            at the origin are listed upper-first or lower-first; either reading is accepted *)
    ELSE IF loc.strand = -1 /\ FwdWalk(r) # RotWalk(R, FwdWalk(loc), k) /\ Walk(r) # RotWalk(R, Walk(loc), k)
         THEN "order_of_parts_kept"
    ELSE "ok"
ShiftOK(R, loc, k, r) == ShiftClause(R, loc, k, r) = "ok"

(* constructive versions used by the other modules (and to show the relations satisfiable) *)
RECURSIVE RunsFrom(_, _, _, _)
RunsFrom(w, i, s, acc) ==
    IF i > Len(w) THEN Append(acc, <<s, w[Len(w)] + 1>>)
    ELSE IF w[i] = w[i - 1] + 1 THEN RunsFrom(w, i + 1, s, acc)
    ELSE RunsFrom(w, i + 1, w[i], Append(acc, <<s, w[i - 1] + 1>>))
PartsOfWalk(w) == RunsFrom(w, 2, w[1], <<>>)
Shift(R, loc, k) ==
    IF Size(loc) = R.L THEN loc
    ELSE LET fp == PartsOfWalk(RotWalk(R, FwdWalk(loc), k))
         IN  Loc(IF loc.strand = -1 THEN RevSeq(fp) ELSE fp, loc.strand)
(* extension of a span *)
Extend(R, loc, d) ==
    IF ~R.circ THEN Simple(MaxOf({0, OuterStart(loc) - d}), MinOf({R.L, OuterEnd(loc) + d}), loc.strand)
    ELSE LET n == Size(loc) + 2 * d
         IN  IF n >= R.L THEN Simple(0, R.L, loc.strand)
             ELSE LET sp == SpanOfArc(R, (OuterStart(loc) - d) % R.L, n)
                  IN  Loc(IF loc.strand = -1 THEN RevSeq(sp.parts) ELSE sp.parts, loc.strand)

(* --- universes of locations for the generator configs --------------------- *)
(* part sequences in forward order *)
ArcParts(R) == {<< <<q[1], q[2]>> >> : q \in {q \in (0..(R.L - 1)) \X (1..R.L) : q[1] < q[2]}}
CrossParts(R) == IF ~R.circ THEN {}
                 ELSE {<< <<q[1], R.L>>, <<0, q[2]>> >> : q \in {q \in (1..(R.L - 1)) \X (1..(R.L - 1)) : q[2] <= q[1]}}
IntronParts(R) == {<< <<q[1], q[2]>>, <<q[3], q[4]>> >> :
                     q \in {q \in (0..R.L) \X (0..R.L) \X (0..R.L) \X (0..R.L) : q[1] < q[2] /\ q[2] < q[3] /\ q[3] < q[4]}}
(* origin-bridging with an intron on either side of the origin *)
CrossIntronParts(R) ==
    IF ~R.circ THEN {}
    ELSE {<< <<q[1], q[2]>>, <<q[3], R.L>>, <<0, q[4]>> >> :
            q \in {q \in (1..R.L) \X (1..R.L) \X (1..R.L) \X (1..R.L) : q[4] <= q[1] /\ q[1] < q[2] /\ q[2] < q[3] /\ q[3] < R.L}}
         \cup
         {<< <<q[1], R.L>>, <<0, q[2]>>, <<q[3], q[4]>> >> :
            q \in {q \in (1..R.L) \X (1..R.L) \X (1..R.L) \X (1..R.L) : q[2] < q[3] /\ q[3] < q[4] /\ q[4] <= q[1] /\ q[1] < R.L}}
WithStrands(P, strands) == {Loc(IF s = -1 THEN RevSeq(p) ELSE p, s) : p \in P, s \in strands}
Spans(R) == WithStrands(ArcParts(R) \cup CrossParts(R), {1})
=============================================================================
