---------------------------- MODULE Candidates_MC ----------------------------
(* Generator + self-consistency for C05.  stage 1 states: protocluster shapes    *)
(* (core span + neighbourhood) replayed in combinations by the harness;          *)
(* stage 2: sampled arrangements on which the documented grouping is checked     *)
(* against itself: groups partition as documented, the reference result          *)
(* satisfies the relation, permuting the input changes nothing.                  *)
EXTENDS Candidates, TLC, Randomization, SequencesExt
CONSTANTS Samples
VARIABLES stage, R, shape, arr
vars == <<stage, R, shape, arr>>

Rings == {[L |-> 12, circ |-> TRUE], [L |-> 12, circ |-> FALSE]}
Cores(r) == {p \in ArcParts(r) \cup CrossParts(r) : Size(Loc(p, 1)) <= 3}
Shapes(r) == {[core |-> Loc(c, 1), extent |-> Extend(r, Loc(c, 1), n)] : c \in Cores(r), n \in {0, 1, 3}}
DummyShape == [core |-> Simple(0, 1, 1), extent |-> Simple(0, 1, 1)]
MkArr(r, shapes, share) ==
    [L |-> r.L, circ |-> r.circ,
     protos |-> [i \in DOMAIN shapes |-> [core |-> shapes[i].core, extent |-> shapes[i].extent, product |-> "p" \o ToString(i)]],
     (* one single-base gene at the outer start of every core; it is a core gene for its own protocluster and,
        when share[i], for every protocluster whose core contains it *)
     genes |-> [i \in DOMAIN shapes |->
                  [loc |-> Simple(OuterStart(shapes[i].core), OuterStart(shapes[i].core) + 1, 1),
                   core_for |-> IF share[i] THEN [k \in DOMAIN shapes |-> "p" \o ToString(k)] ELSE <<"p" \o ToString(i)>>]]]
DummyArr == MkArr([L |-> 12, circ |-> FALSE], <<DummyShape>>, <<FALSE>>)

Init == stage = 0 /\ R \in Rings /\ shape = DummyShape /\ arr = DummyArr
PickShape == stage = 0 /\ stage' = 1 /\ shape' \in Shapes(R) /\ UNCHANGED <<R, arr>>
PickFirst == stage = 0 /\ stage' = 4 /\ shape' \in RandomSubset(Samples, Shapes(R)) /\ UNCHANGED <<R, arr>>
PickArr == /\ stage = 4 /\ stage' = 2 /\ UNCHANGED <<R, shape>>
           /\ \E s2 \in RandomSubset(Samples, Shapes(R)), s3 \in RandomSubset(4, Shapes(R)),
                 sh \in RandomSubset(3, [1..3 -> BOOLEAN]) :
                 arr' = MkArr(R, <<shape, s2, s3>>, sh)
Next == PickShape \/ PickFirst \/ PickArr
Spec == Init /\ [][Next]_vars

(* every protocluster is in a hybrid, an interleaved group, or gets (or is excused from) a single *)
Covered == stage = 2 => UNION {c.members : c \in RefCands(arr)} = P(arr)
(* interleaved groups are unions of hybrids / lone protoclusters and pairwise disjoint; same for neighbouring *)
GroupsDisjoint == stage = 2 =>
    LET an == Analysis(arr) IN
    /\ \A a, b \in an.inter : a # b => a \cap b = {}
    /\ \A a, b \in an.neigh : a # b => a \cap b = {}
    /\ \A h \in an.hyb : \A g \in an.inter : h \cap g # {} => h \subseteq g
RefOut == LET seq == SetToSeq(RefCands(arr))
          IN  [i \in DOMAIN seq |-> [kind |-> seq[i].kind, members |-> SetToSeq(seq[i].members), loc |-> ExtSpan(arr, seq[i].members)]]
RefSatisfies == stage = 2 => CandFailed(arr, RefOut) = {}
(* renaming protoclusters (swapping 1 and 2) renames the groups and nothing else *)
Swap(i) == IF i = 1 THEN 2 ELSE IF i = 2 THEN 1 ELSE i
Swapped == [arr EXCEPT !.protos = [i \in DOMAIN arr.protos |-> arr.protos[Swap(i)]]]
PermutationFree == stage = 2 =>
    {[kind |-> c.kind, members |-> {Swap(m) : m \in c.members}] : c \in RefCands(Swapped)} = RefCands(arr)
=============================================================================
