----------------------------- MODULE RuleAst_MC -----------------------------
(* Generator + self-consistency for C01.  stage 1 states = condition trees,   *)
(* stage 3 states = gene layouts (both replayed against the code), stage 2     *)
(* states = sampled (tree, scene) pairs on which the oracle is checked against *)
(* itself (negation, reasons, rotation) and against the leaky variant.         *)
EXTENDS RuleAst, TLC, Randomization
CONSTANTS ScenesPerTree
VARIABLES stage, tree, scene
vars == <<stage, tree, scene>>

B == BOOLEAN
IdLeaves == {Id(p, n) : p \in {"a", "b", "c"}, n \in B}
ScoreLeaves == {Score("a", 50, n) : n \in B}
MinLeaves == {MinOfOpts(k, o, n) : k \in 1..3, o \in {<<"a", "b">>, <<"a", "b", "c">>}, n \in B}
ALeaves == {Id("a", n) : n \in B} \cup ScoreLeaves
BLeaves == {Id("b", n) : n \in B}
CdsBodies == {And(<<x, y>>) : x \in ALeaves, y \in BLeaves} \cup {Or(<<x, y>>, FALSE) : x \in ALeaves, y \in BLeaves}
             \cup {And(<<Id("a", FALSE), Or(<<Id("b", FALSE), Id("c", FALSE)>>, n)>>) : n \in B}
CdsNodes == {Cds(b, n) : b \in CdsBodies, n \in B}
N1 == IdLeaves \cup ScoreLeaves \cup MinLeaves \cup CdsNodes
M == {Id("a", FALSE), Id("a", TRUE), Id("b", FALSE), Id("c", TRUE), Score("a", 50, FALSE), Score("a", 50, TRUE),
      MinOfOpts(2, <<"a", "b", "c">>, FALSE), MinOfOpts(2, <<"a", "b">>, TRUE),
      Cds(And(<<Id("a", FALSE), Id("b", FALSE)>>), FALSE), Cds(Or(<<Id("a", FALSE), Id("b", FALSE)>>, FALSE), TRUE),
      Cds(And(<<Score("a", 50, FALSE), Id("b", FALSE)>>), FALSE), Cds(And(<<Id("a", FALSE), Id("b", TRUE)>>), FALSE)}
K3 == {Id("a", FALSE), Id("b", TRUE), Id("c", FALSE), Cds(And(<<Id("a", FALSE), Id("b", FALSE)>>), FALSE),
       MinOfOpts(2, <<"a", "b", "c">>, FALSE)}
Pairs(S) == {<<x, y>> : x \in S, y \in S} \ {<<x, x>> : x \in S}
N2 == UNION {{And(pr), Or(pr, FALSE), Or(pr, TRUE)} : pr \in {q \in Pairs(M) : q[1].k # q[2].k \/ q[1].p # q[2].p \/ q[1].neg # q[2].neg}}
Triples == {<<x, y, z>> : x \in K3, y \in K3, z \in K3} \ {t \in {<<x, y, z>> : x \in K3, y \in K3, z \in K3} : t[1] = t[2] \/ t[2] = t[3] \/ t[1] = t[3]}
N3 == UNION {{And(t), Or(<<And(<<t[1], t[2]>>), t[3]>>, FALSE), And(<<t[1], Or(<<t[2], t[3]>>, FALSE)>>),
              Or(<<t[1], And(<<t[2], t[3]>>)>>, TRUE), And(<<t[1], Or(<<t[2], t[3]>>, TRUE)>>)} : t \in Triples}
Trees == {t \in N1 \cup N2 \cup N3 : HasPositive(t)}

(* gene layouts: the focus gene plus two others inside / exactly at / outside the cutoff, overlapping,
   and across the origin of a ring; cutoff 3 *)
Lin(g1, g2, g3) == [L |-> 20, circ |-> FALSE, cutoff |-> 3, locs |-> <<g1, g2, g3>>]
Cir(g1, g2, g3) == [L |-> 12, circ |-> TRUE, cutoff |-> 3, locs |-> <<g1, g2, g3>>]
LinPos == {Simple(4, 5, 1), Simple(5, 6, -1), Simple(9, 11, 1), Simple(12, 13, 1), Simple(13, 14, -1), Simple(18, 19, 1)}
CirPos == {Simple(10, 11, 1), Simple(8, 9, -1), Simple(9, 10, 1), Simple(4, 5, 1), Simple(5, 6, -1),
           Loc(<< <<11, 12>>, <<0, 1>> >>, 1), Loc(<< <<0, 1>>, <<11, 12>> >>, -1)}
(* next to a spliced focus gene that does not itself reach over the origin: the way through the origin still counts *)
CirPos3 == {Simple(10, 11, 1), Simple(8, 9, -1), Simple(4, 5, 1), Simple(5, 6, -1), Loc(<< <<11, 12>>, <<0, 1>> >>, 1)}
CirPos2 == {Simple(9, 10, 1), Simple(8, 9, 1), Simple(3, 4, -1), Simple(4, 5, 1), Simple(6, 7, 1)}
Layouts == {Lin(Simple(8, 10, 1), x, y) : x \in LinPos, y \in LinPos}
           \cup {Cir(Simple(0, 2, 1), x, y) : x \in CirPos, y \in CirPos}
           \cup {Cir(Loc(<< <<11, 12>>, <<0, 1>> >>, 1), x, y) : x \in CirPos2, y \in CirPos2}
           \cup {Cir(Loc(<< <<0, 1>>, <<10, 12>> >>, -1), x, y) : x \in CirPos2, y \in CirPos2}
           \cup {Cir(Loc(<< <<0, 1>>, <<2, 3>> >>, 1), x, y) : x \in CirPos3, y \in CirPos3}
GeneHits == {a \o b \o c : a \in {<<>>, <<[p |-> "a", s |-> 40]>>, <<[p |-> "a", s |-> 60]>>},
                           b \in {<<>>, <<[p |-> "b", s |-> 30]>>}, c \in {<<>>, <<[p |-> "c", s |-> 70]>>}}
NoHits == <<<<>>, <<>>, <<>>>>
WithHits(lay, h) == [L |-> lay.L, circ |-> lay.circ, cutoff |-> lay.cutoff, locs |-> lay.locs, hits |-> h]
DummyTree == Id("a", FALSE)
DummyScene == WithHits(Lin(Simple(8, 10, 1), Simple(4, 5, 1), Simple(4, 5, 1)), NoHits)

Init == stage = 0 /\ tree = DummyTree /\ scene = DummyScene
PickTree == stage = 0 /\ stage' = 1 /\ tree' \in Trees /\ UNCHANGED scene
PickLayout == stage = 0 /\ stage' = 3 /\ scene' \in {WithHits(lay, NoHits) : lay \in Layouts} /\ UNCHANGED tree
PickScene == /\ stage = 1 /\ stage' = 2 /\ UNCHANGED tree
             /\ scene' \in {WithHits(lay, <<h1, h2, h3>>) : lay \in RandomSubset(ScenesPerTree, Layouts),
                              h1 \in RandomSubset(3, GeneHits), h2 \in RandomSubset(2, GeneHits), h3 \in RandomSubset(2, GeneHits)}
(* one fixed tree and scene besides the sampled ones, so that the negative control does not depend on the draw
   (a cds(minscore(a,50) and ...) group next to a neighbour that scores enough) *)
WitnessTree ==
[ p |-> "",
  k |-> "cds",
  neg |-> FALSE,
  s |-> 0,
  opts |-> <<>>,
  args |->
      << [ p |-> "",
           k |-> "and",
           neg |-> FALSE,
           s |-> 0,
           opts |-> <<>>,
           args |->
               << [ p |-> "a",
                    k |-> "score",
                    neg |-> FALSE,
                    s |-> 50,
                    opts |-> <<>>,
                    args |-> <<>> ],
                  [ p |-> "b",
                    k |-> "id",
                    neg |-> FALSE,
                    s |-> 0,
                    opts |-> <<>>,
                    args |-> <<>> ] >> ] >> ]
WitnessScene ==
[ L |-> 12,
  circ |-> TRUE,
  cutoff |-> 3,
  locs |->
      << [parts |-> <<<<0, 2>>>>, strand |-> 1],
         [parts |-> <<<<5, 6>>>>, strand |-> -1],
         [parts |-> <<<<10, 11>>>>, strand |-> 1] >>,
  hits |->
      << <<[p |-> "a", s |-> 60]>>,
         <<[p |-> "c", s |-> 70]>>,
         <<[p |-> "b", s |-> 30], [p |-> "c", s |-> 70]>> >> ]
PickWitness == stage = 0 /\ stage' = 2 /\ tree' = WitnessTree /\ scene' = WitnessScene
Next == PickTree \/ PickLayout \/ PickScene \/ PickWitness
Spec == Init /\ [][Next]_vars

G == Genes(scene)
FlipNegates == stage = 2 => \A g \in G : Eval(scene, Flip(tree), g, FALSE) = ~Eval(scene, tree, g, FALSE)
ReasonsAreOwnHits == stage = 2 => \A g \in G : Reasons(scene, tree, g) \subseteq (HitProfiles(scene, g) \cap ProfilesOf(tree))
(* rotating a circular scene by k changes nothing *)
Rotated(sc, k) == [sc EXCEPT !.locs = [i \in DOMAIN sc.locs |-> Shift(RingOfScene(sc), sc.locs[i], k)]]
RotationInvariant == (stage = 2 /\ scene.circ) =>
    \A k \in {1, 5, 11} : \A g \in G : Eval(Rotated(scene, k), tree, g, FALSE) = Eval(scene, tree, g, FALSE)
(* a gene alone in range of nothing: truth depends on its own hits only *)
LocalEqualsGlobalWhenAlone == stage = 2 =>
    \A g \in G : InRange(scene, g) = {} => Eval(scene, tree, g, FALSE) = Eval(scene, tree, g, TRUE)
(* negative control: the leaky minscore is NOT the documented meaning *)
LeakyAgrees == stage = 2 => \A g \in G : EvalLeaky(scene, tree, g, FALSE) = Eval(scene, tree, g, FALSE)
=============================================================================
