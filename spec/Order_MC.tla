------------------------------ MODULE Order_MC ------------------------------
(* Numbered lists built by insertion: every order of adding a set of areas to  *)
(* a record, each inserted where bisection with the comparison puts it.         *)
(* With the key order the final list - and so every number - is the same for    *)
(* every insertion order; with the container shortcut (the comparison found in  *)
(* the code) a whole-record area and an origin-spanning area are each "before"  *)
(* the other and the numbers depend on the insertion order (negative control).  *)
EXTENDS Order, TLC, FiniteSets, FiniteSetsExt
CONSTANTS Len0, Comparison
VARIABLES todo, list
vars == <<todo, list>>

R0 == [L |-> Len0, circ |-> TRUE]
Universe == Spans(R0)
(* the catalogues replayed as real features: areas are spans; plain features also come in several exons and on both strands *)
FeatureUniverse(r) == WithStrands(ArcParts(r) \cup CrossParts(r) \cup IntronParts(r) \cup CrossIntronParts(r), {1, -1})
ASSUME PrintT(<<"AREAS", [circ \in BOOLEAN |-> Spans([L |-> Len0, circ |-> circ])]>>)
ASSUME PrintT(<<"FEATURES", [circ \in BOOLEAN |-> FeatureUniverse([L |-> Len0, circ |-> circ])]>>)
Lt(a, b) == IF Comparison = "key" THEN KeyBefore(R0, a, b) ELSE ShortcutBefore(R0, a, b)

Init == /\ todo \in kSubset(3, Universe)
        /\ list = <<>>
Add(x) == /\ x \in todo
          /\ todo' = todo \ {x}
          /\ list' = Insert(Lt, list, x)
Next == \E x \in todo : Add(x)
Spec == Init /\ [][Next]_vars

Matrix(items) == [i \in DOMAIN items |-> [j \in DOMAIN items |-> Lt(items[i], items[j])]]
(* the comparison obeys the laws and the stated order on every triple *)
ComparisonLawful == todo = {} => OrderLawsFailed(R0, "area", list, Matrix(list)) = {}
(* the list is sorted after every insertion *)
ListSorted == \A i, j \in DOMAIN list : i < j => ~Lt(list[j], list[i])
(* the final list does not depend on the insertion order: it is the one sorted list (no ties between distinct areas) *)
NumbersIndependentOfInsertionOrder ==
    todo = {} => \A i, j \in DOMAIN list : i < j => AreaMustBefore(R0, list[i], list[j])
=============================================================================
