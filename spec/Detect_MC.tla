------------------------------ MODULE Detect_MC ------------------------------
(* Generator + self-consistency for C03/C07.  stage 1: single rules (template x  *)
(* cutoff x neighbourhood), stage 3: gene locations per record; both catalogues  *)
(* are combined by the harness into rulesets and layouts and replayed against    *)
(* the code.  stage 2: sampled (ruleset, scene) pairs on which the constructive  *)
(* reference result must satisfy the relation (so it is satisfiable), anchors    *)
(* partition into cores, and rotation / rule order do not matter.                *)
EXTENDS Detect, TLC, Randomization, SequencesExt
CONSTANTS Samples
VARIABLES stage, rule, R, gene, rules, scene
vars == <<stage, rule, R, gene, rules, scene>>

A == Id("a", FALSE)
Bp == Id("b", FALSE)
Cp == Id("c", FALSE)
Templates == {
    [cond |-> A, hasExt |-> FALSE, ext |-> A],
    [cond |-> And(<<A, Bp>>), hasExt |-> FALSE, ext |-> A],
    [cond |-> Or(<<A, Bp>>, FALSE), hasExt |-> FALSE, ext |-> A],
    [cond |-> Cds(And(<<A, Bp>>), FALSE), hasExt |-> FALSE, ext |-> A],
    [cond |-> MinOfOpts(2, <<"a", "b", "c">>, FALSE), hasExt |-> FALSE, ext |-> A],
    [cond |-> And(<<A, Id("c", TRUE)>>), hasExt |-> FALSE, ext |-> A],
    [cond |-> And(<<Score("a", 50, FALSE), Bp>>), hasExt |-> FALSE, ext |-> A],
    [cond |-> A, hasExt |-> TRUE, ext |-> Bp],
    [cond |-> A, hasExt |-> TRUE, ext |-> Cds(And(<<Bp, Cp>>), FALSE)],
    [cond |-> Or(<<A, Id("b", TRUE)>>, FALSE), hasExt |-> FALSE, ext |-> A]}
MkRule(n, t, cut, nb, sup) == [name |-> n, cutoff |-> cut, nbhd |-> nb, cond |-> t.cond, hasExt |-> t.hasExt, ext |-> t.ext, sup |-> sup]
SingleRules == {MkRule("r1", t, cut, nb, <<>>) : t \in Templates, cut \in {1, 2, 3}, nb \in {1, 2, 5}}
PlainRules(n) == {MkRule(n, t, cut, nb, <<>>) : t \in {t \in Templates : ~t.hasExt}, cut \in {1, 2, 3}, nb \in {1, 2}}

Rings == [L : {8, 10, 12}, circ : BOOLEAN]
ShortArcs(r) == {p \in ArcParts(r) : p[1][2] - p[1][1] <= 2}
GeneLocs(r) == WithStrands(ShortArcs(r) \cup (IF r.circ THEN {<< <<r.L - 1, r.L>>, <<0, 1>> >>} ELSE {}), {1, -1})
GeneHits == {a \o b \o c : a \in {<<>>, <<[p |-> "a", s |-> 40]>>, <<[p |-> "a", s |-> 60]>>},
                           b \in {<<>>, <<[p |-> "b", s |-> 30]>>}, c \in {<<>>, <<[p |-> "c", s |-> 70]>>}}
MkScene(r, gs, hs) == [L |-> r.L, circ |-> r.circ, cutoff |-> 0, locs |-> gs, hits |-> hs]

DummyRule == MkRule("r1", CHOOSE t \in Templates : t.cond = A /\ ~t.hasExt, 1, 1, <<>>)
DummyR == [L |-> 8, circ |-> FALSE]
DummyScene == MkScene(DummyR, <<Simple(0, 1, 1)>>, <<<<>>>>)

Init == stage = 0 /\ rule = DummyRule /\ R = DummyR /\ gene = Simple(0, 1, 1) /\ rules = <<DummyRule>> /\ scene = DummyScene
PickRule == stage = 0 /\ stage' = 1 /\ rule' \in SingleRules /\ UNCHANGED <<R, gene, rules, scene>>
PickRing == stage = 0 /\ stage' = 4 /\ R' \in Rings /\ UNCHANGED <<rule, gene, rules, scene>>
PickGene == stage = 4 /\ stage' = 3 /\ gene' \in GeneLocs(R) /\ UNCHANGED <<rule, R, rules, scene>>
PickPair == /\ stage = 4 /\ stage' = 2 /\ UNCHANGED <<rule, R, gene>>
            /\ \E r1 \in RandomSubset(Samples, PlainRules("r1")), r2 \in RandomSubset(2, PlainRules("r2")), useSup \in BOOLEAN :
                 rules' = <<r1, [r2 EXCEPT !.sup = IF useSup THEN <<"r1">> ELSE <<>>]>>
            /\ \E g1 \in RandomSubset(3, GeneLocs(R)), g2 \in RandomSubset(3, GeneLocs(R)), g3 \in RandomSubset(2, GeneLocs(R)),
                  h1 \in RandomSubset(2, GeneHits), h2 \in RandomSubset(2, GeneHits), h3 \in RandomSubset(2, GeneHits) :
                 scene' = MkScene(R, <<g1, g2, g3>>, <<h1, h2, h3>>)
(* one fixed arrangement besides the sampled ones, so that the negative control does not depend on the draw (RandomSubset is
   not reproducible across runs): on a ring of 8 the gene at [0,2) scores 60 for a and lies two bases - over the origin -
   from the gene with b at [5,6); r2 = minscore(a,50) and b with cutoff 3 anchors there, the stale-flag design measures
   the long way round and misses it *)
WitnessScene ==
[ cutoff |-> 0,
  L |-> 8,
  circ |-> TRUE,
  locs |->
      << [parts |-> <<<<5, 6>>>>, strand |-> 1],
         [parts |-> <<<<0, 2>>>>, strand |-> -1],
         [parts |-> <<<<0, 1>>>>, strand |-> 1] >>,
  hits |->
      << <<[p |-> "b", s |-> 30]>>,
         <<[p |-> "a", s |-> 60], [p |-> "c", s |-> 70]>>,
         <<[p |-> "a", s |-> 40]>> >> ]
WitnessRules ==
<< [ cond |->
         [ p |-> "a",
           s |-> 0,
           k |-> "id",
           neg |-> FALSE,
           opts |-> <<>>,
           args |-> <<>> ],
     hasExt |-> FALSE,
     ext |->
         [ p |-> "a",
           s |-> 0,
           k |-> "id",
           neg |-> FALSE,
           opts |-> <<>>,
           args |-> <<>> ],
     sup |-> <<>>,
     name |-> "r1",
     cutoff |-> 2,
     nbhd |-> 2 ],
   [ cond |->
         [ p |-> "",
           s |-> 0,
           k |-> "and",
           neg |-> FALSE,
           opts |-> <<>>,
           args |->
               << [ p |-> "a",
                    s |-> 50,
                    k |-> "score",
                    neg |-> FALSE,
                    opts |-> <<>>,
                    args |-> <<>> ],
                  [ p |-> "b",
                    s |-> 0,
                    k |-> "id",
                    neg |-> FALSE,
                    opts |-> <<>>,
                    args |-> <<>> ] >> ],
     hasExt |-> FALSE,
     ext |->
         [ p |-> "a",
           s |-> 0,
           k |-> "id",
           neg |-> FALSE,
           opts |-> <<>>,
           args |-> <<>> ],
     sup |-> <<>>,
     name |-> "r2",
     cutoff |-> 3,
     nbhd |-> 1 ] >>
PickWitness == stage = 0 /\ stage' = 2 /\ rules' = WitnessRules /\ scene' = WitnessScene /\ UNCHANGED <<rule, R, gene>>
Next == PickRule \/ PickRing \/ PickGene \/ PickPair \/ PickWitness
Spec == Init /\ [][Next]_vars

RR == RingOfScene(scene)
RefOut(sc, rs) ==
    LET ps == RefProtos(sc, rs)
        seq == CHOOSE s \in [1..Cardinality(ps) -> ps] : \A i, j \in 1..Cardinality(ps) : i # j => s[i] # s[j]
    IN  [i \in 1..Cardinality(ps) |->
           [rule |-> seq[i].rule, core |-> seq[i].core,
            defs |-> SetToSeq(GenesInside(sc, seq[i].core) \cap AnchorSet(sc, RuleNamed(rs, seq[i].rule))),
            extent |-> Extend(RingOfScene(sc), seq[i].core, RuleNamed(rs, seq[i].rule).nbhd)]]
(* the relation accepts the constructive reference: it is satisfiable and not contradictory *)
RefSatisfiesRelation == stage = 2 => DetectFailed(scene, rules, RefOut(scene, rules)) = {}
(* every anchoring gene lies in exactly one reference core of its rule *)
AnchorsPartition == stage = 2 =>
    \A k \in DOMAIN rules : \A g \in AnchorSet(scene, rules[k]) :
        Cardinality({c \in Chains(scene, rules[k].cutoff, AnchorSet(scene, rules[k])) : g \in c}) = 1
(* chains of one rule are pairwise at least the cutoff apart *)
ChainsApart == stage = 2 =>
    \A k \in DOMAIN rules : \A c1, c2 \in Chains(scene, rules[k].cutoff, AnchorSet(scene, rules[k])) :
        c1 # c2 => \A g \in c1, h \in c2 : Dist(RR, scene.locs[g], scene.locs[h]) >= rules[k].cutoff
(* rule order does not matter for the reference result *)
OrderFree == stage = 2 => RefProtos(scene, rules) = RefProtos(scene, <<rules[2], rules[1]>>)
(* rotating the origin only changes coordinates: same anchors, same chains *)
Rot(sc, k) == [sc EXCEPT !.locs = [i \in DOMAIN sc.locs |-> Shift(RingOfScene(sc), sc.locs[i], k)]]
RotationFree == (stage = 2 /\ scene.circ) =>
    \A k \in {1, 3, scene.L - 1} : \A j \in DOMAIN rules :
        /\ AnchorSet(Rot(scene, k), rules[j]) = AnchorSet(scene, rules[j])
        /\ Chains(Rot(scene, k), rules[j].cutoff, AnchorSet(scene, rules[j])) = Chains(scene, rules[j].cutoff, AnchorSet(scene, rules[j]))
(* the repaired apply_cluster_rules design computes the documented anchors; the stale-flag design does not *)
RepairedCacheDesign == stage = 2 => \A k \in DOMAIN rules : ImplAnchors(scene, rules, k, FALSE) = AnchorSet(scene, rules[k])
StaleCacheDesign == stage = 2 => \A k \in DOMAIN rules : ImplAnchors(scene, rules, k, TRUE) = AnchorSet(scene, rules[k])
=============================================================================
