--------------------------- MODULE RecordIds_Trace ---------------------------
(* Trace validation for C16.  Identifiers travel as arrays of character codes.   *)
(*   ids:    pre_process_sequences on a list of records: allow, in <<[id, name]>>, *)
(*           res |-> [exc, v |-> <<[id, name, orig]>>], saved: the same read back   *)
(*           from a results file                                                     *)
(*   fix:    fix_record_name_id on one record with a given set of taken ids         *)
(*   unique: generate_unique_id(prefix, existing, max_length)                       *)
(*   genes:  Record.add_cds_feature for a list of genes [tag, pid, gene, loc];      *)
(*           res |-> [exc, v |-> [names, found, at]]  (at: gene being added when     *)
(*           the exception was raised, 0 if none)                                    *)
EXTENDS RecordIds, TLC, Json, IOUtils
VARIABLE l
Trace == ndJsonDeserialize(IOEnv.TRACE_FILE)

AsSet(seq) == {seq[i] : i \in DOMAIN seq}
Tag(op, S) == {op \o "/" \o c : c \in S}
Refusal == {"AntismashInputError"}
GeneRefusal == {"SecmetInvalidInputError"}

IdsEventFailed(ev) ==
    IF ev.res.exc \in Refusal THEN (IF RejectionJustified(ev.in) THEN {} ELSE {"ids/refused_only_without_usable_id"})
    ELSE IF ev.res.exc # "" THEN {"ids/no_exception:" \o ev.res.exc}
    ELSE Tag("ids", IdsFailed(ev.in, ev.res.v, ev.allow))
         (* a record whose identifier was changed remembers its original identifier - also in the results file a later
            run reuses (saved = the records read back from it), whether or not the record was analysed *)
         \cup (IF ev.saved.exc # "" THEN {"ids/results_file_no_exception:" \o ev.saved.exc}
               ELSE IF Len(ev.saved.v) # Len(ev.res.v) THEN {"ids/results_file_holds_every_record"}
               ELSE IF \E i \in DOMAIN ev.res.v : ev.saved.v[i].id # ev.res.v[i].id \/ ev.saved.v[i].orig # ev.res.v[i].orig
                    THEN {"ids/original_id_survives_the_results_file"} ELSE {})
         (* ... and in the GenBank outputs of the run itself: the antiSMASH-Data comment of each record names that
            record's own original identifier, and names none for a record that kept its identifier *)
         \cup (IF ev.gbk.exc # "" THEN {"ids/genbank_comment_no_exception:" \o ev.gbk.exc}
               ELSE IF Len(ev.gbk.v) # Len(ev.res.v) THEN {"ids/genbank_comment_for_every_record"}
               ELSE IF \E i \in DOMAIN ev.res.v : ev.gbk.v[i] # ev.res.v[i].orig
                    THEN {"ids/original_id_is_in_the_genbank_comment_of_its_record"} ELSE {})

FixEventFailed(ev) ==
    IF ev.res.exc # "" THEN {"fix/no_exception:" \o ev.res.exc}
    ELSE Tag("fix", FixFailed(ev.in, AsSet(ev.taken), ev.allow, ev.res.v.rec, AsSet(ev.res.v.taken)))

UniqueEventFailed(ev) ==
    LET fits == ev.max < 1 \/ Len(Unique(ev.prefix, AsSet(ev.existing))) <= ev.max IN
    IF ev.res.exc = "RuntimeError" THEN (IF fits THEN {"unique/refused_only_when_too_long"} ELSE {})
    ELSE IF ev.res.exc # "" THEN {"unique/no_exception:" \o ev.res.exc}
    ELSE Tag("unique", UniqueFailed(ev.prefix, AsSet(ev.existing), ev.max, ev.res.v))

GenesEventFailed(ev) ==
    IF ev.res.exc \in GeneRefusal THEN Tag("genes", GenesRejectedFailed(ev.genes, ev.res.v.at))
    ELSE IF ev.res.exc # "" THEN {"genes/no_exception:" \o ev.res.exc}
    ELSE Tag("genes", GenesAcceptedFailed(ev.genes, ev.res.v.names, ev.res.v.found))

Failed(ev) == CASE ev.op = "ids" -> IdsEventFailed(ev)
                [] ev.op = "fix" -> FixEventFailed(ev)
                [] ev.op = "unique" -> UniqueEventFailed(ev)
                [] ev.op = "genes" -> GenesEventFailed(ev)
                [] OTHER -> {"trace/unknown_op"}

Init == l = 1
Step == /\ l <= Len(Trace)
        /\ \A c \in Failed(Trace[l]) : PrintT(<<"REJECT", Trace[l].id, c>>)
        /\ l' = l + 1
Done == l = Len(Trace) + 1 /\ PrintT(<<"DONE", Len(Trace)>>) /\ l' = l + 1
Next == Step \/ Done
Spec == Init /\ [][Next]_l
=============================================================================
