----------------------------- MODULE Pool_RecMC -----------------------------
(* Generator for the record contents that cross the process boundary (C18):    *)
(* every state is one abstract record (topology, a set of genes from a small    *)
(* universe that includes multi-exon, reverse-strand and origin-spanning genes, *)
(* and which protoclusters exist).  Each is materialised as a secmet Record     *)
(* and sent through the real parallel helper and through pickle.                *)
EXTENDS Integers, Sequences, FiniteSets, TLC
CONSTANT L
VARIABLES shape, stage
vars == <<shape, stage>>

Gene(name, parts, strand) == [name |-> name, parts |-> parts, strand |-> strand]
(* parts in Biopython order (reverse-strand parts reversed) *)
GeneUniverse == {
    Gene("g1", << <<3, 30>> >>, 1),
    Gene("g2", << <<33, 60>> >>, -1),
    Gene("g3", << <<42, 51>>, <<57, 66>> >>, 1),
    Gene("g4", << <<L - 9, L>>, <<0, 9>> >>, 1),
    Gene("g5", << <<0, 6>>, <<L - 6, L>> >>, -1) }
ByName(n) == CHOOSE g \in GeneUniverse : g.name = n
Names == {g.name : g \in GeneUniverse}
SpansOrigin(g) == \E i, j \in DOMAIN g.parts : i # j /\ g.parts[i][1] = 0 /\ g.parts[j][2] = L
PartLen(q) == q[2] - q[1]
RECURSIVE SumLen(_, _)
SumLen(parts, i) == IF i > Len(parts) THEN 0 ELSE PartLen(parts[i]) + SumLen(parts, i + 1)

(* protoclusters: "mid" has its core on g2, "origin" has an origin-spanning core on g4 *)
AreaSets == SUBSET {"mid", "origin"}
Shapes == {s \in [circ : BOOLEAN, genes : SUBSET Names, areas : AreaSets] :
              /\ \A n \in s.genes : SpansOrigin(ByName(n)) => s.circ
              /\ "mid" \in s.areas => "g2" \in s.genes
              /\ "origin" \in s.areas => (s.circ /\ "g4" \in s.genes)}

Init == shape \in Shapes /\ stage = 0
Check == stage = 0 /\ stage' = 1 /\ UNCHANGED shape
Next == Check
Spec == Init /\ [][Next]_vars

GenesWellFormed == \A n \in shape.genes :
    LET g == ByName(n) IN
    /\ \A i \in DOMAIN g.parts : 0 <= g.parts[i][1] /\ g.parts[i][1] < g.parts[i][2] /\ g.parts[i][2] <= L
    /\ SumLen(g.parts, 1) % 3 = 0
    /\ SpansOrigin(g) => shape.circ
(* the universe really contains what the property is about *)
UniverseCovers == /\ \E g \in GeneUniverse : SpansOrigin(g) /\ g.strand = 1
                  /\ \E g \in GeneUniverse : SpansOrigin(g) /\ g.strand = -1
                  /\ \E g \in GeneUniverse : Len(g.parts) > 1 /\ ~SpansOrigin(g)
=============================================================================
