------------------------------ MODULE RuleAst ------------------------------
(***************************************************************************)
(* Rule conditions as trees and their documented boolean meaning (C01).    *)
(* Transcribed from the documentation of the rule language, not from the   *)
(* condition classes.                                                       *)
(*                                                                          *)
(* node == [k |-> "id" | "score" | "min" | "cds" | "and" | "or",            *)
(*          neg |-> BOOLEAN, p |-> profile, s |-> score threshold / count,  *)
(*          opts |-> sequence of profiles, args |-> sequence of nodes]      *)
(* scene == [L, circ, cutoff, locs : Seq(location), hits : Seq(Seq([p,s]))] *)
(* genes are the indices 1..Len(scene.locs)                                  *)
(***************************************************************************)
EXTENDS Ring

Node(k, neg, p, s, opts, args) == [k |-> k, neg |-> neg, p |-> p, s |-> s, opts |-> opts, args |-> args]
Id(p, neg) == Node("id", neg, p, 0, <<>>, <<>>)
Score(p, s, neg) == Node("score", neg, p, s, <<>>, <<>>)
MinOfOpts(n, opts, neg) == Node("min", neg, "", n, opts, <<>>)
Cds(body, neg) == Node("cds", neg, "", 0, <<>>, <<body>>)
And(args) == Node("and", FALSE, "", 0, <<>>, args)
Or(args, neg) == Node("or", neg, "", 0, <<>>, args)

Genes(sc) == 1..Len(sc.locs)
RingOfScene(sc) == [L |-> sc.L, circ |-> sc.circ]
HitProfiles(sc, g) == {sc.hits[g][i].p : i \in DOMAIN sc.hits[g]}
HasHit(sc, g, p) == p \in HitProfiles(sc, g)
HasScore(sc, g, p, s) == \E i \in DOMAIN sc.hits[g] : sc.hits[g][i].p = p /\ sc.hits[g][i].s >= s
(* genes closer than the cutoff (ring distance on a circular record) *)
InRange(sc, g) == {h \in Genes(sc) \ {g} : Dist(RingOfScene(sc), sc.locs[g], sc.locs[h]) < sc.cutoff}
Around(sc, g, local) == IF local THEN {g} ELSE {g} \cup InRange(sc, g)

SeqSet(s) == {s[i] : i \in DOMAIN s}
RECURSIVE SumCard(_, _, _)
SumCard(sc, G, opts) == IF G = {} THEN 0
                        ELSE LET h == CHOOSE x \in G : TRUE
                             IN  Cardinality(opts \cap HitProfiles(sc, h)) + SumCard(sc, G \ {h}, opts)

(* truth of a condition at gene g; local = "only this gene may be consulted" (inside cds) *)
RECURSIVE Eval(_, _, _, _)
Eval(sc, c, g, local) ==
    LET v == CASE c.k = "id" -> \E h \in Around(sc, g, local) : HasHit(sc, h, c.p)
               [] c.k = "score" -> \E h \in Around(sc, g, local) : HasScore(sc, h, c.p, c.s)
               [] c.k = "min" -> SumCard(sc, {g} \cup InRange(sc, g), SeqSet(c.opts)) >= c.s
               [] c.k = "cds" -> \E h \in Around(sc, g, local) : Eval(sc, c.args[1], h, TRUE)
               [] c.k = "and" -> \A i \in DOMAIN c.args : Eval(sc, c.args[i], g, local)
               [] c.k = "or" -> \E i \in DOMAIN c.args : Eval(sc, c.args[i], g, local)
    IN  c.neg # v

(* reason profiles contributed by gene g itself *)
RECURSIVE Reasons(_, _, _)
Reasons(sc, c, g) ==
    CASE c.k = "id" -> {c.p} \cap HitProfiles(sc, g)
      [] c.k = "score" -> IF HasScore(sc, g, c.p, c.s) THEN {c.p} ELSE {}
      [] c.k = "min" -> SeqSet(c.opts) \cap HitProfiles(sc, g)
      [] c.k = "cds" -> IF Eval(sc, c.args[1], g, TRUE) THEN Reasons(sc, c.args[1], g) ELSE {}
      [] OTHER -> UNION {Reasons(sc, c.args[i], g) : i \in DOMAIN c.args}

Anchors(sc, c, g) == Eval(sc, c, g, FALSE) /\ Reasons(sc, c, g) # {}

RECURSIVE ProfilesOf(_)
ProfilesOf(c) == CASE c.k \in {"id", "score"} -> {c.p}
                   [] c.k = "min" -> SeqSet(c.opts)
                   [] OTHER -> UNION {ProfilesOf(c.args[i]) : i \in DOMAIN c.args}

(* the documented "at least one positive requirement" *)
RECURSIVE HasPositive(_)
HasPositive(c) == IF c.neg THEN FALSE
                  ELSE IF c.k \in {"id", "score", "min"} THEN TRUE
                  ELSE \E i \in DOMAIN c.args : HasPositive(c.args[i])

(* the same formula with the top-level negation flipped *)
Flip(c) == [c EXCEPT !.neg = ~c.neg]

(* implementation-shaped variant used as a negative control: minscore ignores `local`
   (the defect P6: cds(a and minscore(b, 50)) satisfied by b on a neighbour) *)
RECURSIVE EvalLeaky(_, _, _, _)
EvalLeaky(sc, c, g, local) ==
    LET v == CASE c.k = "id" -> \E h \in Around(sc, g, local) : HasHit(sc, h, c.p)
               [] c.k = "score" -> \E h \in Around(sc, g, FALSE) : HasScore(sc, h, c.p, c.s)
               [] c.k = "min" -> SumCard(sc, {g} \cup InRange(sc, g), SeqSet(c.opts)) >= c.s
               [] c.k = "cds" -> \E h \in Around(sc, g, local) : EvalLeaky(sc, c.args[1], h, TRUE)
               [] c.k = "and" -> \A i \in DOMAIN c.args : EvalLeaky(sc, c.args[i], g, local)
               [] c.k = "or" -> \E i \in DOMAIN c.args : EvalLeaky(sc, c.args[i], g, local)
    IN  c.neg # v
=============================================================================
