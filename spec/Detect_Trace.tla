----------------------------- MODULE Detect_Trace -----------------------------
(* Trace validation for C03 and C07.                                            *)
(*  op "detect": one run of detect_protoclusters_and_signatures; out.v is the    *)
(*     list of observed protoclusters [rule, core, extent, defs].                 *)
(*  op "meta": the same scene detected again after rotating the origin by k and   *)
(*     with the ruleset permuted / thinned; gene-level views must agree (C07).    *)
EXTENDS Detect, TLC, Json, IOUtils
VARIABLE l
Trace == ndJsonDeserialize(IOEnv.TRACE_FILE)

SeqToSet(s) == {s[i] : i \in DOMAIN s}
DetectEvFailed(sc, rules, out) ==
    IF out.exc # "" THEN {"detect/no_exception:" \o out.exc}
    ELSE {"detect/" \o c : c \in DetectFailed(sc, rules, out.v)}

(* gene-level view of a run: per protocluster the rule and the genes inside core and extent *)
ProtoView(sc, out) == {[rule |-> out[i].rule, core |-> GenesInside(sc, out[i].core), all |-> GenesInside(sc, out[i].extent)] : i \in DOMAIN out}
AreaView(sc, areas) == {[kind |-> areas[i].kind, all |-> GenesInside(sc, areas[i].loc)] : i \in DOMAIN areas}
Rot(sc, k) == [sc EXCEPT !.locs = [i \in DOMAIN sc.locs |-> Shift(RingOfScene(sc), sc.locs[i], k)]]
SmallRegions(sc, regs) == \A i \in DOMAIN regs : 2 * Size(regs[i].loc) < sc.L
ViewsOf(sc, run) == [p |-> ProtoView(sc, run.protos), c |-> AreaView(sc, run.cands), r |-> AreaView(sc, run.regions)]

MetaFailed(ev) ==
    LET sc == ev.scene
        base == ev.base
    IN  (IF base.exc # "" THEN {"rotate/no_exception:" \o base.exc} ELSE {})
        \cup
        (* rotation: the rotated record is the same scene with every gene shifted by k *)
        UNION {LET run == ev.rotations[i]
                   rsc == Rot(sc, run.k)
               IN  IF run.exc # "" THEN {"rotate/no_exception:" \o run.exc}
                   ELSE IF base.exc # "" THEN {}
                   ELSE IF ~(SmallRegions(sc, base.regions) /\ SmallRegions(rsc, run.regions)) THEN {}
                   ELSE (IF ProtoView(rsc, run.protos) # ProtoView(sc, base.protos) THEN {"rotate/same_protoclusters_same_genes"} ELSE {})
                        \cup (IF AreaView(rsc, run.cands) # AreaView(sc, base.cands) THEN {"rotate/same_candidates_same_genes"} ELSE {})
                        \cup (IF AreaView(rsc, run.regions) # AreaView(sc, base.regions) THEN {"rotate/same_regions_same_genes"} ELSE {})
               : i \in DOMAIN ev.rotations}
        \cup
        (* rule order / sub-selection: protoclusters of a kept rule are unchanged, unless a removed rule was
           (transitively) one of its superiors *)
        UNION {LET run == ev.orders[i]
                   kept == SeqToSet(run.names)
                   lostSup(n) == \E k \in DOMAIN ev.rules : ev.rules[k].name = n /\ \E j \in DOMAIN ev.rules[k].sup : ev.rules[k].sup[j] \notin kept
                   mine(out) == {[rule |-> out[j].rule, core |-> out[j].core, extent |-> out[j].extent] : j \in {j \in DOMAIN out : out[j].rule \in kept /\ ~lostSup(out[j].rule)}}
               IN  IF run.exc # "" THEN {"order/no_exception:" \o run.exc}
                   ELSE IF base.exc # "" THEN {}
                   ELSE IF mine(run.protos) # mine(base.protos) THEN {"order/protoclusters_independent_of_other_rules"} ELSE {}
               : i \in DOMAIN ev.orders}

(* op "selections": the shipped rules asked for several times in one process (all of them, limited to some names, all
   again, ...): sels == Seq([names : Seq(rule name) - empty for all, rules : Seq([name, cutoff, nbhd])]), the first
   selection being the full ruleset.  What a rule is - its distances - and the order rules are applied in do not depend
   on which other rules were asked for, before or alongside (C07, second half) *)
SelectionsFailed(ev) ==
    IF ev.exc # "" THEN {"selections/no_exception:" \o ev.exc}
    ELSE LET sels == ev.sels
             full == sels[1].rules
             names(rs) == {rs[i].name : i \in DOMAIN rs}
             posIn(rs, n) == CHOOSE i \in DOMAIN rs : rs[i].name = n
         IN  (IF \E i, j \in DOMAIN sels : \E a \in DOMAIN sels[i].rules, b \in DOMAIN sels[j].rules :
                     /\ sels[i].rules[a].name = sels[j].rules[b].name
                     /\ (sels[i].rules[a].cutoff # sels[j].rules[b].cutoff \/ sels[i].rules[a].nbhd # sels[j].rules[b].nbhd)
              THEN {"selections/rule_distances_independent_of_the_selection"} ELSE {})
             \cup (IF \E i \in DOMAIN sels : names(sels[i].rules) #
                        (IF sels[i].names = <<>> THEN names(full) ELSE SeqToSet(sels[i].names) \cap names(full))
                   THEN {"selections/holds_exactly_the_requested_rules"} ELSE {})
             \cup (IF \E i \in DOMAIN sels : \E a, b \in DOMAIN sels[i].rules :
                        /\ a < b /\ sels[i].rules[a].name \in names(full) /\ sels[i].rules[b].name \in names(full)
                        /\ posIn(full, sels[i].rules[a].name) > posIn(full, sels[i].rules[b].name)
                   THEN {"selections/rules_in_rule_file_order"} ELSE {})

(* op "motif": the search for a small ORF with a sequence motif around an anchor gene (the code-based profiles that feed
   the rule engine), on a ring rotated by several k.  anchor, orf: locations at rotation 0; reach: how far the search
   extends on both sides of the anchor; runs: Seq([k, exc, found : Seq(location)]) as observed on the record rotated by
   k.  The ORF is found iff it lies within reach of the anchor (free when it only partly does), whatever the origin *)
MotifFailed(ev) ==
    LET R == [L |-> ev.L, circ |-> TRUE]
        span == Cover(R, {ev.anchor})
        area == Extend(R, span, ev.reach)
        must == Size(span) + 2 * ev.reach >= ev.L \/ Contains(area, ev.orf)
        mustNot == Size(span) + 2 * ev.reach < ev.L /\ ~Overlaps(area, ev.orf)
        back(run) == {Bases(Shift(R, run.found[i], 0 - run.k)) : i \in DOMAIN run.found}
    IN  UNION {IF ev.runs[i].exc # "" THEN {"motif/no_exception:" \o ev.runs[i].exc}
               ELSE (IF must /\ Bases(ev.orf) \notin back(ev.runs[i]) THEN {"motif/orf_within_reach_is_found"} ELSE {})
                    \cup (IF mustNot /\ back(ev.runs[i]) # {} THEN {"motif/nothing_beyond_reach"} ELSE {})
                    \cup (IF back(ev.runs[i]) \ {Bases(ev.orf)} # {} THEN {"motif/only_the_planted_orf"} ELSE {})
               : i \in DOMAIN ev.runs}
        \cup (IF \E i, j \in DOMAIN ev.runs : ev.runs[i].exc = "" /\ ev.runs[j].exc = "" /\ back(ev.runs[i]) # back(ev.runs[j])
              THEN {"motif/same_result_for_every_origin"} ELSE {})

Failed(ev) == CASE ev.op = "detect" -> DetectEvFailed(ev.scene, ev.rules, ev.out)
                [] ev.op = "motif" -> MotifFailed(ev)
                [] ev.op = "meta" -> MetaFailed(ev)
                [] ev.op = "selections" -> SelectionsFailed(ev)
                [] OTHER -> {"trace/unknown_op"}

Init == l = 1
Step == /\ l <= Len(Trace)
        /\ \A c \in Failed(Trace[l]) : PrintT(<<"REJECT", Trace[l].id, c>>)
        /\ l' = l + 1
Done == l = Len(Trace) + 1 /\ PrintT(<<"DONE", Len(Trace)>>) /\ l' = l + 1
Next == Step \/ Done
Spec == Init /\ [][Next]_l
=============================================================================
