------------------------------ MODULE Orfs_MC ------------------------------
(* Generator + cross-check of the ORF oracle (property C15).                   *)
(* Stage-2 states are all concatenations of 3..MaxTokens tokens from Tokens     *)
(* (two-level Next: 3-token prefix, then the rest); they are the strings        *)
(* replayed against scan_orfs.  With single-base tokens {A, T, G} this is every  *)
(* string over the alphabet of all start and stop codons; with codon tokens      *)
(* (starts, stops, a neutral codon, a one-base frame shift) it reaches strings   *)
(* with several ORFs in the same and in different frames.  On every string the   *)
(* declarative OrfsOf is compared with a sweep-shaped model, and the coordinate  *)
(* mapping / extraction operators are checked against each other on windows      *)
(* inside, touching and crossing the origin, on both strands.                    *)
EXTENDS Orfs, TLC
CONSTANTS Tokens, MaxTokens
VARIABLES stage, seq, norfs      (* norfs: number of ORFs of seq, so that the replay can tell rich strings *)
vars == <<stage, seq, norfs>>

RECURSIVE Flatten(_, _)
Flatten(ts, i) == IF i > Len(ts) THEN <<>> ELSE ts[i] \o Flatten(ts, i + 1)
Strings(k) == {Flatten(ts, 1) : ts \in [1..k -> Tokens]}
Init == stage = 0 /\ seq = <<>> /\ norfs = 0
PickPrefix == stage = 0 /\ stage' = 1 /\ seq' \in Strings(3) /\ norfs' = 0
PickRest == stage = 1 /\ stage' = 2 /\ \E k \in 0..(MaxTokens - 3) : \E t \in Strings(k) : seq' = seq \o t
            /\ norfs' = Cardinality(OrfsOf(seq'))
Next == PickPrefix \/ PickRest
Spec == Init /\ [][Next]_vars

(* the oracle agrees with the sweep-shaped model *)
ScanAgrees == stage = 2 => OrfsOf(seq) = ScanOrfs(seq)
(* at most one ORF per stop codon; ORFs of one frame do not overlap *)
OrfsSeparate == stage = 2 =>
    \A o1, o2 \in OrfsOf(seq) : (o1 # o2 /\ InFrame(o1[1], o2[1])) => (o1[2] <= o2[1] \/ o2[2] <= o1[1])
OrfsAreOrfStrings == stage = 2 => \A o \in OrfsOf(seq) : IsOrfString(SubSeq(seq, o[1] + 1, o[2]))
RevCompInvolution == stage = 2 => RevComp(RevComp(seq)) = seq /\ UpSeq(UpSeq(seq)) = UpSeq(seq)
MinSandwich == stage = 2 => \A m \in {0, 5, 6, 7, 9} :
    /\ MustOrfs(seq, m) \subseteq MayOrfs(seq, m) /\ MayOrfs(seq, m) \subseteq OrfsOf(seq)
    /\ MayOrfs(seq, m + 1) = MustOrfs(seq, m)

(* windows: <<offset, record length>>; 0 = no record length *)
Placements(n) == {<<0, 0>>, <<5, 0>>, <<2, n + 4>>, <<0, n + 2>>, <<2, n + 2>>, <<4, n + 2>>,
                  <<n + 1, n + 2>>, <<0, n>>, <<1, n>>, <<n - 1, n>>, <<0 - 2, n + 3>>}
RecordFor(n, d, off, rl) ==
    LET window == IF d = 1 THEN seq ELSE RevComp(seq)
        len == IF rl = 0 THEN off + n + 2 ELSE rl
    IN  [k \in 1..len |-> IF \E p \in 0..(n - 1) : RecBase(n, 1, off, rl, p) = k - 1
                          THEN window[(CHOOSE p \in 0..(n - 1) : RecBase(n, 1, off, rl, p) = k - 1) + 1]
                          ELSE 1]
RECURSIVE SeqOfSet(_)
SeqOfSet(S) == IF S = {} THEN <<>> ELSE LET x == CHOOSE x \in S : TRUE IN <<x>> \o SeqOfSet(S \ {x})
(* the canonical location of every ORF satisfies the relation and extracts to the ORF; the list of
   all canonical locations is a correct answer of the scan (so the relation is satisfiable) *)
MappingSat == stage = 2 =>
    \A d \in {1, -1} : \A pl \in Placements(Len(seq)) :
        LET n == Len(seq)
            os == SeqOfSet(OrfsOf(seq))
            LocOf(o) == LocOfWalk(OrfWalk(n, d, pl[1], pl[2], o), d)
        IN  /\ \A o \in OrfsOf(seq) :
                  /\ PartsOK(pl[2], LocOf(o)) /\ TransWalk(LocOf(o)) = OrfWalk(n, d, pl[1], pl[2], o) /\ Len(LocOf(o).parts) <= 2
                  /\ Extract(RecordFor(n, d, pl[1], pl[2]), LocOf(o)) = SubSeq(seq, o[1] + 1, o[2])
            /\ ScanFailed(seq, d, pl[1], 0, pl[2], [i \in DOMAIN os |-> LocOf(os[i])]) = {}
            /\ (os # <<>> => ScanFailed(seq, d, pl[1], 0, pl[2], Tail([i \in DOMAIN os |-> LocOf(os[i])])) = {"every_orf_reported"})
ProteinShape == stage = 2 => \A o \in OrfsOf(seq) :
    LET x == SubSeq(seq, o[1] + 1, o[2]) IN Len(ProteinOf(x)) = OrfLen(o) \div 3 - 1 /\ 42 \notin RangeOf(ProteinOf(x))

(* negative controls: each must be violated *)
RECURSIVE ScanFrameLast(_, _, _, _)
ScanFrameLast(s, p, start, acc) ==        (* wrong on purpose: keeps the latest start *)
    IF p > Len(s) - 3 THEN acc
    ELSE IF IsStart(s, p) THEN ScanFrameLast(s, p + 3, p, acc)
    ELSE IF IsStop(s, p) THEN (IF start = -1 THEN ScanFrameLast(s, p + 3, -1, acc)
                               ELSE ScanFrameLast(s, p + 3, -1, acc \cup {<<start, p + 3>>}))
    ELSE ScanFrameLast(s, p + 3, start, acc)
LastStartAgrees == stage = 2 => OrfsOf(seq) = UNION {ScanFrameLast(seq, f, -1, {}) : f \in 0..2}
NoOrfAnywhere == stage = 2 => OrfsOf(seq) = {}
NoTwoOrfs == stage = 2 => Cardinality(OrfsOf(seq)) < 2
=============================================================================
