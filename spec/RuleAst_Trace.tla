---------------------------- MODULE RuleAst_Trace ----------------------------
(* Trace validation for C01: one event = one rule condition evaluated by the   *)
(* real DetectionRule.detect on every gene of a scene.                          *)
EXTENDS RuleAst, TLC, Json, IOUtils
VARIABLE l
Trace == ndJsonDeserialize(IOEnv.TRACE_FILE)

GeneFailed(ev, g) ==
    LET r == ev.res[g]
        met == Eval(ev.scene, ev.tree, g, FALSE)
        why == Reasons(ev.scene, ev.tree, g)
        seen == {r.matches[i] : i \in DOMAIN r.matches}
    IN  IF r.exc # "" THEN {"detect/no_exception:" \o r.exc}
        ELSE (IF r.met # met THEN {"detect/met_is_documented_formula"} ELSE {})
             \cup (IF (r.met /\ seen # {}) # (met /\ why # {}) THEN {"detect/anchoring_iff_true_and_own_reason"} ELSE {})
             \cup (IF r.met /\ met /\ seen # {} /\ why # {} /\ seen # why THEN {"detect/reasons_are_own_profiles"} ELSE {})

Failed(ev) == UNION {GeneFailed(ev, g) : g \in DOMAIN ev.res}

Init == l = 1
Step == /\ l <= Len(Trace)
        /\ \A c \in Failed(Trace[l]) : PrintT(<<"REJECT", Trace[l].id, c>>)
        /\ l' = l + 1
Done == l = Len(Trace) + 1 /\ PrintT(<<"DONE", Len(Trace)>>) /\ l' = l + 1
Next == Step \/ Done
Spec == Init /\ [][Next]_l
=============================================================================
