---------------------------- MODULE RuleAst_Trace ----------------------------
(* Trace validation for C01: one event = one rule condition evaluated by the   *)
(* real DetectionRule.detect on every gene of a scene.                          *)
EXTENDS RuleAst, TLC, Json, IOUtils
VARIABLE l
Trace == ndJsonDeserialize(IOEnv.TRACE_FILE)

GeneFailedOf(ev, r, g, site) ==
    LET met == Eval(ev.scene, ev.tree, g, FALSE)
        why == Reasons(ev.scene, ev.tree, g)
        seen == {r.matches[i] : i \in DOMAIN r.matches}
    IN  IF r.exc # "" THEN {site \o "/no_exception:" \o r.exc}
        ELSE (IF r.met # met THEN {site \o "/met_is_documented_formula"} ELSE {})
             \cup (IF (r.met /\ seen # {}) # (met /\ why # {}) THEN {site \o "/anchoring_iff_true_and_own_reason"} ELSE {})
             \cup (IF r.met /\ met /\ seen # {} /\ why # {} /\ seen # why THEN {site \o "/reasons_are_own_profiles"} ELSE {})

(* res: the rule asked directly with every gene of the scene on offer; pipe: the rule as apply_cluster_rules asks it on a
   real record, with the neighbours that function has gathered for the rule's cutoff - the answers have to be the same *)
Failed(ev) == UNION {GeneFailedOf(ev, ev.res[g], g, "detect") : g \in DOMAIN ev.res}
              \cup UNION {GeneFailedOf(ev, ev.pipe[g], g, "apply_cluster_rules") : g \in DOMAIN ev.pipe}

Init == l = 1
Step == /\ l <= Len(Trace)
        /\ \A c \in Failed(Trace[l]) : PrintT(<<"REJECT", Trace[l].id, c>>)
        /\ l' = l + 1
Done == l = Len(Trace) + 1 /\ PrintT(<<"DONE", Len(Trace)>>) /\ l' = l + 1
Next == Step \/ Done
Spec == Init /\ [][Next]_l
=============================================================================
