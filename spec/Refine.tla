------------------------------- MODULE Refine -------------------------------
(***************************************************************************)
(* Property C13: refinement of raw profile hits on one protein, and the    *)
(* per-gene competition between detection profiles.                        *)
(*                                                                         *)
(* Part 1  refine_hmmscan_results   hit  [p, s, e, sc, ev]                  *)
(*         prof[p] = [len, reg, ord]  (profile length, "regulator" in the   *)
(*         name, rank of the name in string order)                          *)
(* Part 2  hmmer.remove_overlapping hit  [p, s, e, sc]                      *)
(*         prof[p] = [cut, ord]                                             *)
(* Part 3  filter_results / filter_result_multiple   hit [g, p, s, e, sc]   *)
(*                                                                         *)
(* All positions are half-open residue ranges s..e-1 on the protein, sc is *)
(* the bit score, ev the e-value on an integer scale (smaller is better).  *)
(* The relations say what a result must satisfy; they never prescribe the  *)
(* one result the current implementation happens to compute.  Each part    *)
(* also has a constructive reference (to show the relation satisfiable)    *)
(* and Part 1 an implementation-shaped model of the greedy single pass.    *)
(***************************************************************************)
EXTENDS Integers, Sequences, FiniteSets

RangeOf(seq) == {seq[i] : i \in DOMAIN seq}
MinOf(S) == CHOOSE x \in S : \A y \in S : x <= y
MaxOf(S) == CHOOSE x \in S : \A y \in S : x >= y
Max2(a, b) == IF a >= b THEN a ELSE b
Min2(a, b) == IF a <= b THEN a ELSE b
Count(seq, x) == Cardinality({i \in DOMAIN seq : seq[i] = x})
SameBag(a, b) == Len(a) = Len(b) /\ \A x \in RangeOf(a) \cup RangeOf(b) : Count(a, x) = Count(b, x)

(* lexicographic order on integer tuples of equal length *)
LexLess(a, b) == \E k \in DOMAIN a : a[k] < b[k] /\ \A m \in 1..(k - 1) : a[m] = b[m]
(* stable sort of a sequence by precomputed keys (keys[i] belongs to seq[i]) *)
StableSortBy(seq, keys) ==
    LET n == Len(seq)
        Prec(i, j) == LexLess(keys[i], keys[j]) \/ (keys[i] = keys[j] /\ i < j)
    IN  [k \in 1..n |-> seq[CHOOSE i \in 1..n : Cardinality({j \in 1..n : Prec(j, i)}) = k - 1]]
(* a set as the sequence ascending in a key that is total on the set *)
SortSetBy(S, Key(_)) ==
    [k \in 1..Cardinality(S) |-> CHOOSE x \in S : Cardinality({y \in S : LexLess(Key(y), Key(x))}) = k - 1]

RECURSIVE SubSeqFrom(_, _, _, _)
SubSeqFrom(a, b, i, j) == IF i > Len(a) THEN TRUE
                          ELSE IF j > Len(b) THEN FALSE
                          ELSE IF a[i] = b[j] THEN SubSeqFrom(a, b, i + 1, j + 1)
                          ELSE SubSeqFrom(a, b, i, j + 1)
IsSubSeq(a, b) == SubSeqFrom(a, b, 1, 1)

HLen(h) == h.e - h.s
OvSize(a, b) == Max2(0, Min2(a.e, b.e) - Max2(a.s, b.s))

(***************************************************************************)
(* Part 1 -- refinement                                                     *)
(***************************************************************************)
Hit(p, s, e, sc, ev) == [p |-> p, s |-> s, e |-> e, sc |-> sc, ev |-> ev]
PLen(prof, h) == prof[h.p].len
IsReg(prof, h) == prof[h.p].reg

(* The documented numbers, in integer arithmetic:
     margin      20 % of the longer of the two profiles
     one domain  a fragment may join a merge while it ends less than 1.5 profile lengths
                 after the start of the merge
     complete    longer than half the profile; fallback: longer than a third          *)
(* "overlap" exactly as _remove_overlapping documents it: the later hit starts before the end of
   the earlier one minus the margin *)
Beyond(prof, first, second) == 5 * (first.e - second.s) > Max2(PLen(prof, first), PLen(prof, second))
(* with equal starts either hit can be "the earlier one": weak = under some reading (enough to
   justify dropping), strong = under every reading (two kept hits must not do this) *)
OverlapWeak(prof, a, b) == (a.s <= b.s /\ Beyond(prof, a, b)) \/ (b.s <= a.s /\ Beyond(prof, b, a))
OverlapStrong(prof, a, b) == (a.s <= b.s => Beyond(prof, a, b)) /\ (b.s <= a.s => Beyond(prof, b, a))
Mergeable(prof, start, f) == 2 * (f.e - start) < 3 * PLen(prof, f)
Complete(prof, h) == 2 * HLen(h) > PLen(prof, h)
AboveFallback(prof, h) == 3 * HLen(h) > PLen(prof, h)
(* proportional length of o >= that of m *)
AtLeastAsComplete(prof, o, m) == HLen(o) * PLen(prof, m) >= HLen(m) * PLen(prof, o)

(* the merge of a set of same-profile fragments spans them and carries their best score and e-value *)
MergeOf(F) == LET any == CHOOSE x \in F : TRUE
              IN  Hit(any.p, MinOf({x.s : x \in F}), MaxOf({x.e : x \in F}),
                      MaxOf({x.sc : x \in F}), MinOf({x.ev : x \in F}))
(* fragments close enough to be one domain: all but one leftmost fragment end within 1.5 profile
   lengths of the start of the merge; a single hit is the trivial group *)
ValidGroup(prof, F) ==
    /\ F # {}
    /\ \A x, y \in F : x.p = y.p
    /\ LET start == MinOf({x.s : x \in F})
       IN  \E f0 \in F : f0.s = start /\ \A f \in F \ {f0} : Mergeable(prof, start, f)
Groups(prof, H) ==
    UNION {{F \in SUBSET {x \in H : x.p = p} : ValidGroup(prof, F)} : p \in {x.p : x \in H}}

(* RefineOK as the set of failed clauses (empty = the relation holds).  H: set of input hits, out:
   the returned sequence.  A dropped hit h is justified through some group F containing it (F =
   {h} is always one) whose merge M
     - is in the result (h was absorbed), or
     - is overlapped beyond the margin by a kept hit that does not score lower (DESIGN 5: the
       statement leaves the ranking open and the code keeps the earlier hit on equal scores, so a
       tie justifies either choice), or
     - is incomplete while a kept hit is at least as complete, or is below the documented
       fallback threshold (a regulator only if something was kept at all).                   *)
RefineClauses(prof, H, out) ==
    LET O == RangeOf(out)
        GM == {<<F, MergeOf(F)>> : F \in Groups(prof, H)}
        Cands == {gm[2] : gm \in GM}
        JustifiedGroup(F, M) ==
            \/ Cardinality(F) >= 2 /\ M \in O
            \/ \E o \in O : o # M /\ OverlapWeak(prof, o, M) /\ o.sc >= M.sc
            \/ /\ ~Complete(prof, M)
               /\ \/ \E o \in O : o # M /\ AtLeastAsComplete(prof, o, M)
                  \/ ~AboveFallback(prof, M) /\ (O = {} => ~IsReg(prof, M))
        Justified(h) == h \in O \/ \E gm \in GM : h \in gm[1] /\ JustifiedGroup(gm[1], gm[2])
        CompleteOut == {o \in O : Complete(prof, o)}
    IN  (IF \E i \in 1..(Len(out) - 1) : out[i].s > out[i + 1].s THEN {"sorted_by_position"} ELSE {})
        \cup (IF \E i, j \in DOMAIN out : i < j /\ OverlapStrong(prof, out[i], out[j])
              THEN {"no_overlap_beyond_margin"} ELSE {})
        \cup (IF \E o \in O : o \notin Cands THEN {"output_is_input_or_merge"} ELSE {})
        \cup (IF \E h \in H : ~Justified(h) THEN {"dropped_hit_justified"} ELSE {})
        \cup (IF CompleteOut # {} /\ CompleteOut # O THEN {"no_incomplete_beside_complete"} ELSE {})
        \cup (IF CompleteOut = {} /\ O # {}
                 /\ ~(Len(out) = 1 /\ (AboveFallback(prof, out[1]) \/ IsReg(prof, out[1])))
              THEN {"fallback_is_single_documented"} ELSE {})
RefineOK(prof, H, out) == RefineClauses(prof, H, out) = {}

(* --- constructive reference: order-free by construction ------------------------------------ *)
TotalKey(prof, h) == <<h.s, h.e, 0 - h.sc, prof[h.p].ord, h.ev>>
RankKey(prof, h) == <<0 - h.sc, h.s, h.e, prof[h.p].ord, h.ev>>

RECURSIVE ChainsFrom(_, _, _, _, _)
ChainsFrom(prof, seq, i, cur, acc) ==
    IF i > Len(seq) THEN acc \cup {cur}
    ELSE IF Mergeable(prof, MinOf({x.s : x \in cur}), seq[i])
         THEN ChainsFrom(prof, seq, i + 1, cur \cup {seq[i]}, acc)
         ELSE ChainsFrom(prof, seq, i + 1, {seq[i]}, acc \cup {cur})
RefChains(prof, H) ==
    UNION {LET seq == SortSetBy({x \in H : x.p = p}, LAMBDA h : TotalKey(prof, h))
           IN  ChainsFrom(prof, seq, 2, {seq[1]}, {}) : p \in {x.p : x \in H}}

RECURSIVE KernelFrom(_, _, _, _)
KernelFrom(prof, seq, i, kept) ==
    IF i > Len(seq) THEN kept
    ELSE KernelFrom(prof, seq, i + 1,
                    IF \E k \in kept : OverlapWeak(prof, k, seq[i]) THEN kept ELSE kept \cup {seq[i]})

(* merge every chain of fragments, let the complete candidates compete by score, fall back as
   documented when nothing is complete *)
RefRefine(prof, H) ==
    IF H = {} THEN <<>>
    ELSE
    LET cands == {MergeOf(F) : F \in RefChains(prof, H)}
        complete == {c \in cands : Complete(prof, c)}
        ByPos(S) == SortSetBy(S, LAMBDA h : TotalKey(prof, h))
    IN  IF complete # {}
        THEN ByPos(KernelFrom(prof, SortSetBy(complete, LAMBDA h : RankKey(prof, h)), 1, {}))
        ELSE LET longest == CHOOSE c \in cands : \A d \in cands :
                                /\ AtLeastAsComplete(prof, c, d)
                                /\ (AtLeastAsComplete(prof, d, c) /\ d # c)
                                       => LexLess(TotalKey(prof, c), TotalKey(prof, d))
                 regs == {c \in cands : IsReg(prof, c)}
             IN  IF AboveFallback(prof, longest) THEN <<longest>>
                 ELSE IF regs # {} THEN <<ByPos(regs)[1]>>
                 ELSE <<>>

(* --- implementation-shaped model of the current design ------------------------------------- *)
(* set -> list in arbitrary order `seq` -> stable sort by start only -> single greedy passes that
   look at the last kept hit only.  fix.total: sort by a total key (start, best score, longest,
   name, e-value); fix.span: a merge spans its
   fragments; fix.chains: every finished merge chain of a profile is kept, not just the last.    *)
NoFix == [total |-> FALSE, span |-> FALSE, chains |-> FALSE]
AllFix == [total |-> TRUE, span |-> TRUE, chains |-> TRUE]

ImplSort(prof, seq, fix) ==
    StableSortBy(seq, [i \in DOMAIN seq |->
        IF fix.total THEN <<seq[i].s, 0 - seq[i].sc, 0 - seq[i].e, prof[seq[i].p].ord, seq[i].ev>>
        ELSE <<seq[i].s>>])

ImplMerge(x, y, fix) ==
    IF fix.span THEN Hit(x.p, Min2(x.s, y.s), Max2(x.e, y.e), Max2(x.sc, y.sc), Min2(x.ev, y.ev))
    ELSE IF x.s < y.s THEN Hit(x.p, x.s, y.e, Max2(x.sc, y.sc), Min2(x.ev, y.ev))
    ELSE Hit(x.p, y.s, x.e, Max2(x.sc, y.sc), Min2(x.ev, y.ev))

RECURSIVE ImplRO(_, _, _, _)
ImplRO(prof, seq, i, acc) ==
    IF i > Len(seq) THEN acc
    ELSE LET prev == acc[Len(acc)]
             cur == seq[i]
         IN  IF Beyond(prof, prev, cur)
             THEN (IF cur.sc > prev.sc THEN ImplRO(prof, seq, i + 1, [acc EXCEPT ![Len(acc)] = cur])
                   ELSE ImplRO(prof, seq, i + 1, acc))
             ELSE ImplRO(prof, seq, i + 1, Append(acc, cur))
ImplRemoveOverlapping(prof, seq) == IF seq = <<>> THEN <<>> ELSE ImplRO(prof, seq, 2, <<seq[1]>>)

RECURSIVE ImplChain(_, _, _, _, _, _)
ImplChain(prof, cat, i, merged, closed, fix) ==
    IF i > Len(cat) THEN Append(closed, merged)
    ELSE IF 2 * (cat[i].e - merged.s) < 3 * PLen(prof, merged)
         THEN ImplChain(prof, cat, i + 1, ImplMerge(merged, cat[i], fix), closed, fix)
         ELSE ImplChain(prof, cat, i + 1, cat[i], IF fix.chains THEN Append(closed, merged) ELSE closed, fix)
RECURSIVE ImplCats(_, _, _, _, _)
ImplCats(prof, seq, firsts, k, fix) ==
    IF k > Len(firsts) THEN <<>>
    ELSE LET cat == SelectSeq(seq, LAMBDA h : h.p = seq[firsts[k]].p)
         IN  ImplChain(prof, cat, 2, cat[1], <<>>, fix) \o ImplCats(prof, seq, firsts, k + 1, fix)
ImplMergeDomainList(prof, seq, fix) ==
    LET firstIdx == {i \in DOMAIN seq : \A j \in 1..(i - 1) : seq[j].p # seq[i].p}
        firsts == SortSetBy(firstIdx, LAMBDA i : <<i>>)
        remaining == ImplCats(prof, seq, firsts, 1, fix)
    IN  StableSortBy(remaining, [i \in DOMAIN remaining |-> <<remaining[i].s>>])

RECURSIVE ImplMN(_, _, _, _, _)
ImplMN(prof, seq, i, acc, fix) ==
    IF i > Len(seq) THEN acc
    ELSE LET last == acc[Len(acc)]
             cur == seq[i]
         IN  IF cur.p # last.p THEN ImplMN(prof, seq, i + 1, Append(acc, cur), fix)
             ELSE IF 2 * (cur.e - last.s) < 3 * PLen(prof, cur)
                  THEN ImplMN(prof, seq, i + 1, [acc EXCEPT ![Len(acc)] = ImplMerge(last, cur, fix)], fix)
                  ELSE ImplMN(prof, seq, i + 1, Append(acc, cur), fix)
ImplMergeNeighbours(prof, seq, fix) == IF seq = <<>> THEN <<>> ELSE ImplMN(prof, seq, 2, <<seq[1]>>, fix)

ImplRemoveIncomplete(prof, seq) ==
    LET complete == SelectSeq(seq, LAMBDA h : Complete(prof, h))
    IN  IF complete # <<>> \/ seq = <<>> THEN complete
        ELSE LET best == MinOf({i \in DOMAIN seq : \A j \in DOMAIN seq : AtLeastAsComplete(prof, seq[i], seq[j])})
                 regs == {i \in DOMAIN seq : IsReg(prof, seq[i])}
             IN  IF AboveFallback(prof, seq[best]) THEN <<seq[best]>>
                 ELSE IF regs # {} THEN <<seq[MinOf(regs)]>>
                 ELSE <<>>

ImplRefine(prof, seq, neighbour, fix) ==
    LET sorted == ImplSort(prof, seq, fix)
    IN  ImplRemoveIncomplete(prof,
            IF neighbour THEN ImplMergeNeighbours(prof, ImplRemoveOverlapping(prof, sorted), fix)
            ELSE ImplRemoveOverlapping(prof, ImplMergeDomainList(prof, sorted, fix)))

PermsOf(S) == {f \in [1..Cardinality(S) -> S] : \A i, j \in DOMAIN f : i # j => f[i] # f[j]}
(* f(pi(input)) = f(input) for every permutation pi of the input *)
PermInvariant(F(_), S) == Cardinality({F(p) : p \in PermsOf(S)}) <= 1

(***************************************************************************)
(* Part 2 -- hmmer.remove_overlapping                                       *)
(***************************************************************************)
(* documented ranking: highest score normalised by the profile cutoff (cutoff/score ascending),
   longest hit, earliest start, identifier ascending.  Scores and cutoffs are positive.        *)
NormLess(prof, a, b) == prof[a.p].cut * b.sc < prof[b.p].cut * a.sc
Better(prof, a, b) ==
    \/ NormLess(prof, a, b)
    \/ /\ ~NormLess(prof, b, a)
       /\ \/ HLen(a) > HLen(b)
          \/ HLen(a) = HLen(b) /\ (a.s < b.s \/ (a.s = b.s /\ prof[a.p].ord < prof[b.p].ord))
(* "overlap by more than the limit".  Must: the two hits share more than `limit` residues.
   May: the code's documented test (each hit reaches at least `limit` residues into the other's
   span), which also fires for overlap = limit and for a short hit nested in a better one.      *)
ConflictMust(limit, a, b) == OvSize(a, b) > limit
ConflictMay(limit, a, b) == a.e - b.s >= limit /\ b.e - a.s >= limit

NoOverlapClauses(prof, limit, hits, out) ==
    LET O == RangeOf(out)
        H == RangeOf(hits)
    IN  (IF \E i \in 1..(Len(out) - 1) : out[i].s > out[i + 1].s THEN {"sorted_by_position"} ELSE {})
        \cup (IF ~(O \subseteq H) THEN {"outputs_are_inputs"} ELSE {})
        \cup (IF \E h \in O : Count(out, h) > Count(hits, h) THEN {"no_hit_returned_twice"} ELSE {})
        \cup (IF \E i, j \in DOMAIN out : i < j /\ ConflictMust(limit, out[i], out[j])
              THEN {"no_overlap_beyond_limit"} ELSE {})
        \cup (IF \E h \in H \ O : ~\E o \in O : Better(prof, o, h) /\ ConflictMay(limit, o, h)
              THEN {"dropped_hit_justified"} ELSE {})

Conflict(limit, a, b, must) == IF must THEN ConflictMust(limit, a, b) ELSE ConflictMay(limit, a, b)
NoOverlapOK(prof, limit, hits, out) == NoOverlapClauses(prof, limit, hits, out) = {}

RECURSIVE NoOvKernel(_, _, _, _, _)
NoOvKernel(limit, seq, i, kept, must) ==
    IF i > Len(seq) THEN kept
    ELSE NoOvKernel(limit, seq, i + 1,
                    IF \E k \in kept : Conflict(limit, k, seq[i], must) THEN kept ELSE kept \cup {seq[i]}, must)
RankSeq(prof, S) ==
    [k \in 1..Cardinality(S) |-> CHOOSE x \in S : Cardinality({y \in S : Better(prof, y, x)}) = k - 1]
ByStart(prof, S) == SortSetBy(S, LAMBDA h : <<h.s, h.e, h.sc, prof[h.p].ord>>)
(* greedy in ranking order; must = TRUE / FALSE picks the narrow / wide reading of "overlap" *)
RefNoOverlap(prof, limit, H, must) == NoOvKernel(limit, RankSeq(prof, H), 1, {}, must)

(* implementation shape: the sweep that first splits the hits into groups *)
RECURSIVE ImplGroups(_, _, _, _, _, _)
ImplGroups(limit, seq, i, cur, maxEnd, acc) ==
    IF i > Len(seq) THEN acc \cup {cur}
    ELSE IF maxEnd - limit < seq[i].s
         THEN ImplGroups(limit, seq, i + 1, {seq[i]}, seq[i].e, acc \cup {cur})
         ELSE ImplGroups(limit, seq, i + 1, cur \cup {seq[i]}, Max2(maxEnd, seq[i].e), acc)
ImplNoOverlap(prof, limit, H) ==
    LET seq == SortSetBy(H, LAMBDA h : <<h.s, h.e, h.sc, prof[h.p].ord>>)
        groups == ImplGroups(limit, seq, 2, {seq[1]}, seq[1].e, {})
    IN  UNION {RefNoOverlap(prof, limit, G, FALSE) : G \in groups}

(***************************************************************************)
(* Part 3 -- competition between equivalent profiles on one gene            *)
(***************************************************************************)
CompeteLimit == 20
Linked(a, b) == a # b /\ OvSize(a, b) > CompeteLimit
RECURSIVE Reach(_, _)
Reach(M, S) == LET T == S \cup {y \in M : \E x \in S : Linked(x, y)}
               IN  IF T = S THEN S ELSE Reach(M, T)
(* overlap group of h among the members M: everything linked to it through overlaps *)
Comp(M, h) == Reach(M, {h})
(* an equivalence group E competes on gene g when the gene has hits of two of its profiles *)
ActivePairs(H, groups) ==
    {ge \in {h.g : h \in H} \X groups :
        Cardinality({h.p : h \in {x \in H : x.g = ge[1]}} \cap ge[2]) >= 2}
Members(H, ge) == {h \in H : h.g = ge[1] /\ h.p \in ge[2]}

(* filter_results.  The statement's "overlapping group" is read as the connected component; since
   the code grows groups pairwise, whether two hits of a chain that do not overlap each other may
   both survive is left open: the best of every component must survive, survivors of a component
   never overlap each other, everything dropped is outscored (ties allowed) by a survivor of its
   component, nothing outside a competing group is touched.                                  *)
FilterClauses(groups, hits, out, byid) ==
    LET H == RangeOf(hits)
        O == RangeOf(out)
        Act == ActivePairs(H, groups)
        Dropped == {h \in H : Count(hits, h) > Count(out, h)}
    IN  (IF ~IsSubSeq(out, hits) THEN {"survivors_in_input_order"} ELSE {})
        \cup (IF \E ge \in Act : \E h \in Members(H, ge) :
                    LET C == Comp(Members(H, ge), h)
                    IN  ~\E o \in O \cap C : o.sc = MaxOf({x.sc : x \in C})
              THEN {"best_of_overlap_group_survives"} ELSE {})
        \cup (IF \E ge \in Act : \E i, j \in DOMAIN out :
                    /\ i < j /\ out[i] \in Members(H, ge) /\ out[j] \in Members(H, ge)
                    /\ OvSize(out[i], out[j]) > CompeteLimit
              THEN {"survivors_do_not_overlap"} ELSE {})
        \cup (IF \E h \in Dropped : ~\E ge \in Act :
                    /\ h \in Members(H, ge)
                    /\ \E o \in O \cap Comp(Members(H, ge), h) : o.sc >= h.sc
              THEN {"dropped_only_if_outscored_in_group"} ELSE {})
        \cup (IF ~SameBag(out, byid) THEN {"by_id_matches_results"} ELSE {})

(* filter_result_multiple: one best hit per profile and gene, sorted by position *)
MultipleClauses(hits, out, byid) ==
    LET H == RangeOf(hits)
        O == RangeOf(out)
        Keys == {<<h.g, h.p>> : h \in H}
    IN  (IF \E i \in 1..(Len(out) - 1) : out[i].s > out[i + 1].s THEN {"sorted_by_position"} ELSE {})
        \cup (IF ~(O \subseteq H) THEN {"outputs_are_inputs"} ELSE {})
        \cup (IF \/ Len(out) # Cardinality(Keys)
                 \/ \E k \in Keys :
                      LET idx == {i \in DOMAIN out : <<out[i].g, out[i].p>> = k}
                      IN  \/ Cardinality(idx) # 1
                          \/ \E i \in idx : out[i].sc # MaxOf({h.sc : h \in {x \in H : <<x.g, x.p>> = k}})
              THEN {"one_best_per_profile_per_gene"} ELSE {})
        \cup (IF ~SameBag(out, byid) THEN {"by_id_matches_results"} ELSE {})

CompeteOK(groups, hits, out) == FilterClauses(groups, hits, out, out) = {}
OneBestPerProfileOK(hits, out) == MultipleClauses(hits, out, out) = {}

(* references: position-first total order on hits that differ in more than the profile *)
CompKey(h) == <<0 - h.sc, h.s, h.e>>
BestOf(C) == CHOOSE x \in C : \A y \in C : ~LexLess(CompKey(y), CompKey(x))
RefFilter(groups, hits) ==
    LET H == RangeOf(hits)
        Act == ActivePairs(H, groups)
    IN  SelectSeq(hits, LAMBDA h : \A ge \in Act : h \in Members(H, ge) => h = BestOf(Comp(Members(H, ge), h)))
RefMultiple(hits) ==
    LET H == RangeOf(hits)
        best == {BestOf({x \in H : x.g = k[1] /\ x.p = k[2]}) : k \in {<<h.g, h.p>> : h \in H}}
        idx == {i \in DOMAIN hits : hits[i] \in best /\ \A j \in 1..(i - 1) : hits[j] # hits[i]}
        sel == SortSetBy(idx, LAMBDA i : <<i>>)
        chosen == [k \in DOMAIN sel |-> hits[sel[k]]]
    IN  StableSortBy(chosen, [k \in DOMAIN chosen |-> <<chosen[k].s>>])
=============================================================================
