----------------------------- MODULE Refine_MC -----------------------------
(* Generator + self-consistency for C13.  Every reachable state is one input (a set of at most  *)
(* MaxHits hits of the chosen family's universe, built in ascending Code order so that each set  *)
(* is generated once); the dump of a run is the list of cases replayed against the real code.    *)
(* Invariants: the relations are satisfiable (the constructive references satisfy them), the     *)
(* repaired implementation-shaped model is order-free, and -- as negative controls that must be  *)
(* violated -- the implementation shape before the repairs is order-dependent (P5), loses hits   *)
(* through chained replacement (P14), shrinks merges (P24) and keeps only the last merged domain *)
(* of a profile in default mode.                                                                  *)
EXTENDS Refine, TLC
CONSTANTS Family, Uni, Scores, MaxHits, Genes
VARIABLES hits

RefProf == [a |-> [len |-> 4, reg |-> FALSE, ord |-> 1], b_regulator |-> [len |-> 8, reg |-> TRUE, ord |-> 2]]
NoOvProf == [a |-> [cut |-> 1, ord |-> 1], b |-> [cut |-> 2, ord |-> 2]]
NoOvLimits == {2, 3}
CompGroups == {{"p", "q"}}
CompOrd == [p |-> 1, q |-> 2, r |-> 3]
GeneOrd == [g1 |-> 1, g2 |-> 2]

(* a: margin = any shared residue, complete >= 3, fallback 2, merge while end - start <= 5
   b: margin = 2 shared residues, complete >= 5, fallback 3..4, merge while end - start <= 11 *)
Ivs == CASE Uni = "r8" -> {<<0, 2>>, <<0, 5>>, <<1, 3>>, <<3, 5>>, <<3, 8>>, <<4, 5>>, <<6, 11>>, <<8, 13>>}
         [] Uni = "r12" -> {<<0, 2>>, <<0, 5>>, <<0, 8>>, <<1, 3>>, <<2, 7>>, <<3, 5>>, <<3, 8>>, <<4, 5>>,
                            <<5, 13>>, <<6, 11>>, <<8, 13>>, <<10, 12>>}
         [] Uni = "n8" -> {<<0, 4>>, <<0, 6>>, <<2, 4>>, <<2, 6>>, <<3, 5>>, <<4, 8>>, <<5, 9>>, <<6, 12>>}
         [] Uni = "n11" -> {<<0, 4>>, <<0, 6>>, <<1, 12>>, <<2, 4>>, <<2, 6>>, <<3, 5>>, <<3, 7>>, <<4, 8>>, <<5, 9>>,
                            <<6, 12>>, <<8, 10>>}
         [] Uni = "c6" -> {<<0, 50>>, <<10, 40>>, <<29, 80>>, <<30, 80>>, <<59, 110>>, <<60, 100>>}
         [] Uni = "c8" -> {<<0, 50>>, <<0, 110>>, <<10, 40>>, <<29, 80>>, <<30, 80>>, <<59, 110>>, <<60, 100>>,
                           <<89, 130>>}

Universe ==
    CASE Family = "refine" -> {Hit(p, iv[1], iv[2], sc, 4 - sc) : p \in DOMAIN RefProf, iv \in Ivs, sc \in Scores}
      [] Family = "nooverlap" -> {[p |-> p, s |-> iv[1], e |-> iv[2], sc |-> sc] : p \in DOMAIN NoOvProf, iv \in Ivs, sc \in Scores}
      [] Family = "compete" -> {[g |-> g, p |-> p, s |-> iv[1], e |-> iv[2], sc |-> sc] :
                                    g \in Genes, p \in DOMAIN CompOrd, iv \in Ivs, sc \in Scores}
Code(h) ==
    CASE Family = "refine" -> ((RefProf[h.p].ord * 32 + h.s) * 32 + h.e) * 8 + h.sc
      [] Family = "nooverlap" -> ((NoOvProf[h.p].ord * 32 + h.s) * 32 + h.e) * 8 + h.sc
      [] Family = "compete" -> (((GeneOrd[h.g] * 4 + CompOrd[h.p]) * 256 + h.s) * 256 + h.e) * 8 + h.sc

ASSUME PrintT(<<"CONSTS", [refprof |-> RefProf, noovprof |-> NoOvProf, limits |-> NoOvLimits, groups |-> CompGroups,
                           universe |-> Cardinality(Universe)]>>)

Init == hits = {}
Add == /\ Cardinality(hits) < MaxHits
       /\ \E h \in Universe : (\A x \in hits : Code(x) < Code(h)) /\ hits' = hits \cup {h}
Next == Add
Spec == Init /\ [][Next]_hits

ByCode(S) == SortSetBy(S, LAMBDA h : <<Code(h)>>)
RevSeq(seq) == [i \in 1..Len(seq) |-> seq[Len(seq) + 1 - i]]
TotalOnly == [NoFix EXCEPT !.total = TRUE]

(* --- refinement ------------------------------------------------------------------------------ *)
RefineSat == Family = "refine" => RefineOK(RefProf, hits, RefRefine(RefProf, hits))
(* sorting by a total key is enough to make the greedy passes order-free *)
FixedOrderFree == Family = "refine" =>
    \A nb \in BOOLEAN : PermInvariant(LAMBDA p : ImplRefine(RefProf, p, nb, TotalOnly), hits)
(* with the three small repairs only the chained-replacement clauses can still fail *)
FixedDesignResidual == Family = "refine" =>
    \A nb \in BOOLEAN : RefineClauses(RefProf, hits, ImplRefine(RefProf, ByCode(hits), nb, AllFix))
                            \subseteq {"dropped_hit_justified", "no_overlap_beyond_margin"}
(* negative controls (each must be violated) *)
NC_OrderFree == Family = "refine" =>
    \A nb \in BOOLEAN : PermInvariant(LAMBDA p : ImplRefine(RefProf, p, nb, NoFix), hits)
AllComplete == \A h \in hits : Complete(RefProf, h)
NC_ChainJustified == (Family = "refine" /\ AllComplete) =>
    "dropped_hit_justified" \notin RefineClauses(RefProf, hits, ImplRefine(RefProf, ByCode(hits), TRUE, AllFix))
NC_MergeSpans == Family = "refine" =>
    "output_is_input_or_merge" \notin
        RefineClauses(RefProf, hits, ImplRefine(RefProf, ByCode(hits), FALSE, [AllFix EXCEPT !.span = FALSE]))
NC_AllChainsKept == (Family = "refine" /\ AllComplete /\ Cardinality(hits) <= 2) =>
    "dropped_hit_justified" \notin
        RefineClauses(RefProf, hits, ImplRefine(RefProf, ByCode(hits), FALSE, [AllFix EXCEPT !.chains = FALSE]))

(* --- hmmer.remove_overlapping ------------------------------------------------------------------ *)
NoOvSat == (Family = "nooverlap" /\ hits # {}) => \A limit \in NoOvLimits :
    /\ NoOverlapClauses(NoOvProf, limit, ByCode(hits), ByStart(NoOvProf, RefNoOverlap(NoOvProf, limit, hits, FALSE))) = {}
    /\ NoOverlapClauses(NoOvProf, limit, ByCode(hits), ByStart(NoOvProf, RefNoOverlap(NoOvProf, limit, hits, TRUE))) = {}
(* the documented ranking is total, and the group sweep of the implementation is sound *)
NoOvRankTotal == Family = "nooverlap" => \A x, y \in hits : x # y => (Better(NoOvProf, x, y) # Better(NoOvProf, y, x))
NoOvSweepSound == (Family = "nooverlap" /\ hits # {}) => \A limit \in NoOvLimits :
    ImplNoOverlap(NoOvProf, limit, hits) = RefNoOverlap(NoOvProf, limit, hits, FALSE)
MustImpliesMay == Family = "nooverlap" => \A x, y \in hits : \A limit \in NoOvLimits :
    ConflictMust(limit, x, y) => ConflictMay(limit, x, y)

(* --- competition ------------------------------------------------------------------------------- *)
CompeteSat == Family = "compete" =>
    LET seq == ByCode(hits)
        f == RefFilter(CompGroups, seq)
        m == RefMultiple(seq)
    IN  /\ CompeteOK(CompGroups, seq, f)
        /\ OneBestPerProfileOK(seq, m)
        /\ OneBestPerProfileOK(f, RefMultiple(f))
CompeteRefOrderFree == Family = "compete" =>
    RangeOf(RefFilter(CompGroups, ByCode(hits))) = RangeOf(RefFilter(CompGroups, RevSeq(ByCode(hits))))
=============================================================================
