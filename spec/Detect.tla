------------------------------- MODULE Detect -------------------------------
(***************************************************************************)
(* Protocluster formation (C03) stated declaratively over RuleAst scenes.  *)
(*   rule == [name, cutoff, nbhd, cond, hasExt, ext, sup : Seq(name)]       *)
(*   protocluster (observed) == [rule, core, extent, defs : Seq(gene)]      *)
(* The relation DetectFailed(sc, rules, out) returns the set of violated    *)
(* clauses; it never prescribes more than the statement does (see the       *)
(* sandwiches of DESIGN section 5).                                          *)
(***************************************************************************)
EXTENDS RuleAst

SceneFor(sc, r) == [sc EXCEPT !.cutoff = r.cutoff]
RuleNamed(rules, n) == rules[CHOOSE i \in DOMAIN rules : rules[i].name = n]
LocsOf(sc, G) == {sc.locs[g] : g \in G}

(* anchoring genes and the neighbours that supplied one of the rule's profiles *)
AnchorSet(sc, r) == {g \in Genes(sc) : Anchors(SceneFor(sc, r), r.cond, g)}
Suppliers(sc, r) ==
    {h \in Genes(sc) \ AnchorSet(sc, r) :
        /\ HitProfiles(sc, h) \cap ProfilesOf(r.cond) # {}
        /\ \E g \in AnchorSet(sc, r) : h \in InRange(SceneFor(sc, r), g)}

(* maximal groups whose neighbouring members are closer than the cutoff *)
RECURSIVE Closure(_, _, _, _, _)
Closure(sc, cutoff, strict, T, acc) ==
    LET R == RingOfScene(sc)
        near(g, h) == IF strict THEN Dist(R, sc.locs[g], sc.locs[h]) < cutoff ELSE Dist(R, sc.locs[g], sc.locs[h]) <= cutoff
        nxt == acc \cup {h \in T : \E g \in acc : near(g, h)}
    IN  IF nxt = acc THEN acc ELSE Closure(sc, cutoff, strict, T, nxt)
Chains(sc, cutoff, T) == {Closure(sc, cutoff, TRUE, T, {g}) : g \in T}

GenesInside(sc, loc) == {g \in Genes(sc) : Contains(loc, sc.locs[g])}

(* genes whose own hits satisfy the extender condition *)
ExtSat(sc, r) == IF r.hasExt THEN {g \in Genes(sc) : Eval(SceneFor(sc, r), r.ext, g, TRUE)} ELSE {}

(* the genes at the end of a core that faces a gene e outside it.  Positions are counted along the core from its outer
   start (on a ring: round the ring from there).  Extension is measured from the gene at the end of the core; which gene
   that is, is unambiguous unless genes are nested - so both the gene reaching furthest and the gene starting last (on the
   leading side: reaching least far / starting first) are taken, and an extender has to be close to all of them *)
EndGenes(sc, core, e) ==
    LET R == RingOfScene(sc)
        cs == OuterStart(core)
        pos(x) == IF R.circ THEN (x - cs) % R.L ELSE x - cs
        inside == GenesInside(sc, core)
        first(g) == pos(OuterStart(sc.locs[g]))
        last(g) == pos(OuterEnd(sc.locs[g]) - 1)
        after == pos(OuterStart(sc.locs[e])) - Size(core)                       \* bases between the core's end and e
        before == IF R.circ THEN R.L - 1 - pos(OuterEnd(sc.locs[e]) - 1) ELSE 0 - pos(OuterEnd(sc.locs[e]) - 1) - 1
        trailing == IF R.circ THEN after <= before ELSE pos(OuterStart(sc.locs[e])) >= 0
    IN  IF inside = {} THEN {}
        ELSE IF trailing
        THEN {g \in inside : last(g) = MaxOf({last(h) : h \in inside})} \cup {g \in inside : first(g) = MaxOf({first(h) : h \in inside})}
        ELSE {g \in inside : first(g) = MinOf({first(h) : h \in inside})} \cup {g \in inside : last(g) = MinOf({last(h) : h \in inside})}

(* core of a protocluster built from the chains Cs (a set of gene sets):
   without extenders: the connect-relation on exactly the chain's genes;
   with extenders: the connect-relation on the chain's genes plus some extender genes E, each
   reachable from the chain in steps of at most the cutoff through chain/extender genes; and no
   extender gene that is closer than the cutoff to the gene(s) at the end of the core facing it may be left out *)
CoreFailed(sc, r, Cs, core) ==
    LET R == RingOfScene(sc)
        base == UNION Cs
        cands == ExtSat(sc, r) \ base
        okE(E) == /\ ConnectClause(R, LocsOf(sc, base \cup E), core) = "ok"
                  /\ E \subseteq Closure(sc, r.cutoff, FALSE, base \cup E, base)
        (* a group that needs half the ring or more has no unique smallest span (C04): then the core only has
           to be a well-formed span covering the group, and it may swallow further groups *)
        target == base \cup (cands \cap GenesInside(sc, core))
        big == R.circ /\ 2 * ShortestCoverLen(R, FootprintOfAll(R, LocsOf(sc, target))) >= R.L
        (* ... but one plain case is decided even then (since round 7): a single group of a rule without extenders that does
           not close on itself around the ring (a stretch of at least the cutoff is left uncovered) has one smallest span,
           the one leaving that stretch out, however long the group is; a core running the other way round would take in
           genes that belong to no group of the rule (defect P31, repaired) *)
        closed == R.circ /\ R.L - ShortestCoverLen(R, FootprintOfAll(R, LocsOf(sc, base))) < r.cutoff
        plain == ~r.hasExt /\ Cardinality(Cs) = 1 /\ ~closed
    IN  IF big /\ plain
        THEN (IF SmallestSpanClause(R, LocsOf(sc, base), core) # "ok"
              THEN {"core_is_smallest_span_of_group:" \o SmallestSpanClause(R, LocsOf(sc, base), core)} ELSE {})
        ELSE IF big
        THEN (IF WellFormed(R, core) /\ IsSpan(R, core) THEN {} ELSE {"core_well_formed_span"})
        ELSE IF ~r.hasExt
        (* one chain per protocluster - except that chains whose stretches of record overlap although their genes are not
           within the cutoff of each other (a gene lying in the intron of another one) may share a core: the statement
           counts distances between genes, the code merges overlapping cores *)
        THEN (IF Cardinality(Cs) # 1 /\ ~\A c \in Cs : \E d \in Cs \ {c} : Overlaps(Cover(R, LocsOf(sc, c)), Cover(R, LocsOf(sc, d)))
              THEN {"core_one_chain_per_protocluster"} ELSE {})
             \cup (IF ConnectClause(R, LocsOf(sc, base), core) # "ok"
                   THEN {"core_is_smallest_span_of_group:" \o ConnectClause(R, LocsOf(sc, base), core)} ELSE {})
        ELSE (IF ~\E E \in SUBSET cands : okE(E) THEN {"core_is_span_of_group_plus_extenders"} ELSE {})
             \cup (IF \E e \in cands : /\ ~Contains(core, sc.locs[e])
                                       /\ \A g \in EndGenes(sc, core, e) : Dist(R, sc.locs[e], sc.locs[g]) < r.cutoff
                   THEN {"extender_within_cutoff_admitted"} ELSE {})

(* the protocluster is the core extended by the neighbourhood on both sides: clipped on a line, wrapped
   on a ring; when the two extensions would meet on a ring the statement is silent (the code leaves a one-base
   seam opposite the core to keep a two-part span): the extent only has to cover the core up to that base *)
ExtentFailed(sc, r, core, extent) ==
    LET R == RingOfScene(sc) IN
    IF ~WellFormed(R, extent) \/ ~IsSpan(R, extent) THEN {"extent_well_formed_span"}
    ELSE IF R.circ /\ Size(core) + 2 * r.nbhd >= R.L
         THEN (IF Cardinality(Bases(core) \ Bases(extent)) <= 1 THEN {} ELSE {"extent_covers_core"})
    ELSE IF ExtendClause(R, core, r.nbhd, extent) # "ok" THEN {"extent_is_core_plus_neighbourhood:" \o ExtendClause(R, core, r.nbhd, extent)}
    ELSE {}

(* observed protoclusters of one rule against one choice T of the rule's gene set *)
RuleFailedFor(sc, rules, r, out, T) ==
    LET R == RingOfScene(sc)
        chains == Chains(sc, r.cutoff, T)
        mine == {i \in DOMAIN out : out[i].rule = r.name}
        f(i) == {c \in chains : \A g \in c : Contains(out[i].core, sc.locs[g])}
        matched == UNION {f(i) : i \in mine}
        lost == chains \ matched
        supCores == UNION {{Cover(R, LocsOf(sc, c)) : c \in Chains(sc, RuleNamed(rules, r.sup[k]).cutoff,
                                                                    AnchorSet(sc, RuleNamed(rules, r.sup[k])))}
                           : k \in DOMAIN r.sup}
        supCoresWide == UNION {{Cover(R, LocsOf(sc, c)) : c \in Chains(sc, RuleNamed(rules, r.sup[k]).cutoff,
                                   AnchorSet(sc, RuleNamed(rules, r.sup[k])) \cup Suppliers(sc, RuleNamed(rules, r.sup[k])))}
                           : k \in DOMAIN r.sup}
        mustDrop(c) == \E q \in supCores : Contains(q, Cover(R, LocsOf(sc, c))) /\ 2 * Size(q) < R.L
        (* a superior group needing half the ring or more has no unique span: its real core may be anywhere *)
        (* likewise an inferior group needing half the ring or more: its real core may run the other way round and
           take in a superior core that the shortest cover does not touch *)
        bigChain(c) == R.circ /\ 2 * ShortestCoverLen(R, FootprintOfAll(R, LocsOf(sc, c))) >= R.L
        mayDrop(c) == \E q \in supCores \cup supCoresWide :
                          Overlaps(q, Cover(R, LocsOf(sc, c))) \/ (R.circ /\ 2 * Size(q) >= R.L) \/ bigChain(c)
    IN  UNION {IF f(i) = {} THEN {"no_protocluster_without_anchoring_group"}
               ELSE CoreFailed(sc, r, f(i), out[i].core) : i \in mine}
        \cup UNION {ExtentFailed(sc, r, out[i].core, out[i].extent) : i \in mine}
        \cup (IF \E i, j \in mine : i # j /\ f(i) \cap f(j) # {} THEN {"anchor_in_exactly_one_core"} ELSE {})
        (* the anchoring genes of a protocluster are reported as its defining genes (rules without superiors: an
           inferior rule's domains are deliberately stripped from genes that also satisfy the superior; genes that the
           one-base seam of a whole-record neighbourhood leaves outside the extent are not listed at all) *)
        \cup (IF r.sup = <<>> /\ \E i \in mine : \E g \in (UNION f(i)) \cap AnchorSet(sc, r) \cap GenesInside(sc, out[i].extent) : g \notin SeqSet(out[i].defs)
              THEN {"anchoring_genes_are_defining_genes"} ELSE {})
        \cup (IF \E c \in lost : ~mayDrop(c) THEN {"every_anchoring_group_has_a_protocluster"} ELSE {})
        \cup (IF \E c \in matched : mustDrop(c) THEN {"dropped_when_superior_covers_core"} ELSE {})

(* the rule's gene set is the anchors plus any subset of the suppliers (sandwich) *)
RuleFailed(sc, rules, r, out) ==
    LET A == AnchorSet(sc, r)
        exact == RuleFailedFor(sc, rules, r, out, A)
    IN  IF exact = {} THEN {}
        ELSE IF \E S \in SUBSET Suppliers(sc, r) : S # {} /\ RuleFailedFor(sc, rules, r, out, A \cup S) = {} THEN {}
        ELSE exact

UnknownRules(rules, out) == {i \in DOMAIN out : ~\E k \in DOMAIN rules : rules[k].name = out[i].rule}
DetectFailed(sc, rules, out) ==
    (IF UnknownRules(rules, out) # {} THEN {"protocluster_of_unknown_rule"} ELSE {})
    \cup UNION {RuleFailed(sc, rules, rules[k], out) : k \in DOMAIN rules}

(* implementation-shaped companion of apply_cluster_rules: per gene the rules are visited in order; the window of
   nearby genes is cached per distinct cutoff; in the pre-repair design ("stale") the flag that switches the ring
   distance on was computed only when a window was computed (and only true for a two-part window), so a rule sharing an
   earlier rule's cutoff inherited whatever the previous rule left behind; in the repaired design the flag is simply
   "the record is circular" *)
WindowTwoParts(sc, g, cutoff) ==
    LET R == RingOfScene(sc)
        span == Cover(R, {sc.locs[g]})
        d == IF R.circ THEN MinOf({cutoff, (R.L - Size(span)) \div 2 + 1}) ELSE cutoff
    IN  Len(Extend(R, span, d).parts) > 1
RECURSIVE ImplFlagsFrom(_, _, _, _, _, _, _)
ImplFlagsFrom(sc, g, rules, k, seen, flag, stale) ==
    IF k > Len(rules) THEN <<>>
    ELSE LET fresh == rules[k].cutoff \notin seen
             now == IF ~stale THEN sc.circ
                    ELSE IF fresh THEN (sc.circ /\ WindowTwoParts(sc, g, rules[k].cutoff)) ELSE flag
         IN  <<now>> \o ImplFlagsFrom(sc, g, rules, k + 1, seen \cup {rules[k].cutoff}, now, stale)
ImplAnchors(sc, rules, k, stale) ==
    {g \in Genes(sc) : sc.hits[g] # <<>> /\
        LET flags == ImplFlagsFrom(sc, g, rules, 1, {}, FALSE, stale)
        IN  Anchors([SceneFor(sc, rules[k]) EXCEPT !.circ = flags[k]], rules[k].cond, g)}

(* constructive reference (no extenders, suppliers ignored, superiors: drop iff covered): used to show
   the relation satisfiable and as the expected GeneView for the metamorphic checks of C07 *)
RefProtos(sc, rules) ==
    LET R == RingOfScene(sc)
        cores(r) == {Cover(R, LocsOf(sc, c)) : c \in Chains(sc, r.cutoff, AnchorSet(sc, r))}
        covered(r, core) == \E k \in DOMAIN r.sup : \E q \in cores(RuleNamed(rules, r.sup[k])) : Contains(q, core)
    IN  UNION {{[rule |-> rules[k].name, core |-> c] : c \in {c \in cores(rules[k]) : ~covered(rules[k], c)}} : k \in DOMAIN rules}
=============================================================================
