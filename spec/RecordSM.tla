------------------------------ MODULE RecordSM ------------------------------
(***************************************************************************)
(* The Record as a state machine (C06, and the build-order half of C08).   *)
(*                                                                          *)
(* universe  uni == [L, circ, genes : Seq([loc, core_for : Seq(product)]), *)
(*                   areas : Seq([kind : "proto"|"sub", core, extent,       *)
(*                                product])]                                *)
(* abstract state (ids are indices into the universe):                      *)
(*   s == [genes : SUBSET gene ids, protos, subs : SUBSET area ids,          *)
(*         cands : set of [kind, members : SUBSET proto ids, loc],           *)
(*         regions : set of [cands : SUBSET s.cands, subs : SUBSET s.subs,   *)
(*                           loc]]                                           *)
(* calls: [op |-> "AddGene"|"AddProto"|"AddSub"|"CreateCandidates"|          *)
(*               "CreateRegions"|"ClearRegions"|"ClearSubs"|"ClearCands"|    *)
(*               "ClearProtos", arg |-> id or 0]                             *)
(***************************************************************************)
EXTENDS Candidates

RU(uni) == [L |-> uni.L, circ |-> uni.circ]
Empty == [genes |-> {}, protos |-> {}, subs |-> {}, cands |-> {}, regions |-> {}]

(* the arrangement of the protoclusters currently in the record, in the vocabulary of Candidates.tla; ids are
   kept by building the arrangement over *all* areas and restricting the index set afterwards *)
ProtoSeq(S) == CHOOSE f \in [1..Cardinality(S) -> S] : \A i \in 1..(Cardinality(S) - 1) : f[i] < f[i + 1]
ArrOf(uni, s) ==
    LET order == ProtoSeq(s.protos)
        gorder == ProtoSeq(s.genes)
    IN  [L |-> uni.L, circ |-> uni.circ,
         protos |-> [i \in DOMAIN order |-> [core |-> uni.areas[order[i]].core, extent |-> uni.areas[order[i]].extent,
                                             product |-> uni.areas[order[i]].product]],
         genes |-> [i \in DOMAIN gorder |-> uni.genes[gorder[i]]]]
(* model candidates for the protoclusters present (reference result, ids translated back) *)
ModelCands(uni, s) ==
    IF s.protos = {} THEN {}
    ELSE LET order == ProtoSeq(s.protos)
             arr == ArrOf(uni, s)
         IN  {[kind |-> c.kind, members |-> {order[m] : m \in c.members},
               loc |-> ExtSpan(arr, c.members)] : c \in RefCands(arr)}

(* regions: one per connected component of "areas overlap" over candidate clusters and subregions *)
AreaLoc(uni, a) == IF a.t = "cand" THEN a.c.loc ELSE uni.areas[a.s].extent
AreasOf(s) == {[t |-> "cand", c |-> c, s |-> 0] : c \in s.cands} \cup {[t |-> "sub", c |-> [kind |-> "", members |-> {}, loc |-> Simple(0, 1, 1)], s |-> x] : x \in s.subs}
RegionComponents(uni, s) ==
    LET areas == AreasOf(s)
        edges == {e \in areas \X areas : e[1] # e[2] /\ Overlaps(AreaLoc(uni, e[1]), AreaLoc(uni, e[2]))}
    IN  Components(areas, edges)
ModelRegions(uni, s) ==
    {[cands |-> {a.c : a \in {a \in comp : a.t = "cand"}}, subs |-> {a.s : a \in {a \in comp : a.t = "sub"}},
      loc |-> Cover(RU(uni), {AreaLoc(uni, a) : a \in comp})] : comp \in RegionComponents(uni, s)}

(* deterministic model step (used by the model-checking module) *)
Recreate(uni, s) == IF s.regions # {} THEN [s EXCEPT !.regions = ModelRegions(uni, [s EXCEPT !.regions = {}])] ELSE s
ModelStep(uni, s, call) ==
    CASE call.op = "AddGene" -> [s EXCEPT !.genes = @ \cup {call.arg}]
      [] call.op = "AddProto" -> [s EXCEPT !.protos = @ \cup {call.arg}]
      [] call.op = "AddSub" -> [s EXCEPT !.subs = @ \cup {call.arg}]
      [] call.op = "CreateCandidates" -> [s EXCEPT !.cands = ModelCands(uni, s)]
      [] call.op = "CreateRegions" -> [s EXCEPT !.regions = ModelRegions(uni, s)]
      [] call.op = "ClearRegions" -> [s EXCEPT !.regions = {}]
      [] call.op = "ClearSubs" -> Recreate(uni, [s EXCEPT !.subs = {}])
      [] call.op = "ClearCands" -> Recreate(uni, [s EXCEPT !.cands = {}])
      [] call.op = "ClearProtos" -> Recreate(uni, [s EXCEPT !.protos = {}, !.cands = {}])
(* which calls the harness issues in which states (calling create_* twice is not part of the documented use) *)
Enabled(uni, s, call) ==
    CASE call.op = "AddGene" -> call.arg \in DOMAIN uni.genes /\ call.arg \notin s.genes
      [] call.op = "AddProto" -> call.arg \in DOMAIN uni.areas /\ uni.areas[call.arg].kind = "proto" /\ call.arg \notin s.protos
      [] call.op = "AddSub" -> call.arg \in DOMAIN uni.areas /\ uni.areas[call.arg].kind = "sub" /\ call.arg \notin s.subs
      [] call.op = "CreateCandidates" -> s.cands = {} /\ s.protos # {} /\ s.regions = {}
      [] call.op = "CreateRegions" -> s.regions = {} /\ (s.cands # {} \/ s.subs # {})
      [] call.op = "ClearRegions" -> s.regions # {}
      [] call.op = "ClearSubs" -> s.subs # {}
      [] call.op = "ClearCands" -> s.cands # {}
      [] call.op = "ClearProtos" -> s.protos # {}

(* --- the properties, on abstract states ----------------------------------------------------------- *)
RegionsDisjoint(s) == \A r1, r2 \in s.regions : r1 # r2 => ~Overlaps(r1.loc, r2.loc)
EveryAreaInOneRegion(s) ==
    /\ \A c \in s.cands : Cardinality({r \in s.regions : c \in r.cands}) = 1
    /\ \A x \in s.subs : Cardinality({r \in s.regions : x \in r.subs}) = 1
SameRegionIffChain(uni, s) ==
    \A comp \in RegionComponents(uni, s) :
        \E r \in s.regions : /\ r.cands = {a.c : a \in {a \in comp : a.t = "cand"}}
                             /\ r.subs = {a.s : a \in {a \in comp : a.t = "sub"}}
(* the span covering exactly one component.  The areas of a component overlap in a chain, so the bases they occupy form
   one stretch of the record (on a ring possibly all of it): the region occupies exactly those bases - also when that
   stretch is longer than half a ring, where connecting arbitrary locations is allowed to give more (Ring!ConnectClause);
   a region that reached further could take in areas no chain links to it *)
RegionSpanFailed(uni, r) ==
    LET locs == {c.loc : c \in r.cands} \cup {uni.areas[x].extent : x \in r.subs}
        R == RU(uni)
    IN  IF ~WellFormed(R, r.loc) THEN "result_well_formed"
        ELSE IF ~IsSpan(R, r.loc) THEN "result_is_span"
        ELSE IF Bases(r.loc) # FootprintOfAll(R, locs) THEN "exactly_the_bases_of_its_areas"
        ELSE "ok"
AnyBigComponent(uni, s) == FALSE
ChainSharesRegion(uni, s) ==
    \A comp \in RegionComponents(uni, s) :
        \E r \in s.regions : /\ {a.c : a \in {a \in comp : a.t = "cand"}} \subseteq r.cands
                             /\ {a.s : a \in {a \in comp : a.t = "sub"}} \subseteq r.subs
RegionsBuiltFailed(uni, s) ==
    (IF ~ChainSharesRegion(uni, s) THEN {"chain_of_overlapping_areas_shares_a_region"} ELSE {})
    \cup (IF ~AnyBigComponent(uni, s) /\ (~SameRegionIffChain(uni, s) \/ Cardinality(s.regions) # Cardinality(RegionComponents(uni, s)))
          THEN {"same_region_iff_chain_of_overlaps"} ELSE {})
    \cup (IF ~EveryAreaInOneRegion(s) THEN {"every_area_in_exactly_one_region"} ELSE {})
    \cup (IF ~RegionsDisjoint(s) THEN {"regions_never_overlap"} ELSE {})
    \cup UNION {IF RegionSpanFailed(uni, r) = "ok" THEN {} ELSE {"region_is_span_of_component:" \o RegionSpanFailed(uni, r)} : r \in s.regions}
=============================================================================
