----------------------------- MODULE Candidates -----------------------------
(***************************************************************************)
(* Candidate cluster formation (C05), stated from the documentation of the *)
(* kinds.  arr == [L, circ, protos : Seq([core, extent, product]),          *)
(*                 genes : Seq([loc, core_for : Seq(product)])]             *)
(* observed candidate == [kind, members : Seq(proto index), loc]            *)
(***************************************************************************)
EXTENDS Ring

P(arr) == DOMAIN arr.protos
RA(arr) == [L |-> arr.L, circ |-> arr.circ]
(* defining genes: inside the core and carrying a core annotation for the product *)
Defs(arr, i) == {g \in DOMAIN arr.genes :
                    /\ Contains(arr.protos[i].core, arr.genes[g].loc)
                    /\ \E k \in DOMAIN arr.genes[g].core_for : arr.genes[g].core_for[k] = arr.protos[i].product}

RECURSIVE ReachSet(_, _)
ReachSet(E, acc) == LET nxt == acc \cup {e[2] : e \in {e \in E : e[1] \in acc}}
                    IN  IF nxt = acc THEN acc ELSE ReachSet(E, nxt)
Components(V, E) == {ReachSet(E, {v}) : v \in V}

CoreSpan(arr, G) == Cover(RA(arr), {arr.protos[i].core : i \in G})
ExtSpan(arr, G) == Cover(RA(arr), {arr.protos[i].extent : i \in G})

(* The documented grouping, computed once per arrangement (LET definitions are evaluated once):
   chemical hybrids: transitive groups sharing a defining gene, plus protoclusters whose core lies inside
     the group's core span;
   interleaved: transitive groups (of hybrids and remaining protoclusters) whose cores overlap;
   neighbouring: transitive groups whose full extents overlap *)
Cand(k, m) == [kind |-> k, members |-> m]
Analysis(arr) ==
    LET defs == [i \in P(arr) |-> Defs(arr, i)]
        share == {e \in P(arr) \X P(arr) : e[1] # e[2] /\ defs[e[1]] \cap defs[e[2]] # {}}
        hbase == {c \in Components(P(arr), share) : Cardinality(c) > 1}
        inbase == UNION hbase
        hyb == {G \cup {i \in P(arr) \ inbase : Contains(CoreSpan(arr, G), arr.protos[i].core)} : G \in hbase}
        units0 == hyb \cup {{i} : i \in P(arr) \ UNION hyb}
        core0 == [u \in units0 |-> CoreSpan(arr, u)]
        cedges == {e \in units0 \X units0 : e[1] # e[2] /\ Overlaps(core0[e[1]], core0[e[2]])}
        icomps == Components(units0, cedges)
        inter == {UNION c : c \in {c \in icomps : Cardinality(c) > 1}}
        units1 == {UNION c : c \in icomps}
        ext1 == [u \in units1 |-> ExtSpan(arr, u)]
        eedges == {e \in units1 \X units1 : e[1] # e[2] /\ Overlaps(ext1[e[1]], ext1[e[2]])}
        ncomps == Components(units1, eedges)
        neigh == {UNION c : c \in {c \in ncomps : Cardinality(c) > 1}}
        groups == {Cand("chemical_hybrid", h) : h \in hyb} \cup {Cand("interleaved", g) : g \in inter}
                  \cup {Cand("neighbouring", g) : g \in neigh}
        gspan == [c \in groups |-> Bases(ExtSpan(arr, c.members))]
        absorbed == UNION hyb \cup UNION inter
        singles == {Cand("single", {i}) : i \in {i \in P(arr) \ absorbed :
                       ~\E c \in groups : i \in c.members /\ gspan[c] = Bases(arr.protos[i].extent)}}
        (* situations the statement does not pin down: two groups of different kinds with identical coordinates
           (the code folds them into the stronger kind) *)
        coincide == \E a, b \in groups : a # b /\ gspan[a] = gspan[b]
        big == \E c \in ncomps : arr.circ /\ 2 * ShortestCoverLen(RA(arr), FootprintOfAll(RA(arr), {arr.protos[i].extent : i \in UNION c})) >= arr.L
    IN  [hyb |-> hyb, inter |-> inter, neigh |-> neigh, groups |-> groups, singles |-> singles,
         (* ... and a group that occupies the whole ring: "identical coordinates" then depends on where the two-part form of
            the whole ring is cut (join(2..L,1..1) and 1..L are the same bases) *)
         loose |-> coincide \/ (arr.circ /\ \E c \in groups : Cardinality(gspan[c]) = arr.L)]
BigGroup(arr, G) == arr.circ /\ 2 * ShortestCoverLen(RA(arr), FootprintOfAll(RA(arr), {arr.protos[i].extent : i \in G})) >= arr.L

SeqSet(s) == {s[i] : i \in DOMAIN s}
View(out) == {Cand(out[i].kind, SeqSet(out[i].members)) : i \in DOMAIN out}
OfKind(S, k) == {c \in S : c.kind = k}

CandFailed(arr, out) ==
    LET seen == View(out)
        an == Analysis(arr)
    IN  (IF UNION {c.members : c \in seen} # P(arr) THEN {"every_protocluster_in_a_candidate"} ELSE {})
        \cup (IF \E i, j \in DOMAIN out : i # j /\ SeqSet(out[i].members) = SeqSet(out[j].members)
                                           /\ Bases(out[i].loc) = Bases(out[j].loc)
              THEN {"no_two_candidates_same_coordinates_and_members"} ELSE {})
        \cup (IF \E i \in DOMAIN out :
                    ConnectClause(RA(arr), {arr.protos[m].extent : m \in SeqSet(out[i].members)}, out[i].loc) # "ok"
              THEN {"location_is_span_of_members"} ELSE {})
        (* the members of a candidate overlap in a chain (of whatever kind), the bases they occupy are one stretch of the
           record and the candidate occupies exactly that stretch, however long (cf. RecordSM!RegionSpanFailed) *)
        \cup (IF \E i \in DOMAIN out : WellFormed(RA(arr), out[i].loc) /\
                    Bases(out[i].loc) # FootprintOfAll(RA(arr), {arr.protos[m].extent : m \in SeqSet(out[i].members)})
              THEN {"location_covers_exactly_its_members"} ELSE {})
        \cup (IF \E c \in seen : c.kind = "single" /\ Cardinality(c.members) # 1 THEN {"single_has_one_member"} ELSE {})
        \cup (IF \E i \in DOMAIN out : Len(out[i].members) # Cardinality(SeqSet(out[i].members))
              THEN {"candidate_lists_each_member_once"} ELSE {})
        \cup (IF an.loose THEN {}
              ELSE (IF OfKind(seen, "chemical_hybrid") # OfKind(an.groups, "chemical_hybrid") THEN {"hybrids_as_documented"} ELSE {})
                   \cup (IF OfKind(seen, "interleaved") # OfKind(an.groups, "interleaved") THEN {"interleaved_as_documented"} ELSE {})
                   \cup (IF OfKind(seen, "neighbouring") # OfKind(an.groups, "neighbouring") THEN {"neighbouring_as_documented"} ELSE {})
                   \cup (IF OfKind(seen, "single") # an.singles THEN {"singles_as_documented"} ELSE {}))

(* canonical form for comparing the outcome across input orders *)
Canon(out) == {[kind |-> out[i].kind, members |-> SeqSet(out[i].members), bases |-> Bases(out[i].loc)] : i \in DOMAIN out}

(* a constructive result for the strict situations (shows the relation satisfiable) *)
RefCands(arr) == LET an == Analysis(arr) IN an.groups \cup an.singles
=============================================================================
