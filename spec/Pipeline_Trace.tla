--------------------------- MODULE Pipeline_Trace ---------------------------
(***************************************************************************)
(* End-to-end conformance of the detection chain: one event = one run of   *)
(* rule detection -> protoclusters added -> candidate clusters -> regions  *)
(* on a scene.  The three stage relations are composed: Detect!DetectFailed *)
(* on the protoclusters, Candidates!CandFailed on the candidate clusters    *)
(* formed from exactly those protoclusters, RecordSM!RegionsBuiltFailed on  *)
(* the regions formed from exactly those candidates, and gene membership.   *)
(*  ev.run == [exc, protos : Seq([rule, core, extent, defs]),               *)
(*             cands : Seq([kind, members : Seq(proto index), loc]),        *)
(*             regions : Seq([loc, cands : Seq(cand index), kids])]         *)
(***************************************************************************)
EXTENDS Detect, TLC, Json, IOUtils, SequencesExt
RS == INSTANCE RecordSM
VARIABLE l
Trace == ndJsonDeserialize(IOEnv.TRACE_FILE)

Rng(s) == {s[i] : i \in DOMAIN s}
(* the arrangement Candidates.tla talks about: the observed protoclusters; a gene is a core gene for a
   product iff it is a defining gene of an observed protocluster of that product *)
ArrOfRun(sc, run) ==
    [L |-> sc.L, circ |-> sc.circ,
     protos |-> [i \in DOMAIN run.protos |-> [core |-> run.protos[i].core, extent |-> run.protos[i].extent, product |-> run.protos[i].rule]],
     genes |-> [g \in DOMAIN sc.locs |->
                  [loc |-> sc.locs[g],
                   core_for |-> LET prods == {run.protos[i].rule : i \in {i \in DOMAIN run.protos : g \in Rng(run.protos[i].defs)}}
                                IN  SetToSeq(prods)]]]
CandRecOf(c) == [kind |-> c.kind, members |-> Rng(c.members), loc |-> c.loc]
StateOfRun(sc, run) ==
    [genes |-> DOMAIN sc.locs, protos |-> DOMAIN run.protos, subs |-> {},
     cands |-> {CandRecOf(run.cands[i]) : i \in DOMAIN run.cands},
     regions |-> {[cands |-> {CandRecOf(run.cands[k]) : k \in Rng(run.regions[i].cands)}, subs |-> {}, loc |-> run.regions[i].loc]
                  : i \in DOMAIN run.regions}]
UniOfRun(sc, run) ==
    [L |-> sc.L, circ |-> sc.circ, genes |-> [g \in DOMAIN sc.locs |-> [loc |-> sc.locs[g], core_for |-> <<>>]],
     areas |-> [i \in DOMAIN run.protos |-> [kind |-> "proto", core |-> run.protos[i].core, extent |-> run.protos[i].extent, product |-> run.protos[i].rule]]]

Failed(ev) ==
    LET sc == ev.scene
        run == ev.run
    IN  IF run.exc # "" THEN {"pipeline/no_exception:" \o run.exc}
        ELSE {"detect/" \o c : c \in DetectFailed(sc, ev.rules, run.protos)}
             \cup (IF run.protos = <<>> THEN (IF run.cands # <<>> \/ run.regions # <<>> THEN {"candidates/none_without_protoclusters"} ELSE {})
                   ELSE {"candidates/" \o c : c \in RS!CandFailed(ArrOfRun(sc, run), run.cands)}
                        \cup {"regions/" \o c : c \in RS!RegionsBuiltFailed(UniOfRun(sc, run), StateOfRun(sc, run))}
                        \cup (IF \E i \in DOMAIN run.regions : Rng(run.regions[i].kids) # {g \in DOMAIN sc.locs : Contains(run.regions[i].loc, sc.locs[g])}
                              THEN {"regions/region_lists_contained_genes"} ELSE {}))

Init == l = 1
Step == /\ l <= Len(Trace)
        /\ \A c \in Failed(Trace[l]) : PrintT(<<"REJECT", Trace[l].id, c>>)
        /\ l' = l + 1
Done == l = Len(Trace) + 1 /\ PrintT(<<"DONE", Len(Trace)>>) /\ l' = l + 1
Next == Step \/ Done
Spec == Init /\ [][Next]_l
=============================================================================
