---------------------------- MODULE SafeWrite_MC ----------------------------
(* Model checking of the results writer (C20 part 1).                         *)
(* A behaviour picks a configuration (sizes, writer, fault) and then runs the  *)
(* writer under a discipline:                                                  *)
(*   "strict"     the documented order: convert all, dumps, open, write        *)
(*   "free"       any order of conversions, but open only when nothing can     *)
(*                fail any more (the relation the trace spec enforces)         *)
(*   "open_first" negative control: the target is opened before converting     *)
(*   "swallow"    negative control: a failed conversion is caught, writer goes *)
(*                on and reports success                                       *)
(* Every configuration (initial state) is a case replayed against the code.   *)
EXTENDS SafeWrite, TLC
CONSTANTS MaxRec, MaxMod, Discipline
VARIABLES c, s
vars == <<c, s>>

G(ev) == CASE Discipline = "strict" -> StrictGuard(c, s, ev)
           [] Discipline = "free" -> Guard(c, s, ev)
           [] Discipline = "open_first" -> OpenFirstGuard(c, s, ev)
           [] Discipline = "swallow" -> SwallowGuard(c, s, ev)

Init == c \in Configs(MaxRec, MaxMod) /\ s = Start(c)

Of(name) == {e \in Events(c) : e.e = name}
Do(ev) == /\ G(ev) = ""
          /\ s' = (IF Discipline = "swallow" /\ ev.e # "Return"
                   THEN [Effect(c, s, ev) EXCEPT !.raised = FALSE] ELSE Effect(c, s, ev))
          /\ UNCHANGED c
Convert == \E ev \in Of("Convert") : Do(ev)
Ser == \E ev \in Of("Ser") : Do(ev)
Open == \E ev \in Of("Open") : Do(ev)
Write == \E ev \in Of("Write") : Do(ev)
Return == \E ev \in Of("Return") : Do(ev)
Next == Convert \/ Ser \/ Open \/ Write \/ Return
Spec == Init /\ [][Next]_vars /\ WF_vars(Next)

FailedImpliesOld == FailedImpliesOldAt(s)
SuccessImpliesNew == SuccessImpliesNewAt(c, s)
FaultImpliesFailed == FaultImpliesFailedAt(c, s)
(* the disk is only ever emptied when the conversion can no longer fail *)
TruncatedOnlyWhenSafe == s.disk # "old" => (~WillFail(c) /\ AllConverted(c, s) /\ AllSerialised(c, s))
(* a fault, once hit, is final: nothing but the report follows *)
RaisedIsFinal == (s.raised /\ s.pc = "run") => s.disk = "old"
(* every run terminates in a verdict *)
Terminates == <>(s.pc # "run")
(* vacuity guards *)
SomeFailure == \E x \in {1} : s.pc = "failed"
=============================================================================
