----------------------------- MODULE Pool_Trace -----------------------------
(* Trace validation for C18.                                                    *)
(* op "call": one real parallel_function(f, args, cpus, timeout) run            *)
(*   c       configuration [n, cpus, out, timeout]                              *)
(*   forced  whether a completion order was forced; sched = that order          *)
(*   ran     the order in which the tasks were seen to complete                  *)
(*   ret     [exc, v]: what the caller got; seq: the same calls made one after   *)
(*           another in the calling process                                      *)
(* op "exec": parallel_execute on n shell commands; codes = exit status per      *)
(*           command (input), hang = commands that outlast the timeout           *)
(* op "transport": records sent through a process boundary; before/after are     *)
(*           the projections of the records                                      *)
(* Clauses starting "machinery/" say the harness failed, "drift/" that the code  *)
(* took a path the model does not have (reported, never an alarm).               *)
EXTENDS Pool, TLC, Json, IOUtils
VARIABLE l
Trace == ndJsonDeserialize(IOEnv.TRACE_FILE)

Tag(op, S) == {op \o "/" \o x : x \in S}

CallFailed(ev) ==
    LET c == ev.c IN
    IF ~WellFormedConfig(c) THEN {"machinery/not_a_configuration"}
    ELSE
    Tag("parallel_function", CallClauses(c, ev.ret))
    \cup (IF ev.ret.exc = "" /\ ev.seq.exc = "" /\ ev.ret.v # ev.seq.v THEN {"parallel_function/same_as_sequential"} ELSE {})
    \cup (IF ev.ret.exc = "ScheduleStuck" THEN {"machinery/schedule_stuck"} ELSE {})
    \cup (IF (Raises(c) = {} /\ (ev.seq.exc # "" \/ ev.seq.v # Expected(c))) \/ (Raises(c) # {} /\ ev.seq.exc = "")
          THEN {"machinery/sequential_baseline_is_not_F"} ELSE {})
    \cup (IF ev.forced /\ VerdictOf(c, ev.sched) \in {"infeasible", "incomplete"}
          THEN {"machinery/schedule_not_a_model_behaviour"} ELSE {})
    \cup (IF ev.forced /\ ~Consistent(ev.sched, ev.ran) THEN {"machinery/schedule_not_enforced"} ELSE {})
    \cup (IF VerdictOf(c, ev.ran) = "infeasible" THEN {"drift/observed_order_not_in_model"} ELSE {})

ExecFailed(ev) ==
    LET hangs == {t \in DOMAIN ev.hang : ev.hang[t]} IN
    (IF hangs # {} /\ ev.timeout /\ ev.ret.exc = "" THEN {"parallel_execute/timeout_surfaces"} ELSE {})
    \cup (IF hangs = {} /\ ev.ret.exc # "" THEN {"parallel_execute/no_exception:" \o ev.ret.exc} ELSE {})
    \cup (IF ev.ret.exc = "" /\ ev.ret.v # ev.codes
          THEN (IF Len(ev.ret.v) # Len(ev.codes) THEN {"parallel_execute/never_a_shorter_list"}
                ELSE {"parallel_execute/results_in_argument_order"})
          ELSE {})
    \cup (IF ~Consistent(ev.sched, ev.ran) THEN {"machinery/schedule_not_enforced"} ELSE {})

(* a failing worker: the gene finder refuses one record of the batch (via "pre_process_error").  before = the error the
   steps raise when applied in this process; after = what the whole pre-processing step does for the configured number
   of workers, "Hang" when it had not come back after a generous deadline *)
FailingTransportFailed(ev) ==
    (IF ev.after.exc = "Hang" THEN {ev.via \o "/worker_failure_surfaces_instead_of_hanging"} ELSE {})
    \cup (IF ev.after.exc = "" THEN {ev.via \o "/worker_failure_surfaces_as_an_error"} ELSE {})
    \cup (IF ev.after.exc \notin {"", "Hang"} /\ ev.after.exc # ev.before_exc THEN {ev.via \o "/same_error_as_in_process"} ELSE {})

TransportFailed(ev) ==
    IF ev.via = "pre_process_error" THEN FailingTransportFailed(ev) ELSE
    (IF ev.after.exc # "" THEN {ev.via \o "/no_exception:" \o ev.after.exc} ELSE {})
    \cup (IF ev.after.exc = "" /\ Len(ev.after.v) # Len(ev.before) THEN {ev.via \o "/never_a_shorter_list"} ELSE {})
    \cup (IF ev.after.exc = "" /\ Len(ev.after.v) = Len(ev.before) /\ ev.after.v # ev.before
          THEN {ev.via \o "/record_content_preserved"} ELSE {})

(* a batch whose tasks each need each_ms on c workers cannot finish before ceil(n/c) * each_ms: when that lower bound
   clearly exceeds the timeout (by 20 %) the caller must get an error (the timeout bounds the whole batch, whatever the
   relative completion order); with one worker the timeout is documented as ignored; a result, when returned, is the
   sequential one *)
TimedFailed(ev) ==
    LET bound == ((ev.n + ev.cpus - 1) \div ev.cpus) * ev.each_ms IN
    (IF ev.cpus > 1 /\ 10 * bound > 12 * ev.timeout_ms /\ ev.ret.exc = "" THEN {"parallel_function/timeout_surfaces"} ELSE {})
    \cup (IF ev.ret.exc = "" /\ ev.ret.v # [i \in 1..ev.n |-> i]
          THEN (IF Len(ev.ret.v) # ev.n THEN {"parallel_function/never_a_shorter_list"} ELSE {"parallel_function/results_in_argument_order"})
          ELSE {})
    \cup (IF 2 * bound < ev.timeout_ms /\ ev.cpus = 1 /\ ev.ret.exc # "" THEN {"parallel_function/no_exception:" \o ev.ret.exc} ELSE {})

Failed(ev) == CASE ev.op = "call" -> CallFailed(ev)
                [] ev.op = "timed" -> TimedFailed(ev)
                [] ev.op = "exec" -> ExecFailed(ev)
                [] ev.op = "transport" -> TransportFailed(ev)
                [] OTHER -> {"trace/unknown_op"}

Init == l = 1
Step == /\ l <= Len(Trace)
        /\ \A x \in Failed(Trace[l]) : PrintT(<<"REJECT", Trace[l].id, x>>)
        /\ l' = l + 1
Done == l = Len(Trace) + 1 /\ PrintT(<<"DONE", Len(Trace)>>) /\ l' = l + 1
Next == Step \/ Done
Spec == Init /\ [][Next]_l
=============================================================================
