--------------------------- MODULE Determinism_MC ---------------------------
(* TLC explores every input set of up to MaxItems items and every pair of       *)
(* iteration orders (= every schedule the interpreter may choose) and checks     *)
(* when a stage is order-free.  The tie-rich inputs it identifies are the        *)
(* non-trivial cases for the differential runs of the real pipeline.             *)
EXTENDS Determinism, TLC
CONSTANTS MaxItems
VARIABLES stage, input, o1, o2
vars == <<stage, input, o1, o2>>

Items == [key : 1..2, val : 1..3]
Inputs == {S \in SUBSET Items : Cardinality(S) <= MaxItems}
Init == stage = 0 /\ input = {} /\ o1 = <<>> /\ o2 = <<>>
PickInput == stage = 0 /\ stage' = 1 /\ input' \in Inputs /\ UNCHANGED <<o1, o2>>
PickOrders == stage = 1 /\ stage' = 2 /\ o1' \in Perms(input) /\ o2' \in Perms(input) /\ UNCHANGED input
Next == PickInput \/ PickOrders
Spec == Init /\ [][Next]_vars

(* a total sort key hides the iteration order: always *)
TotalKeyHidesOrder == stage = 2 => TotalKeySorted(o1) = TotalKeySorted(o2)
(* a partial key hides it exactly when nothing ties *)
PartialKeyHidesOrderIffNoTie == stage = 1 => (OrderFree(SortedBy, input) <=> ~HasTie(input))
(* emitting in iteration order is only safe for at most one item *)
ListingLeaksOrder == stage = 1 => (OrderFree(AsListed, input) <=> Cardinality(input) <= 1)
(* negative control: sorting by a partial key is NOT order-free in general (P5 / P20 / P21 shape) *)
PartialKeyAlwaysFine == stage = 2 => SortedBy(o1) = SortedBy(o2)
=============================================================================
