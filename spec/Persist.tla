------------------------------- MODULE Persist -------------------------------
(***************************************************************************)
(* Persistence of annotated records (C10: GenBank / JSON round trips,       *)
(* C12: per-region GenBank extracts), over the Record state machine.        *)
(*                                                                          *)
(* abstract record                                                          *)
(*   rec == [id, L, circ, seq,                                               *)
(*           feats   : Seq([type, loc, pay, xpay, aux : Seq(loc), dna]),     *)
(*           protos  : Seq([type, loc, pay, xpay, core, num, dna]),          *)
(*           subs    : Seq([type, loc, pay, xpay, num, dna]),                *)
(*           cands   : Seq([type, loc, pay, xpay, num, dna,                  *)
(*                          protos : Seq(index into protos)]),               *)
(*           regions : Seq([type, loc, pay, xpay, num, dna,                  *)
(*                          cands, subs : Seq(index)])]                      *)
(* areas are listed in record order, num is the number the record reports,  *)
(* cross references are list positions (candidate -> protoclusters, region  *)
(* -> candidates / subregions).  pay identifies everything a feature        *)
(* carries besides its coordinates (the payload table of the harness), xpay *)
(* the part of it that does not depend on where the feature sits in its     *)
(* record, aux further locations carried in qualifiers (prepeptide leader / *)
(* core / tail), dna the bases read through the location.                   *)
(***************************************************************************)
EXTENDS RecordSM

Rng(q) == {q[i] : i \in DOMAIN q}

(* two locations are the same when they cover the same bases in the same order on the same strand; a part cut
   into abutting pieces is the same location.  Canonical form: forward-ordered parts with abutting neighbours joined
   (recursion over parts, never over bases: real records have locations of hundreds of bases) *)
RECURSIVE JoinFrom(_, _, _)
JoinFrom(parts, i, acc) ==
    IF i > Len(parts) THEN acc
    ELSE IF Len(acc) > 0 /\ acc[Len(acc)][2] = parts[i][1]
         THEN JoinFrom(parts, i + 1, [acc EXCEPT ![Len(acc)] = <<acc[Len(acc)][1], parts[i][2]>>])
         ELSE JoinFrom(parts, i + 1, Append(acc, parts[i]))
CanonLoc(loc) == [strand |-> loc.strand, parts |-> JoinFrom(Fwd(loc), 1, <<>>)]
SameLoc(a, b) == a = b \/ CanonLoc(a) = CanonLoc(b)
(* an area that covers a whole ring has no first base: `[s:n) + [0:s)` and `[0:n)` are the same area (offset_location leaves a
   location that covers the entire record as it is, "since it'll be the same"); used for areas in region extracts only *)
WCanon(loc) == LET c == CanonLoc(loc)
               IN  IF Len(c.parts) = 2 /\ c.parts[2][1] = 0 /\ c.parts[2][2] = c.parts[1][1]
                   THEN [strand |-> c.strand, parts |-> << <<0, c.parts[1][2]>> >>] ELSE c
CanonLocs(q) == [i \in DOMAIN q |-> CanonLoc(q[i])]

(* --- C10: a round trip is a stuttering step on the abstract record ------------------------------------- *)
FeatKey(f) == [type |-> f.type, loc |-> CanonLoc(f.loc), pay |-> f.pay, aux |-> CanonLocs(f.aux)]
ProtoKey(p) == [loc |-> CanonLoc(p.loc), core |-> CanonLoc(p.core), pay |-> p.pay]
SubKey(x) == [loc |-> CanonLoc(x.loc), pay |-> x.pay]
CandKey(rec, c) == [loc |-> CanonLoc(c.loc), pay |-> c.pay,
                    members |-> {ProtoKey(rec.protos[k]) : k \in Rng(c.protos) \cap DOMAIN rec.protos}]
RegionKey(rec, r) == [loc |-> CanonLoc(r.loc), pay |-> r.pay,
                      cands |-> {CandKey(rec, rec.cands[k]) : k \in Rng(r.cands) \cap DOMAIN rec.cands},
                      subs |-> {SubKey(rec.subs[k]) : k \in Rng(r.subs) \cap DOMAIN rec.subs}]
KeySeq(q, Key(_)) == [i \in DOMAIN q |-> Key(q[i])]

Numbered(q) == \A i \in DOMAIN q : q[i].num = i
RefsResolve(rec) ==
    /\ \A i \in DOMAIN rec.cands : Rng(rec.cands[i].protos) \subseteq DOMAIN rec.protos
    /\ \A i \in DOMAIN rec.regions : /\ Rng(rec.regions[i].cands) \subseteq DOMAIN rec.cands
                                     /\ Rng(rec.regions[i].subs) \subseteq DOMAIN rec.subs

(* the failed clauses of "after is the same abstract record as before" *)
SameRecordFailed(b, a) ==
    IF a = b THEN {}
    ELSE
    (IF a.id # b.id \/ a.L # b.L \/ a.seq # b.seq THEN {"same_sequence"} ELSE {})
    \cup (IF a.circ # b.circ THEN {"same_topology"} ELSE {})
    \cup (IF Len(a.feats) # Len(b.feats) \/ {FeatKey(f) : f \in Rng(a.feats)} # {FeatKey(f) : f \in Rng(b.feats)}
          THEN {"same_features_locations_and_annotations"} ELSE {})
    \cup (IF Len(a.protos) # Len(b.protos) \/ {ProtoKey(p) : p \in Rng(a.protos)} # {ProtoKey(p) : p \in Rng(b.protos)}
          THEN {"same_protoclusters"}
          ELSE IF KeySeq(a.protos, ProtoKey) # KeySeq(b.protos, ProtoKey) THEN {"same_protocluster_numbering"} ELSE {})
    \cup (IF Len(a.subs) # Len(b.subs) \/ {SubKey(p) : p \in Rng(a.subs)} # {SubKey(p) : p \in Rng(b.subs)}
          THEN {"same_subregions"}
          ELSE IF KeySeq(a.subs, SubKey) # KeySeq(b.subs, SubKey) THEN {"same_subregion_numbering"} ELSE {})
    \cup (IF ~RefsResolve(a) THEN {"cross_references_resolve"}
          ELSE (IF Len(a.cands) # Len(b.cands) \/ {CandKey(a, c) : c \in Rng(a.cands)} # {CandKey(b, c) : c \in Rng(b.cands)}
                THEN {"same_candidates_with_same_protoclusters"}
                ELSE IF [i \in DOMAIN a.cands |-> CandKey(a, a.cands[i])] # [i \in DOMAIN b.cands |-> CandKey(b, b.cands[i])]
                     THEN {"same_candidate_numbering"} ELSE {})
               \cup (IF Len(a.regions) # Len(b.regions) \/ {RegionKey(a, r) : r \in Rng(a.regions)} # {RegionKey(b, r) : r \in Rng(b.regions)}
                     THEN {"same_regions_with_same_members"}
                     ELSE IF [i \in DOMAIN a.regions |-> RegionKey(a, a.regions[i])] # [i \in DOMAIN b.regions |-> RegionKey(b, b.regions[i])]
                          THEN {"same_region_numbering"} ELSE {}))
    \cup (IF ~(Numbered(a.protos) /\ Numbered(a.subs) /\ Numbered(a.cands) /\ Numbered(a.regions)) THEN {"numbered_1_to_n_in_record_order"} ELSE {})

(* one round trip rt == [exc, after, out1, out2]; out1 / out2 identify the bytes of the first and of the second output.
   The actions RoundTripGB / RoundTripJSON (Persist_MC) are stuttering steps: AbstractRecord' = AbstractRecord and
   Output' = Output when applied again; an observed round trip is accepted iff it is such a step, i.e. iff this set is empty *)
RoundTripFailed(before, rt) ==
    IF rt.exc # "" THEN {"reloads:" \o rt.exc}
    ELSE SameRecordFailed(before, rt.after)
         \cup (IF rt.out1 # rt.out2 THEN {"first_output_is_a_fixed_point"} ELSE {})

(* --- C12: the region extract ------------------------------------------------------------------------------ *)
RegStart(rloc) == OuterStart(rloc)
RegLen(rloc) == Size(rloc)
(* inside: every part of the location lies in one piece of the region (a two-part region [s,L)+[0,s) is the whole ring) *)
Inside(rloc, loc) == Contains(rloc, loc)
(* a feature in several parts is certainly inside when the stretch from its outer start to its outer end, introns included,
   lies in the region as one arc of the extract.  A feature whose every base is in the region but whose introns leave it
   (or run over the cut of a whole-ring region) cannot be written on the linear extract as the stretch it is in the record:
   the statement does not say whether it counts as "inside", so such a feature may be present or absent (sandwich) *)
InsideF(L, rloc, loc) ==
    /\ Contains(rloc, loc)
    /\ \/ Len(loc.parts) = 1
       \/ ((OuterStart(loc) - RegStart(rloc)) % L) + Cardinality(Footprint([L |-> L, circ |-> TRUE], loc)) <= Size(rloc)
(* the same bases re-expressed on the extract: rotate by -start on the ring of the parent.  A part of a location inside
   the region lies in one piece of the region, so it moves as a whole and lands in 0..n-1; what the origin had cut
   becomes abutting parts, which CanonLoc joins.  (Persist_MC checks that this is Ring!Shift on every generated case.) *)
MovePart(L, p, k) == LET s == (p[1] + k) % L IN <<s, s + (p[2] - p[1])>>
ShiftBy(L, loc, k) == Loc([i \in DOMAIN loc.parts |-> MovePart(L, loc.parts[i], k)], loc.strand)
ShiftIn(L, rloc, loc) == ShiftBy(L, loc, 0 - RegStart(rloc))
ExtractSeq(seq, rloc) ==
    LET L == Len(seq)
        s == RegStart(rloc)
        n == RegLen(rloc)
    IN  [i \in 1..n |-> seq[((s + i - 1) % L) + 1]]

XFeat(L, rloc, f, withDna) == [type |-> f.type, pay |-> f.xpay, loc |-> CanonLoc(ShiftIn(L, rloc, f.loc)),
                               aux |-> [i \in DOMAIN f.aux |-> CanonLoc(ShiftIn(L, rloc, f.aux[i]))],
                               dna |-> IF withDna THEN f.dna ELSE ""]
OFeat(f, withDna) == [type |-> f.type, pay |-> f.xpay, loc |-> CanonLoc(f.loc), aux |-> CanonLocs(f.aux),
                      dna |-> IF withDna THEN f.dna ELSE ""]
XProto(L, rloc, p) == [pay |-> p.xpay, loc |-> WCanon(ShiftIn(L, rloc, p.loc)), core |-> CanonLoc(ShiftIn(L, rloc, p.core))]
OProto(p) == [pay |-> p.xpay, loc |-> WCanon(p.loc), core |-> CanonLoc(p.core)]
XSub(L, rloc, x) == [pay |-> x.xpay, loc |-> WCanon(ShiftIn(L, rloc, x.loc))]
OSub(x) == [pay |-> x.xpay, loc |-> WCanon(x.loc)]
XCand(rec, rloc, c) == [pay |-> c.xpay, loc |-> WCanon(ShiftIn(rec.L, rloc, c.loc)),
                        members |-> {XProto(rec.L, rloc, rec.protos[k]) : k \in Rng(c.protos)}]
OCand(rec, c) == [pay |-> c.xpay, loc |-> WCanon(c.loc),
                  members |-> {OProto(rec.protos[k]) : k \in Rng(c.protos) \cap DOMAIN rec.protos}]

(* what the extract of region number r of rec has to contain *)
Expected(rec, r) ==
    LET reg == rec.regions[r]
        rloc == reg.loc
        inF == {f \in Rng(rec.feats) : InsideF(rec.L, rloc, f.loc)}
        mayF == {f \in Rng(rec.feats) : Inside(rloc, f.loc)} \ inF
        inP == {p \in Rng(rec.protos) : Inside(rloc, p.loc)}
        inS == {x \in Rng(rec.subs) : Inside(rloc, x.loc)}
        inC == {c \in Rng(rec.cands) : Inside(rloc, c.loc)}
    IN  [n |-> RegLen(rloc),
         feats |-> {XFeat(rec.L, rloc, f, FALSE) : f \in inF},
         featsDna |-> {XFeat(rec.L, rloc, f, TRUE) : f \in inF},
         nfeats |-> Cardinality(inF),
         mayFeats |-> {XFeat(rec.L, rloc, f, FALSE) : f \in mayF}, mayFeatsDna |-> {XFeat(rec.L, rloc, f, TRUE) : f \in mayF},
         nmay |-> Cardinality(mayF),
         protos |-> {XProto(rec.L, rloc, p) : p \in inP}, nprotos |-> Cardinality(inP),
         subs |-> {XSub(rec.L, rloc, x) : x \in inS}, nsubs |-> Cardinality(inS),
         cands |-> {XCand(rec, rloc, c) : c \in inC}, ncands |-> Cardinality(inC),
         regionCands |-> {XCand(rec, rloc, rec.cands[k]) : k \in Rng(reg.cands)},
         regionSubs |-> {XSub(rec.L, rloc, rec.subs[k]) : k \in Rng(reg.subs)},
         regionPay |-> reg.xpay]

(* the numbers as written in the file (readable even when the file cannot be loaded) *)
FileNumbersFailed(raw) ==
    (IF Rng(raw.protos) # 1..Len(raw.protos) \/ Rng(raw.cands) # 1..Len(raw.cands) \/ Rng(raw.subs) # 1..Len(raw.subs)
     THEN {"file_numbers_areas_from_1"} ELSE {})
    \cup (IF ~(Rng(raw.region_cands) \subseteq Rng(raw.cands) /\ Rng(raw.region_subs) \subseteq Rng(raw.subs)
               /\ Rng(raw.cores) \subseteq Rng(raw.protos)
               /\ \A i \in DOMAIN raw.cand_protos : Rng(raw.cand_protos[i]) \subseteq Rng(raw.protos))
          THEN {"file_cross_references_use_the_new_numbers"} ELSE {})

(* ex == [exc, rec, seq, raw, pairs] : the reloaded region file; parent == the record before writing; pseq its bases *)
ExtractFailed(parent, pseq, r, ex) ==
    IF ex.exc # "" THEN {"file_loads_again:" \o ex.exc} \cup FileNumbersFailed(ex.raw)
    ELSE
    LET want == Expected(parent, r)
        got == ex.rec
        rloc == parent.regions[r].loc
        (* a feature of the sandwich (every base inside the region, an intron leaving it): when written, it has to be of the
           same type on the same bases; how its parts are joined on the extract is not judged (the intron is not there) *)
        mayOk(f) == \E m \in want.mayFeats : m.type = f.type /\ Bases(m.loc) = Bases(f.loc)
        known(f, dna) == OFeat(f, dna) \in (IF dna THEN want.featsDna \cup want.mayFeatsDna ELSE want.feats \cup want.mayFeats)
                         \/ mayOk(OFeat(f, FALSE))
    IN  FileNumbersFailed(ex.raw)
        \cup (IF ex.seq # ExtractSeq(pseq, rloc) THEN {"sequence_is_the_region_sequence"} ELSE {})
        \cup (IF ~(want.feats \subseteq {OFeat(f, FALSE) : f \in Rng(got.feats)}) THEN {"every_feature_inside_is_present_covering_the_same_bases"} ELSE {})
        \cup (IF ~(\A f \in Rng(got.feats) : known(f, FALSE))
                 \/ Len(got.feats) < want.nfeats \/ Len(got.feats) > want.nfeats + want.nmay THEN {"nothing_but_the_features_inside"} ELSE {})
        \cup (IF /\ want.feats \subseteq {OFeat(f, FALSE) : f \in Rng(got.feats)}
                 /\ \A f \in Rng(got.feats) : known(f, FALSE)
                 /\ ~(/\ want.featsDna \subseteq {OFeat(f, TRUE) : f \in Rng(got.feats)}
                      /\ \A f \in Rng(got.feats) : known(f, TRUE))
              THEN {"shifted_features_read_the_same_bases"} ELSE {})
        \cup (IF Len(got.protos) # want.nprotos \/ {OProto(p) : p \in Rng(got.protos)} # want.protos THEN {"protoclusters_and_core_locations_shifted"} ELSE {})
        \cup (IF Len(got.subs) # want.nsubs \/ {OSub(x) : x \in Rng(got.subs)} # want.subs THEN {"subregions_shifted"} ELSE {})
        \cup (IF ~RefsResolve(got) THEN {"cross_references_resolve"}
              ELSE (IF Len(got.cands) # want.ncands \/ {OCand(got, c) : c \in Rng(got.cands)} # want.cands
                    THEN {"candidates_keep_their_protoclusters"} ELSE {})
                   \cup (IF Len(got.regions) # 1 THEN {"exactly_one_region"}
                         ELSE LET g == got.regions[1] IN
                              (IF WCanon(g.loc) # CanonLoc(Simple(0, want.n, 1)) THEN {"region_spans_the_extract"} ELSE {})
                              \cup (IF g.xpay # want.regionPay THEN {"region_keeps_its_products_and_rules"} ELSE {})
                              \cup (IF {OCand(got, got.cands[k]) : k \in Rng(g.cands)} # want.regionCands
                                       \/ {OSub(got.subs[k]) : k \in Rng(g.subs)} # want.regionSubs
                                    THEN {"region_has_the_same_members"} ELSE {})))
        \cup (IF ~(Numbered(got.protos) /\ Numbered(got.subs) /\ Numbered(got.cands) /\ Numbered(got.regions)) THEN {"numbered_1_to_n_in_record_order"} ELSE {})
        (* base-for-base coverage of the features that can be told apart by name *)
        \cup (IF \E i \in DOMAIN ex.pairs : ~SameLoc(ex.pairs[i].new, ShiftIn(parent.L, rloc, ex.pairs[i].orig))
              THEN {"named_features_cover_the_same_bases"} ELSE {})

(* --- the abstract record of a RecordSM state (model side) ------------------------------------------------ *)
(* record order: by start (origin-spanning first), longer first; ties by universe id *)
RECURSIVE SortedBy(_, _)
SortedBy(S, key) ==
    IF S = {} THEN <<>>
    ELSE LET m == CHOOSE x \in S : \A y \in S : key[x] = key[y] \/ key[x][1] < key[y][1]
                                                \/ (key[x][1] = key[y][1] /\ key[x][2] < key[y][2])
                                                \/ (key[x][1] = key[y][1] /\ key[x][2] = key[y][2] /\ key[x][3] <= key[y][3])
         IN  <<m>> \o SortedBy(S \ {m}, key)
OrderKey(loc, tie) == <<IF Bridges(loc) THEN 0 - 1 ELSE OuterStart(loc), 0 - Size(loc), tie>>
IndexOf(q, x) == CHOOSE i \in DOMAIN q : q[i] = x

AbsRec(uni, s) ==
    LET pOrder == SortedBy(s.protos, [a \in s.protos |-> OrderKey(uni.areas[a].extent, a)])
        sOrder == SortedBy(s.subs, [a \in s.subs |-> OrderKey(uni.areas[a].extent, a)])
        cKey == [c \in s.cands |-> OrderKey(c.loc, Cardinality(c.members))]
        cOrder == SortedBy(s.cands, cKey)
        rOrder == SortedBy(s.regions, [r \in s.regions |-> OrderKey(r.loc, 0)])
        gOrder == SortedBy(s.genes, [g \in s.genes |-> OrderKey(uni.genes[g].loc, g)])
    IN  [id |-> "model", L |-> uni.L, circ |-> uni.circ, seq |-> "",
         feats |-> [i \in DOMAIN gOrder |-> [type |-> "CDS", loc |-> uni.genes[gOrder[i]].loc, pay |-> gOrder[i], xpay |-> gOrder[i],
                                             aux |-> <<>>, dna |-> ""]],
         protos |-> [i \in DOMAIN pOrder |-> [type |-> "protocluster", loc |-> uni.areas[pOrder[i]].extent, core |-> uni.areas[pOrder[i]].core,
                                              pay |-> pOrder[i], xpay |-> pOrder[i], num |-> i, dna |-> ""]],
         subs |-> [i \in DOMAIN sOrder |-> [type |-> "subregion", loc |-> uni.areas[sOrder[i]].extent, pay |-> sOrder[i], xpay |-> sOrder[i],
                                            num |-> i, dna |-> ""]],
         cands |-> [i \in DOMAIN cOrder |-> [type |-> "cand_cluster", loc |-> cOrder[i].loc,
                                             pay |-> 0, xpay |-> 0, num |-> i, dna |-> "",
                                             protos |-> SortedBy({IndexOf(pOrder, m) : m \in cOrder[i].members},
                                                                 [k \in {IndexOf(pOrder, m) : m \in cOrder[i].members} |-> <<k, 0, 0>>])]],
         regions |-> [i \in DOMAIN rOrder |-> [type |-> "region", loc |-> rOrder[i].loc, pay |-> 0, xpay |-> 0, num |-> i, dna |-> "",
                                               cands |-> SortedBy({IndexOf(cOrder, c) : c \in rOrder[i].cands},
                                                                  [k \in {IndexOf(cOrder, c) : c \in rOrder[i].cands} |-> <<k, 0, 0>>]),
                                               subs |-> SortedBy({IndexOf(sOrder, x) : x \in rOrder[i].subs},
                                                                 [k \in {IndexOf(sOrder, x) : x \in rOrder[i].subs} |-> <<k, 0, 0>>])]]]

(* the extract as a record of its own (what a faithful writer followed by a faithful reader produces) *)
ModelExtract(rec, r, sign) ==
    LET reg == rec.regions[r]
        rloc == reg.loc
        n == RegLen(rloc)
        move(loc) == ShiftBy(rec.L, loc, sign * RegStart(rloc))
        keepP == SelectSeq(rec.protos, LAMBDA p : Inside(rloc, p.loc))
        keepS == SelectSeq(rec.subs, LAMBDA x : Inside(rloc, x.loc))
        keepC == SelectSeq(rec.cands, LAMBDA c : Inside(rloc, c.loc))
        keepF == SelectSeq(rec.feats, LAMBDA f : InsideF(rec.L, rloc, f.loc))
        newP(old) == CHOOSE i \in DOMAIN keepP : keepP[i].num = old
        newS(old) == CHOOSE i \in DOMAIN keepS : keepS[i].num = old
        newC(old) == CHOOSE i \in DOMAIN keepC : keepC[i].num = old
    IN  [id |-> rec.id, L |-> n, circ |-> FALSE, seq |-> "",
         feats |-> [i \in DOMAIN keepF |-> [keepF[i] EXCEPT !.loc = move(@)]],
         protos |-> [i \in DOMAIN keepP |-> [keepP[i] EXCEPT !.loc = move(@), !.core = move(@), !.num = i]],
         subs |-> [i \in DOMAIN keepS |-> [keepS[i] EXCEPT !.loc = move(@), !.num = i]],
         cands |-> [i \in DOMAIN keepC |-> [keepC[i] EXCEPT !.loc = move(@), !.num = i,
                                                              !.protos = [k \in DOMAIN @ |-> newP(@[k])]]],
         regions |-> << [reg EXCEPT !.loc = Simple(0, n, 1), !.num = 1,
                                    !.cands = [k \in DOMAIN @ |-> newC(@[k])], !.subs = [k \in DOMAIN @ |-> newS(@[k])]] >>]

(* meta-properties of the expectation (checked in Persist_MC) *)
ExtractWellFormed(e) ==
    LET R == [L |-> e.L, circ |-> FALSE]
        all == {f.loc : f \in Rng(e.feats)} \cup {p.loc : p \in Rng(e.protos)} \cup {p.core : p \in Rng(e.protos)}
               \cup {x.loc : x \in Rng(e.subs)} \cup {c.loc : c \in Rng(e.cands)}
    IN  /\ \A loc \in all : WellFormed(R, loc) /\ Bases(loc) \subseteq 0..(e.L - 1)
        /\ Numbered(e.protos) /\ Numbered(e.subs) /\ Numbered(e.cands) /\ Numbered(e.regions)
        /\ RefsResolve(e)
        /\ Len(e.regions) = 1 /\ \A loc \in all : Contains(e.regions[1].loc, loc)
BasesPreserved(rec, r, e) ==
    LET s == RegStart(rec.regions[r].loc)
        back(loc) == {(x + s) % rec.L : x \in Bases(loc)}
    IN  /\ {back(f.loc) : f \in Rng(e.feats)} = {Bases(f.loc) : f \in {f \in Rng(rec.feats) : InsideF(rec.L, rec.regions[r].loc, f.loc)}}
        /\ {<<back(p.loc), back(p.core)>> : p \in Rng(e.protos)}
             = {<<Bases(p.loc), Bases(p.core)>> : p \in {p \in Rng(rec.protos) : Inside(rec.regions[r].loc, p.loc)}}
        /\ \A f \in Rng(e.feats) : Size(f.loc) = Cardinality(back(f.loc))
(* the part-wise move used above is the rotation of Ring.tla (the operator C04 validates offset_location against) *)
MoveIsRingShift(rec, r) ==
    LET rloc == rec.regions[r].loc
        R == [L |-> rec.L, circ |-> TRUE]
        locs == {f.loc : f \in {f \in Rng(rec.feats) : InsideF(rec.L, rloc, f.loc)}} \cup {p.loc : p \in {p \in Rng(rec.protos) : Inside(rloc, p.loc)}}
                \cup {p.core : p \in {p \in Rng(rec.protos) : Inside(rloc, p.loc)}} \cup {c.loc : c \in {c \in Rng(rec.cands) : Inside(rloc, c.loc)}}
    IN  \A loc \in locs : Size(loc) = rec.L \/ CanonLoc(ShiftIn(rec.L, rloc, loc)) = CanonLoc(Shift(R, loc, 0 - RegStart(rloc)))
(* the areas of the extract form one connected component, i.e. rebuilding regions on it gives exactly one *)
OneComponent(e) ==
    LET nodes == {<<"c", i>> : i \in DOMAIN e.cands} \cup {<<"s", i>> : i \in DOMAIN e.subs}
        locOf(v) == IF v[1] = "c" THEN e.cands[v[2]].loc ELSE e.subs[v[2]].loc
        edges == {p \in nodes \X nodes : p[1] # p[2] /\ Overlaps(locOf(p[1]), locOf(p[2]))}
    IN  nodes # {} /\ Cardinality(Components(nodes, edges)) = 1
=============================================================================
