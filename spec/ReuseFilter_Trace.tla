-------------------------- MODULE ReuseFilter_Trace --------------------------
(* Trace validation for C11, results that carry their own filter settings (RREFinder): saved hits are reused under   *)
(* other settings.  One event = results holding the hits `hits` (score x 10, length), saved under `old`, regenerated    *)
(* under `new` through the module's regenerate_previous_results and put into a fresh record.                            *)
(*   looser settings than the saved ones: the results cannot be reused (discarded or refused);                          *)
(*   the same or stricter settings: the results in use hold exactly the saved hits that pass the settings in force,     *)
(*   say so when saved again (hits and settings), and add the features of exactly those hits to the record.             *)
EXTENDS Naturals, Sequences, FiniteSets, TLC, Json, IOUtils
VARIABLE l
Trace == ndJsonDeserialize(IOEnv.TRACE_FILE)

Passing(ev, set) == {i \in DOMAIN ev.hits : ev.hits[i].sc >= set.cut /\ ev.hits[i].len >= set.minlen}
AsSet(seq) == {seq[i] : i \in DOMAIN seq}

Failed(ev) ==
    LET looser == ev.new.cut < ev.old.cut \/ ev.new.minlen < ev.old.minlen
        want == Passing(ev, ev.new) \cap Passing(ev, ev.old)
    IN  IF ev.out.exc # "" THEN (IF looser THEN {} ELSE {"refilter/same_or_stricter_settings_are_reused:" \o ev.out.exc})
        ELSE IF ev.out.o = "discarded" THEN (IF looser THEN {} ELSE {"refilter/same_or_stricter_settings_are_reused"})
        ELSE (IF looser THEN {"refilter/looser_settings_are_not_reused"} ELSE {})
             \cup (IF AsSet(ev.out.kept) # want \/ Len(ev.out.kept) # Cardinality(want)
                   THEN {"refilter/results_in_use_hold_the_hits_passing_the_settings_in_force"} ELSE {})
             \cup (IF AsSet(ev.out.feats) # AsSet(ev.out.kept) \/ Len(ev.out.feats) # Len(ev.out.kept)
                   THEN {"refilter/features_added_are_those_of_the_hits_the_results_hold"} ELSE {})
             \cup (IF ~looser /\ (ev.out.cut # ev.new.cut \/ ev.out.minlen # ev.new.minlen)
                   THEN {"refilter/saved_again_with_the_settings_in_force"} ELSE {})

Init == l = 1
Step == /\ l <= Len(Trace)
        /\ \A c \in Failed(Trace[l]) : PrintT(<<"REJECT", Trace[l].id, c>>)
        /\ l' = l + 1
Done == l = Len(Trace) + 1 /\ PrintT(<<"DONE", Len(Trace)>>) /\ l' = l + 1
Next == Step \/ Done
Spec == Init /\ [][Next]_l
=============================================================================
