------------------------------- MODULE Orfs -------------------------------
(***************************************************************************)
(* Property C15: open reading frames of a nucleotide string, their          *)
(* coordinates on a record (line or ring) and the gap search for extra      *)
(* ORFs between existing genes.                                              *)
(*                                                                           *)
(* A nucleotide string is a sequence of small integers:                      *)
(*   A C G T N  = 0 1 2 3 4     a c g t n = 5 6 7 8 9     R Y = 10 11         *)
(* Positions are 0-based, stretches <<i, j>> half-open.  Locations and the   *)
(* base-set operators come from Ring.tla.                                    *)
(***************************************************************************)
EXTENDS Ring

Up(b) == IF b >= 5 /\ b <= 9 THEN b - 5 ELSE b
Comp(b) == CASE b = 0 -> 3 [] b = 3 -> 0 [] b = 1 -> 2 [] b = 2 -> 1
             [] b = 5 -> 8 [] b = 8 -> 5 [] b = 6 -> 7 [] b = 7 -> 6
             [] b = 10 -> 11 [] b = 11 -> 10 [] OTHER -> b
UpSeq(s) == [k \in 1..Len(s) |-> Up(s[k])]
RevComp(s) == [k \in 1..Len(s) |-> Comp(s[Len(s) + 1 - k])]

CodonAt(s, p) == <<Up(s[p + 1]), Up(s[p + 2]), Up(s[p + 3])>>
StartCodons == {<<0, 3, 2>>, <<2, 3, 2>>, <<3, 3, 2>>}      (* ATG GTG TTG *)
StopCodons == {<<3, 0, 0>>, <<3, 0, 2>>, <<3, 2, 0>>}        (* TAA TAG TGA *)
CodonPositions(s) == 0..(Len(s) - 3)
IsStart(s, p) == CodonAt(s, p) \in StartCodons
IsStop(s, p) == CodonAt(s, p) \in StopCodons
Starts(s) == {p \in CodonPositions(s) : IsStart(s, p)}
Stops(s) == {p \in CodonPositions(s) : IsStop(s, p)}
InFrame(p, q) == (q - p) % 3 = 0

(* --- the declarative definition of the statement -------------------------- *)
(* <<i, j>>: begins at a start codon, ends with a stop codon (inclusive), no   *)
(* other in-frame stop, and i is the first start after the previous in-frame   *)
(* stop (or after the beginning of the string).                                 *)
IsOrf(s, i, j) ==
    /\ i + 6 <= j /\ InFrame(i, j) /\ j <= Len(s)
    /\ IsStart(s, i) /\ IsStop(s, j - 3)
    /\ \A k \in i..(j - 6) : InFrame(i, k) => ~IsStop(s, k)
    /\ \A k \in 0..(i - 3) : (InFrame(k, i) /\ IsStart(s, k)) =>
           \E m \in (k + 3)..(i - 3) : InFrame(m, i) /\ IsStop(s, m)
OrfsOf(s) == UNION {{<<i, p + 3>> : p \in {q \in Stops(s) : IsOrf(s, i, q + 3)}} : i \in Starts(s)}
OrfLen(o) == o[2] - o[1]
(* minimum-length sandwich (DESIGN section 5): longer than the minimum must be reported,
   shorter must not, exactly the minimum either way *)
MustOrfs(s, min) == {o \in OrfsOf(s) : OrfLen(o) > min}
MayOrfs(s, min) == {o \in OrfsOf(s) : OrfLen(o) >= min}

(* a string that is, as a whole, one start-to-stop stretch without inner in-frame stop *)
IsOrfString(x) ==
    /\ Len(x) >= 6 /\ Len(x) % 3 = 0
    /\ IsStart(x, 0) /\ IsStop(x, Len(x) - 3)
    /\ \A k \in 0..(Len(x) - 6) : InFrame(0, k) => ~IsStop(x, k)

(* --- implementation-shaped companion: one left-to-right sweep per frame ---- *)
RECURSIVE ScanFrame(_, _, _, _)
ScanFrame(s, p, start, acc) ==
    IF p > Len(s) - 3 THEN acc
    ELSE IF start = -1 /\ IsStart(s, p) THEN ScanFrame(s, p + 3, p, acc)
    ELSE IF IsStop(s, p) THEN (IF start = -1 THEN ScanFrame(s, p + 3, -1, acc)
                               ELSE ScanFrame(s, p + 3, -1, acc \cup {<<start, p + 3>>}))
    ELSE ScanFrame(s, p + 3, start, acc)
ScanOrfs(s) == UNION {ScanFrame(s, f, -1, {}) : f \in 0..2}

(* --- coordinates on the record --------------------------------------------- *)
(* The scanned string s (length n) is the window [off, off + n) of the record   *)
(* read forwards (d = 1) or its reverse complement (d = -1); rl = 0: no wrap.   *)
RecBase(n, d, off, rl, p) ==
    LET x == off + (IF d = 1 THEN p ELSE n - 1 - p)
    IN  IF rl = 0 THEN x ELSE x % rl
(* record bases of a stretch in transcription order *)
OrfWalk(n, d, off, rl, o) == [k \in 1..OrfLen(o) |-> RecBase(n, d, off, rl, o[1] + k - 1)]

(* bases of a location in transcription order, as Biopython extracts them: parts in
   the listed order, each part ascending on the forward and descending on the reverse strand *)
RECURSIVE TransWalkFrom(_, _, _)
TransWalkFrom(parts, strand, i) ==
    IF i > Len(parts) THEN <<>>
    ELSE LET s == parts[i][1]
             e == parts[i][2]
         IN  (IF e <= s THEN <<>>
              ELSE [k \in 1..(e - s) |-> IF strand = -1 THEN e - k ELSE s + k - 1])
             \o TransWalkFrom(parts, strand, i + 1)
TransWalk(loc) == TransWalkFrom(loc.parts, loc.strand, 1)

PartsOK(rl, loc) ==
    /\ Len(loc.parts) >= 1
    /\ \A i \in DOMAIN loc.parts : 0 <= loc.parts[i][1] /\ loc.parts[i][1] < loc.parts[i][2]
                                   /\ (rl = 0 \/ loc.parts[i][2] <= rl)

(* the canonical location of a stretch (shows the relation satisfiable) *)
LocOfWalk(w, d) ==
    LET fw == IF d = 1 THEN w ELSE RevSeq(w)
        fp == PartsOfWalk(fw)
    IN  Loc(IF d = 1 THEN fp ELSE RevSeq(fp), d)

(* what the string extracted through a location reads, given the record's bases *)
Extract(rec, loc) ==
    LET w == TransWalk(loc)
    IN  [k \in 1..Len(w) |-> IF loc.strand = -1 THEN Comp(rec[w[k] + 1]) ELSE rec[w[k] + 1]]

(* verdict for one call scan(s, d, off, min, rl) = r (a sequence of locations): the first clause
   that fails, "ok" if none; O = OrfsOf(s) is passed in so that a bundle of calls on one string
   computes it once *)
ScanClause(O, s, d, off, min, rl, r) ==
    LET n == Len(s)
        W == {TransWalk(r[i]) : i \in DOMAIN r}
        WalkOf(o) == OrfWalk(n, d, off, rl, o)
    IN  IF ~\A i \in DOMAIN r : PartsOK(rl, r[i]) THEN "location_well_formed"
        ELSE IF ~\A i \in DOMAIN r : r[i].strand = d THEN "strand_is_search_direction"
        ELSE IF ~({WalkOf(o) : o \in {x \in O : OrfLen(x) > min}} \subseteq W) THEN "every_orf_reported"
        ELSE IF ~(W \subseteq {WalkOf(o) : o \in O}) THEN "only_orfs_reported"
        ELSE IF ~\A w \in W : Len(w) >= min THEN "shorter_than_minimum_not_reported"
        ELSE IF Cardinality(W) # Len(r) THEN "each_orf_reported_once"
        ELSE "ok"
ScanFailedWith(O, s, d, off, min, rl, r) ==
    LET c == ScanClause(O, s, d, off, min, rl, r) IN IF c = "ok" THEN {} ELSE {c}
ScanFailed(s, d, off, min, rl, r) == ScanFailedWith(OrfsOf(s), s, d, off, min, rl, r)

(* --- translation -------------------------------------------------------------- *)
(* NCBI tables 1 and 11 assign the same amino acids; TCAG order, ASCII codes of     *)
(* FFLLSSSSYY**CC*WLLLLPPPPHHQQRRRRIIIMTTTTNNKKSSRRVVVVAAAADDEEGGGG                 *)
AminoTable == <<70,70,76,76,83,83,83,83,89,89,42,42,67,67,42,87,
                76,76,76,76,80,80,80,80,72,72,81,81,82,82,82,82,
                73,73,73,77,84,84,84,84,78,78,75,75,83,83,82,82,
                86,86,86,86,65,65,65,65,68,68,69,69,71,71,71,71>>
Tcag(b) == CASE b = 3 -> 0 [] b = 1 -> 1 [] b = 0 -> 2 [] b = 2 -> 3
Expand(b) == CASE b \in 0..3 -> {b} [] b = 10 -> {0, 2} [] b = 11 -> {1, 3} [] OTHER -> 0..3
Amino(c) == AminoTable[16 * Tcag(c[1]) + 4 * Tcag(c[2]) + Tcag(c[3]) + 1]
(* an ambiguous codon reads as its amino acid when every reading agrees, else X *)
AminoOf(c) ==
    LET A == {Amino(<<x, y, z>>) : x \in Expand(c[1]), y \in Expand(c[2]), z \in Expand(c[3])}
    IN  IF Cardinality(A) = 1 /\ 42 \notin A THEN CHOOSE a \in A : TRUE ELSE 88
(* protein of a start-to-stop string: M, then one residue per codon, stop excluded *)
ProteinOf(x) == [k \in 1..(Len(x) \div 3 - 1) |-> IF k = 1 THEN 77 ELSE AminoOf(CodonAt(x, 3 * (k - 1)))]

(* --- gaps between genes -------------------------------------------------------- *)
(* genes are given by their outer coordinates <<s, e>> on a line; window [ws, we) *)
GeneFree(genes, b) == \A g \in genes : b < g[1] \/ b >= g[2]
NotDeep(genes, pad, b) == \A g \in genes : b < g[1] + pad \/ b >= g[2] - pad
(* length of the maximal gene-free run inside the window that contains base b *)
FreeRunLen(genes, ws, we, b) ==
    LET lo == MinOf({x \in ws..b : \A y \in x..b : GeneFree(genes, y)})
        hi == MaxOf({x \in b..(we - 1) : \A y \in b..x : GeneFree(genes, y)})
    IN  hi - lo + 1
GapBases(gaps) == UNION {gaps[i][1]..(gaps[i][2] - 1) : i \in DOMAIN gaps}
GapsFailed(genes, ws, we, min, pad, gaps) ==
    LET G == GapBases(gaps) IN
    (IF \A i \in DOMAIN gaps : ws <= gaps[i][1] /\ gaps[i][2] <= we THEN {} ELSE {"inside_window"})
    \cup (IF \A i \in DOMAIN gaps : gaps[i][2] - gaps[i][1] >= min THEN {} ELSE {"at_least_minimum_length"})
    \cup (IF \A b \in ws..(we - 1) : (GeneFree(genes, b) /\ FreeRunLen(genes, ws, we, b) >= min)
                                      => b \in G THEN {} ELSE {"gene_free_stretch_covered"})
    \cup (IF \A b \in G : NotDeep(genes, pad, b) THEN {} ELSE {"no_deeper_into_gene_than_overlap"})

(* --- extra ORFs of a record / area ---------------------------------------------- *)
(* rec: the record's bases; genes: set of locations; area: location or Loc(<<>>, 1)   *)
(* for the whole record; found: sequence of [loc, tr] (location, protein as ASCII).   *)
(* The statement only claims soundness ("only returns ORFs lying in the gaps").  The  *)
(* one completeness clause is for the case without any gene, where the gap is the     *)
(* searched area itself (pinned by the repository's tests); an origin-crossing area   *)
(* with a part shorter than the minimum is left unspecified (the code drops short     *)
(* parts before joining the two halves).                                               *)
AreaBases(L, area) == IF Len(area.parts) = 0 THEN 0..(L - 1) ELSE Bases(area)
AreaWalk(L, area) == IF Len(area.parts) = 0 THEN [k \in 1..L |-> k - 1] ELSE Walk(area)
(* more than ovl consecutive bases (around the ring on a circular record) in C: the allowed overlap is
   per gap boundary, an ORF wrapping round a small ring may touch the same gene at both of its ends *)
LongSharedRun(C, L, circ, ovl) == \E b \in C : \A k \in 0..ovl : (IF circ THEN (b + k) % L ELSE b + k) \in C
ExtraFailed(rec, circ, genes, area, min, ovl, found) ==
    LET L == Len(rec)
        X(i) == Extract(rec, found[i].loc)
        aw == AreaWalk(L, area)
        chunk == [k \in 1..Len(aw) |-> rec[aw[k] + 1]]
        off == IF Len(aw) = 0 THEN 0 ELSE aw[1]
        W == {TransWalk(found[i].loc) : i \in DOMAIN found}
        MustWalks == {OrfWalk(Len(chunk), 1, off, L, o) : o \in MustOrfs(chunk, min)}
                     \cup {OrfWalk(Len(chunk), -1, off, L, o) : o \in MustOrfs(RevComp(chunk), min)}
    IN  (IF \A i \in DOMAIN found : PartsOK(L, found[i].loc) /\ found[i].loc.strand \in {1, -1}
         THEN {} ELSE {"location_well_formed"})
        \cup (IF \A i \in DOMAIN found : PartsOK(L, found[i].loc) => IsOrfString(X(i)) THEN {} ELSE {"extracts_to_an_orf"})
        \cup (IF \A i \in DOMAIN found : Len(TransWalk(found[i].loc)) >= min THEN {} ELSE {"shorter_than_minimum_not_reported"})
        \cup (IF \A i \in DOMAIN found : Bases(found[i].loc) \subseteq AreaBases(L, area) THEN {} ELSE {"inside_searched_area"})
        \cup (IF \A i \in DOMAIN found : \A g \in genes : ~LongSharedRun(Bases(found[i].loc) \cap Bases(g), L, circ, ovl)
              THEN {} ELSE {"in_gap_up_to_allowed_overlap"})
        \cup (IF \A i \in DOMAIN found : (PartsOK(L, found[i].loc) /\ IsOrfString(X(i))) => found[i].tr = ProteinOf(X(i))
              THEN {} ELSE {"translation_matches_location"})
        \cup (IF Cardinality(W) = Len(found) THEN {} ELSE {"each_orf_reported_once"})
        \cup (IF (genes = {} /\ \A i \in DOMAIN area.parts : area.parts[i][2] - area.parts[i][1] >= min) => MustWalks \subseteq W
              THEN {} ELSE {"complete_when_no_genes"})
=============================================================================
