---------------------------- MODULE Persist_Trace ----------------------------
(***************************************************************************)
(* Trace validation for C10 and C12.                                        *)
(*                                                                          *)
(* op "roundtrip": one real annotated record and its three round trips      *)
(*   [before : rec, gb, json, file : [exc, after : rec, out1, out2]]         *)
(*   gb   = to_biopython -> SeqIO.write(genbank) -> SeqIO.parse ->           *)
(*          Record.from_biopython                                            *)
(*   json = record_to_json -> dumps -> loads -> record_from_json             *)
(*   file = AntismashResults.write_to_file -> from_file                      *)
(*   out1 / out2 identify the bytes written from the record and from the     *)
(*   re-read record.  Accepted iff every round trip is a stuttering step on  *)
(*   the abstract record and out1 = out2.                                    *)
(*                                                                          *)
(* op "extract": one region of one real record written with                 *)
(*   Region.write_to_genbank and loaded again                                *)
(*   [before, after : rec (the full record), seq : bases of the full record, *)
(*    bio_before, bio_after : identity of the Biopython record handed in,    *)
(*    bio_locs_before, bio_locs_after : identity of its feature locations,   *)
(*    region : number, ex : [exc, rec, seq, raw, pairs]]                     *)
(*   Accepted iff ex is the extract Persist!Expected demands and the full    *)
(*   record (secmet and Biopython form) is unchanged.                        *)
(***************************************************************************)
EXTENDS Persist, TLC, Json, IOUtils
VARIABLE l
Trace == ndJsonDeserialize(IOEnv.TRACE_FILE)

Tag(op, S) == {op \o "/" \o c : c \in S}

RoundTripEvent(ev) ==
    Tag("genbank", RoundTripFailed(ev.before, ev.gb))
    \cup Tag("json", RoundTripFailed(ev.before, ev.json))
    \cup Tag("results_file", RoundTripFailed(ev.before, ev.file))

ExtractEvent(ev) ==
    IF ev.exc # "" THEN {"extract/region_file_is_written:" \o ev.exc}
    ELSE Tag("extract", ExtractFailed(ev.before, ev.seq, ev.region, ev.ex))
         \cup (IF SameRecordFailed(ev.before, ev.after) # {} THEN {"extract/full_record_unchanged"} ELSE {})
         \cup (IF ev.bio_locs_before # ev.bio_locs_after THEN {"extract/biopython_record_locations_restored"} ELSE {})
         \cup (IF ev.bio_before # ev.bio_after THEN {"extract/biopython_record_unchanged"} ELSE {})

Failed(ev) == CASE ev.op = "roundtrip" -> RoundTripEvent(ev)
                [] ev.op = "extract" -> ExtractEvent(ev)
                [] OTHER -> {"trace/unknown_op"}

Init == l = 1
Step == /\ l <= Len(Trace)
        /\ \A c \in Failed(Trace[l]) : PrintT(<<"REJECT", Trace[l].id, c>>)
        /\ l' = l + 1
Done == l = Len(Trace) + 1 /\ PrintT(<<"DONE", Len(Trace)>>) /\ l' = l + 1
Next == Step \/ Done
Spec == Init /\ [][Next]_l
=============================================================================
