----------------------------- MODULE Orfs_Trace -----------------------------
(* Trace validation for C15.  Events:                                          *)
(*   scan: one scanned string s with a bundle of calls                          *)
(*         [d, off, rl, min, r |-> [exc, v |-> <<locations>>], ext |-> <<strings>>] *)
(*         (ext[i] = what Biopython extracts through r.v[i] from a record that   *)
(*         carries the window at the offset); a failed clause is suffixed with   *)
(*         ":<index of the call>"                                                *)
(*   all:  find_all_orfs on a record: rec, genes, area, min, ovl,                *)
(*         res |-> [exc, v |-> << [loc, tr] >>]                                   *)
(*   gaps: find_intergenic_areas: ws, we, genes <<s, e>>, min, pad, res          *)
EXTENDS Orfs, TLC, Json, IOUtils
VARIABLE l
Trace == ndJsonDeserialize(IOEnv.TRACE_FILE)

AsSet(seq) == {seq[i] : i \in DOMAIN seq}
Tag(op, S) == {op \o "/" \o c : c \in S}

ExtractFailed(O, s, c) ==
    IF \A i \in DOMAIN c.ext :
          \E o \in O : /\ c.ext[i] = SubSeq(s, o[1] + 1, o[2])
                        /\ TransWalk(c.r.v[i]) = OrfWalk(Len(s), c.d, c.off, c.rl, o)
    THEN {} ELSE {"extracts_to_the_orf"}
CallFailed(O, s, c) ==
    IF c.r.exc # "" THEN {"no_exception:" \o c.r.exc}
    ELSE LET f == ScanFailedWith(O, s, c.d, c.off, c.min, c.rl, c.r.v)
         IN  IF f # {} THEN f ELSE ExtractFailed(O, s, c)      (* one clause per call: the first that fails *)
ScanEventFailed(ev) ==
    LET O == OrfsOf(ev.s) IN
    UNION {{"scan/" \o x \o ":" \o ToString(i) : x \in CallFailed(O, ev.s, ev.calls[i])} : i \in DOMAIN ev.calls}

AllEventFailed(ev) ==
    IF ev.res.exc # "" THEN {"all/no_exception:" \o ev.res.exc}
    ELSE Tag("all", ExtraFailed(ev.rec, ev.circ, AsSet(ev.genes), ev.area, ev.min, ev.ovl, ev.res.v))

GapsEventFailed(ev) ==
    IF ev.res.exc # "" THEN {"gaps/no_exception:" \o ev.res.exc}
    ELSE Tag("gaps", GapsFailed(AsSet(ev.genes), ev.ws, ev.we, ev.min, ev.pad, ev.res.v))

Failed(ev) == CASE ev.op = "scan" -> ScanEventFailed(ev)
                [] ev.op = "all" -> AllEventFailed(ev)
                [] ev.op = "gaps" -> GapsEventFailed(ev)
                [] OTHER -> {"trace/unknown_op"}

Init == l = 1
Step == /\ l <= Len(Trace)
        /\ \A c \in Failed(Trace[l]) : PrintT(<<"REJECT", Trace[l].id, c>>)
        /\ l' = l + 1
Done == l = Len(Trace) + 1 /\ PrintT(<<"DONE", Len(Trace)>>) /\ l' = l + 1
Next == Step \/ Done
Spec == Init /\ [][Next]_l
=============================================================================
