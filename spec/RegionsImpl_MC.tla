---------------------------- MODULE RegionsImpl_MC ----------------------------
(* TLC checks the repaired create_regions design against the declarative         *)
(* statement for every sequence of up to MaxAreas span areas on a small ring and  *)
(* line, in every processing order; the pre-repair sweep is the negative control. *)
EXTENDS RegionsImpl, TLC
CONSTANTS MaxAreas, RingLen
VARIABLES stage, R, areas
vars == <<stage, R, areas>>

Rings == {[L |-> RingLen, circ |-> TRUE], [L |-> RingLen, circ |-> FALSE]}
Arcs(r) == Spans(r)
Init == stage = 0 /\ R \in Rings /\ areas = <<>>
Add == /\ Len(areas) < MaxAreas /\ stage' = 1 /\ UNCHANGED R
       /\ \E a \in Arcs(R) : areas' = Append(areas, a)
Next == Add
Spec == Init /\ [][Next]_vars

(* the sort the code applies: areas spanning the origin first, then by start, longest first *)
SortKeyLess(a, b) == \/ (Bridges(a) /\ ~Bridges(b))
                     \/ (Bridges(a) = Bridges(b) /\ OuterStart(a) < OuterStart(b))
                     \/ (Bridges(a) = Bridges(b) /\ OuterStart(a) = OuterStart(b) /\ Size(a) >= Size(b))
IsSorted == \A i \in 1..(Len(areas) - 1) : SortKeyLess(areas[i], areas[i + 1])

RepairedDesignSound == Len(areas) >= 1 => Sound(R, areas, FixSections(R, areas))
(* negative control: the single sweep is not sound even on sorted input *)
SweepDesignSound == (Len(areas) >= 2 /\ IsSorted) => Sound(R, areas, SweepSections(R, areas))
=============================================================================
