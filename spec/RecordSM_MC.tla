----------------------------- MODULE RecordSM_MC -----------------------------
(* All histories of public mutator calls on a Record over small universes       *)
(* (C06).  Every state carries its history: the states are the behaviours that  *)
(* the harness replays on a real Record, comparing after every call.            *)
EXTENDS RecordSM, TLC
CONSTANTS Depth, UniverseIds
VARIABLES u, s, hist, fresh
vars == <<u, s, hist, fresh>>

PA(core, extent, product) == [kind |-> "proto", core |-> core, extent |-> extent, product |-> product]
SA(extent) == [kind |-> "sub", core |-> extent, extent |-> extent, product |-> "sub"]
GN(loc, prods) == [loc |-> loc, core_for |-> prods]
Cross(a, L, b) == Loc(<< <<a, L>>, <<0, b>> >>, 1)
Universes == <<
    (* 1: ring of 10: chain p1-p2, an origin-spanning protocluster, a subregion bridging towards it *)
    [L |-> 10, circ |-> TRUE,
     genes |-> <<GN(Simple(1, 2, 1), <<"a", "b">>), GN(Simple(7, 8, -1), <<"c">>)>>,
     areas |-> <<PA(Simple(1, 2, 1), Simple(0, 3, 1), "a"), PA(Simple(1, 3, 1), Simple(1, 5, 1), "b"),
                 PA(Simple(7, 8, 1), Cross(6, 10, 1), "c"), SA(Simple(4, 7, 1))>>],
    (* 2: line of 12: nested, identical coordinates, disjoint *)
    [L |-> 12, circ |-> FALSE,
     genes |-> <<GN(Simple(2, 3, 1), <<"a">>), GN(Simple(9, 10, 1), <<"b">>)>>,
     areas |-> <<PA(Simple(2, 3, 1), Simple(0, 5, 1), "a"), PA(Simple(2, 4, 1), Simple(0, 5, 1), "c"),
                 PA(Simple(9, 10, 1), Simple(8, 12, 1), "b"), SA(Simple(4, 9, 1))>>],
    (* 3: ring of 9: areas meeting only across the origin, whole-record subregion *)
    [L |-> 9, circ |-> TRUE,
     genes |-> <<GN(Cross(8, 9, 1), <<"a">>), GN(Simple(4, 5, 1), <<"b">>)>>,
     areas |-> <<PA(Cross(8, 9, 1), Cross(7, 9, 2), "a"), PA(Simple(4, 5, 1), Simple(3, 6, 1), "b"),
                 SA(Simple(0, 2, 1)), SA(Simple(0, 9, 1))>>] >>
uni == Universes[u]
ASSUME PrintT(<<"UNIVERSES", Universes>>)
Calls == {[op |-> "AddGene", arg |-> g] : g \in DOMAIN uni.genes}
         \cup {[op |-> o, arg |-> a] : o \in {"AddProto", "AddSub"}, a \in DOMAIN uni.areas}
         \cup {[op |-> o, arg |-> 0] : o \in {"CreateCandidates", "CreateRegions", "ClearRegions", "ClearSubs", "ClearCands", "ClearProtos"}}

Init == u \in UniverseIds /\ s = Empty /\ hist = <<>> /\ fresh = TRUE
Do(call) == /\ Enabled(uni, s, call)
            /\ s' = ModelStep(uni, s, call)
            /\ hist' = Append(hist, call)
            /\ fresh' = CASE call.op \in {"AddProto", "AddSub", "CreateCandidates"} -> FALSE
                          [] call.op = "AddGene" -> fresh
                          [] OTHER -> TRUE
            /\ UNCHANGED u
Next == \E call \in Calls : Do(call)
Spec == Init /\ [][Next]_vars
Bounded == Len(hist) <= Depth

(* the property on the model: whenever no area was added since regions were (re)built *)
RegionsAreComponents == (fresh /\ s.regions # {}) => RegionsBuiltFailed(uni, s) = {}
NoStaleLinks == /\ \A r \in s.regions : r.cands \subseteq s.cands /\ r.subs \subseteq s.subs
                /\ \A c \in s.cands : c.members \subseteq s.protos
(* clearing and re-creating gives what creating from scratch gives *)
RecreateIsCreate == (fresh /\ s.regions # {}) => s.regions = ModelRegions(uni, [s EXCEPT !.regions = {}])
(* candidate clusters satisfy the documented grouping (Candidates.tla) at every point where they exist *)
CandidatesDocumented == s.cands # {} => \A c \in s.cands : c.members # {}
=============================================================================
