------------------------------ MODULE Genes_MC ------------------------------
(* Generator + self-consistency for the lookup half of C08.  stage 1 states are  *)
(* the gene/query locations (replayed in all combinations by the harness);       *)
(* stage 3 states are the spliced gene locations; stage 2 states are sampled (layout, query) pairs for the meta-properties and  *)
(* the negative control (the bisect-and-early-exit shape misses shadowed genes). *)
EXTENDS Genes, TLC, Randomization
CONSTANTS LenSet
VARIABLES stage, R, a, genes, q
vars == <<stage, R, a, genes, q>>

Rings == [L : LenSet, circ : BOOLEAN]
Universe(r) == WithStrands(ArcParts(r) \cup CrossParts(r), {1})
(* genes in several exons: an intron on a line or ring, an exon cut by the origin plus a further exon *)
Spliced(r) == WithStrands(IntronParts(r) \cup CrossIntronParts(r), {1})
Dummy == Simple(0, 1, 1)
Init == stage = 0 /\ R \in Rings /\ a = Dummy /\ genes = <<Dummy>> /\ q = Dummy
PickLoc == stage = 0 /\ stage' = 1 /\ a' \in Universe(R) /\ UNCHANGED <<R, genes, q>>
PickSpliced == stage = 0 /\ stage' = 3 /\ a' \in Spliced(R) /\ UNCHANGED <<R, genes, q>>
PickLayout == /\ stage = 0 /\ stage' = 2 /\ UNCHANGED <<R, a>>
              /\ \E g1 \in RandomSubset(8, Universe(R)) \cup RandomSubset(4, Spliced(R)), g2 \in RandomSubset(6, Universe(R)), g3 \in RandomSubset(5, Universe(R)) :
                    genes' = <<g1, g2, g3>>
              /\ q' \in RandomSubset(6, Universe(R))
(* one fixed layout besides the sampled ones, so that the negative control does not depend on the draw: the long gene [0,5)
   shadows two short ones; a query at [3,4) touches only the long gene, which the bisect-and-early-exit shape never visits *)
PickWitness == /\ stage = 0 /\ stage' = 2 /\ UNCHANGED <<R, a>>
               /\ genes' = <<Simple(0, 5, 1), Simple(1, 2, 1), Simple(2, 3, 1)>>
               /\ q' = Simple(3, 4, 1)
Next == PickLoc \/ PickSpliced \/ PickLayout \/ PickWitness
Spec == Init /\ [][Next]_vars

WithinIsTouching == stage = 2 => Within(genes, q) \subseteq Touching(genes, q)
RotGenes(k) == [i \in DOMAIN genes |-> Shift(R, genes[i], k)]
RotationFree == (stage = 2 /\ R.circ /\ Size(q) < R.L) =>
    \A k \in {1, 2, R.L - 1} : /\ Within(RotGenes(k), Shift(R, q, k)) = Within(genes, q)
                               /\ Touching(RotGenes(k), Shift(R, q, k)) = Touching(genes, q)
(* a result listing the expected genes in sorted order satisfies the relation *)
SortedSatisfies == stage = 2 =>
    \A ov \in BOOLEAN :
        LET want == Expected(genes, q, ov)
            order == SortedIdx(genes)
            res == SelectSeq(order, LAMBDA i : i \in want)
        IN  (~Bridges(q)) => LookupFailed(R, genes, q, ov, res) = {}
(* negative control *)
ImplAgrees == (stage = 2 /\ ~Bridges(q) /\ \A i \in DOMAIN genes : ~Bridges(genes[i])) => ImplTouching(genes, q) = Touching(genes, q)
=============================================================================
