----------------------------- MODULE Ring_Trace -----------------------------
(* Trace validation for C04: every event bundles the observed results of the  *)
(* public location functions for one abstract input; TLC decides every result *)
(* against Ring.tla and prints one REJECT line per failed clause.             *)
(* A result is always a record [exc |-> "" | exception name, v |-> value].     *)
EXTENDS Ring, TLC, Json, IOUtils
VARIABLE l
Trace == ndJsonDeserialize(IOEnv.TRACE_FILE)

RingOf(ev) == [L |-> ev.L, circ |-> ev.circ]
AsSet(seq) == {seq[i] : i \in DOMAIN seq}
Tag(op, S) == {op \o "/" \o c : c \in S}
Exc(op, res) == IF res.exc # "" THEN {op \o "/no_exception:" \o res.exc} ELSE {}
Only(c) == IF c = "ok" THEN {} ELSE {c}

PairFailed(ev) ==
    LET R == RingOf(ev)
        X == {ev.a, ev.b}
    IN  Exc("overlaps", ev.ov) \cup Exc("contains", ev.co) \cup Exc("dist", ev.di)
        \cup Exc("connect", ev.cn) \cup Exc("connect", ev.cn2) \cup Exc("connect", ev.cnt)
        \cup (IF ev.ov.exc = "" /\ ev.ov.v # Overlaps(ev.a, ev.b) THEN {"overlaps/overlap_iff_share_base"} ELSE {})
        \cup (IF ev.co.exc = "" /\ ev.co.v # Contains(ev.a, ev.b) THEN {"contains/contains_iff_parts_inside"} ELSE {})
        (* a.contains(b) and `b in a` are the same question *)
        \cup Exc("contains", ev.cos)
        \cup (IF ev.cos.exc = "" /\ \E i \in DOMAIN ev.cos.v : ev.cos.v[i] # Contains(ev.a, ev.b)
              THEN {"contains/every_spelling_of_containment_agrees"} ELSE {})
        \cup (IF ev.di.exc = "" /\ ev.di.v # Dist(R, ev.a, ev.b) THEN {"dist/distance_is_bases_between"} ELSE {})
        \cup (IF ev.cn.exc = "" THEN Tag("connect", Only(ConnectClause(R, X, ev.cn.v))) ELSE {})
        \cup Exc("connect", ev.cn1)
        \cup (IF ev.cn1.exc = "" THEN Tag("connect_one", Only(ConnectClause(R, {ev.a}, ev.cn1.v))) ELSE {})
        \cup (IF ev.cn.exc = "" /\ ev.cn2.exc = "" /\ ev.cn2.v # ev.cn.v THEN {"connect/argument_order_independent"} ELSE {})
        \cup (IF ev.cn.exc = "" /\ ev.cnt.exc = "" /\ ev.cnt.v # ev.cn.v THEN {"connect/idempotent"} ELSE {})

ListFailed(ev) ==
    LET R == RingOf(ev)
        X == AsSet(ev.locs)
    IN  Exc("connect", ev.cn) \cup Exc("connect", ev.cnt)
        \cup UNION {Exc("connect", ev.perms[i]) : i \in DOMAIN ev.perms}
        \cup (IF ev.cn.exc = "" THEN Tag("connect", Only(ConnectClause(R, X, ev.cn.v))) ELSE {})
        \cup (IF ev.cn.exc = "" /\ \E i \in DOMAIN ev.perms : ev.perms[i].exc = "" /\ ev.perms[i].v # ev.cn.v
              THEN {"connect/argument_order_independent"} ELSE {})
        \cup (IF ev.cn.exc = "" /\ ev.cnt.exc = "" /\ ev.cnt.v # ev.cn.v THEN {"connect/idempotent"} ELSE {})

UnaryFailed(ev) ==
    LET R == RingOf(ev) IN
    Exc("roundtrip", ev.rt) \cup Exc("bridges", ev.br) \cup Exc("forwards", ev.fw)
    \cup (IF ev.rt.exc = "" /\ ev.rt.v # ev.a THEN {"roundtrip/text_form_reads_back"} ELSE {})
    \cup (IF ev.br.exc = "" /\ ev.br.v # Bridges(ev.a) THEN {"bridges/bridges_iff_order_breaks"} ELSE {})
    \cup (IF ev.fw.exc = "" /\ (ev.fw.v.strand # 1 \/ ev.fw.v.parts # Fwd(ev.a)) THEN {"forwards/forward_order_same_parts"} ELSE {})

ExtendFailed(ev) ==
    Exc("extend", ev.ret) \cup
    (IF ev.ret.exc = "" THEN Tag("extend", Only(ExtendClause(RingOf(ev), ev.a, ev.d, ev.ret.v))) ELSE {})

(* shifting without a wrap point is shifting on a line that is long enough: modulus ev.M *)
ShiftFailed(ev) ==
    Exc("shift", ev.ret) \cup
    (IF ev.ret.exc = "" THEN Tag("shift", Only(ShiftClause([L |-> ev.M, circ |-> ev.circ], ev.a, ev.k, ev.ret.v))) ELSE {})

Failed(ev) == CASE ev.op = "pair" -> PairFailed(ev)
                [] ev.op = "list" -> ListFailed(ev)
                [] ev.op = "unary" -> UnaryFailed(ev)
                [] ev.op = "extend" -> ExtendFailed(ev)
                [] ev.op = "shift" -> ShiftFailed(ev)
                [] OTHER -> {"trace/unknown_op"}

Init == l = 1
Step == /\ l <= Len(Trace)
        /\ \A c \in Failed(Trace[l]) : PrintT(<<"REJECT", Trace[l].id, c>>)
        /\ l' = l + 1
Done == l = Len(Trace) + 1 /\ PrintT(<<"DONE", Len(Trace)>>) /\ l' = l + 1
Next == Step \/ Done
Spec == Init /\ [][Next]_l
=============================================================================
