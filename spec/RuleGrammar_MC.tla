--------------------------- MODULE RuleGrammar_MC ---------------------------
(* Generator + self-consistency of the reference grammar (property C02).              *)
(* stage 1: a shard was picked; stage 2: a well-formed case (one state per case);      *)
(* stage 3: a corruption of a base case.  States of stage >= 2 are the cases replayed  *)
(* against the real parser (dump).  Invariants: Denote(Render(ast, style)) = ast,      *)
(* expected states of multi-rule / multi-file cases (superiors closed transitively,    *)
(* kb * 1000 * multiplier), alias expansion = inlining, constructive corruptions are   *)
(* ill-formed for the reference grammar, tokeniser independent of separators.          *)
EXTENDS RuleGrammar, Randomization
CONSTANTS MaxLeaves,      (* 3 | 4 | 5 leaves in structural trees *)
          StyleMode,      (* 0: four styles; 1: all 32 *)
          ReplVocab,      (* tokens used by Replace edits *)
          BaseMode,       (* 0: few base cases for edits; 1: many *)
          Depth3Samples,  (* number of sampled depth-3 trees per root operator (0 = none) *)
          CP,             (* token text -> code points, for every text the generator can emit *)
          SepCP           (* code points of the six separators (the sixth a comment glued to a symbol), the leading and the trailing comment *)
VARIABLES stage, shard, case, ast
vars == <<stage, shard, case, ast>>

Env == [sigs |-> {"a", "b", "c", "d", "e", "f"}, cats |-> {"C", "D"}]
UnitMult == <<1, 1, 1, 1>>
Mults == {UnitMult, <<2, 1, 1, 1>>, <<3, 2, 1, 2>>, <<1, 2, 5, 2>>}
Ops == {"and", "or"}
Names == <<"a", "b", "c", "d", "e", "f">>

(* ------------------------- tree universes ------------------------------- *)
Lf(i, ng) == Id(Names[i], ng)
LeafSeqs(first, size) == {[i \in 1..size |-> Lf(first + i - 1, f[i])] : f \in [1..size -> BOOLEAN]}
Child(size, first, pop) ==
    IF size = 0 THEN {Lf(first, ng) : ng \in BOOLEAN}
    ELSE {g \in {Grp(op, ls, ng) : op \in Ops, ng \in BOOLEAN, ls \in LeafSeqs(first, size)} : ~(g.k = pop /\ ~g.neg)}
Width(size) == IF size = 0 THEN 1 ELSE size
RECURSIVE ChildSeqs(_, _, _, _)
ChildSeqs(shape, i, first, pop) ==
    IF i > Len(shape) THEN {<<>>}
    ELSE {<<c>> \o rest : c \in Child(shape[i], first, pop), rest \in ChildSeqs(shape, i + 1, first + Width(shape[i]), pop)}
TreesAll(shape, op, ng) == {Grp(op, cs, ng) : cs \in ChildSeqs(shape, 1, 1, op)}
(* rule conditions need a positive requirement: the root is never negated, inner groups are *)
Trees(shape, op, ng) == {t \in TreesAll(shape, op, ng) : Positive(t)}
RECURSIVE Leaves(_, _)
Leaves(shape, i) == IF i > Len(shape) THEN 0 ELSE Width(shape[i]) + Leaves(shape, i + 1)
AllShapes == {<<0, 0>>, <<0, 0, 0>>, <<2, 0>>, <<0, 2>>, <<2, 2>>, <<3, 0>>, <<0, 3>>, <<2, 0, 0>>, <<0, 2, 0>>, <<0, 0, 2>>,
              <<2, 3>>, <<3, 2>>, <<2, 2, 0>>, <<0, 2, 2>>, <<3, 0, 0>>, <<0, 0, 3>>}
Shapes == {s \in AllShapes : Leaves(s, 1) <= MaxLeaves}

RECURSIVE Subst(_, _)
Subst(x, f) == IF x.k = "id" THEN (IF x.name \in DOMAIN f THEN (IF x.neg THEN Negate(f[x.name]) ELSE f[x.name]) ELSE x)
               ELSE IF IsLeaf(x) THEN x
               ELSE [x EXCEPT !.args = [i \in DOMAIN x.args |-> Subst(x.args[i], f)]]
A == Id("a", FALSE)
B == Id("b", FALSE)
C == Id("c", FALSE)
D == Id("d", FALSE)
Kinds == << ("a" :> Score("a", 5, FALSE)),
            ("b" :> Min(2, {"b", "d"}, FALSE)),
            ("a" :> Cds(Grp("and", <<A, D>>, FALSE), FALSE)),
            ("b" :> Cds(Grp("or", <<B, Id("d", TRUE)>>, FALSE), FALSE)),
            ("a" :> Cds(Grp("and", <<A, Grp("or", <<Id("e", FALSE), Score("d", 10, TRUE)>>, FALSE)>>, FALSE), FALSE)),
            ("b" :> Min(1, {"b"}, FALSE)) @@ ("a" :> Score("a", 0, FALSE)),
            ("a" :> Cds(Grp("or", <<Grp("and", <<A, D>>, FALSE), Id("e", FALSE)>>, FALSE), FALSE)),
            ("b" :> Cds(Grp("or", <<Id("e", FALSE), Grp("and", <<B, Id("d", TRUE)>>, FALSE), Id("f", TRUE)>>, FALSE), FALSE)),
            ("a" :> Min(3, {"a", "e", "f"}, FALSE)) @@ ("b" :> Cds(Grp("and", <<Id("b", TRUE), Grp("or", <<D, Id("e", FALSE)>>, TRUE)>>, FALSE), FALSE)) >>
KindShapes == {<<0, 0>>, <<2, 0>>, <<0, 2>>}
SingleTrees == {A, Score("a", 5, FALSE), Min(2, {"a", "b", "c"}, FALSE), Min(1, {"a"}, FALSE),
                (* more required than options listed: documented as "several genes have to provide one of the options" *)
                Min(3, {"a", "b"}, FALSE),
                Cds(Grp("and", <<A, B>>, FALSE), FALSE), Cds(Grp("or", <<A, Id("b", TRUE)>>, FALSE), FALSE),
                Cds(Grp("and", <<Id("a", TRUE), Grp("or", <<B, C>>, FALSE)>>, FALSE), FALSE),
                Cds(Grp("or", <<A, Grp("and", <<B, C>>, FALSE)>>, FALSE), FALSE),
                Cds(Grp("or", <<Grp("and", <<A, Id("b", TRUE)>>, FALSE), Grp("and", <<C, D>>, FALSE)>>, FALSE), FALSE),
                Cds(Grp("and", <<A, Grp("or", <<B, Grp("and", <<C, Id("d", TRUE)>>, FALSE)>>, TRUE)>>, FALSE), FALSE)}

(* sampled depth-3 trees: a depth-2 tree under a further chain *)
Depth3(op, ng) ==
    IF Depth3Samples = 0 THEN {}
    ELSE LET inner == UNION {TreesAll(s, o, g) : s \in {<<2, 0>>, <<0, 2>>, <<2, 2>>, <<0, 0, 0>>}, o \in Ops, g \in BOOLEAN}
             ok == {t \in inner : ~(t.k = op /\ ~t.neg)}
         IN  {t \in {Grp(op, <<x, Lf(5, g5)>>, ng) : x \in RandomSubset(Depth3Samples, ok), g5 \in BOOLEAN} : Positive(t)}
            \cup {t \in {Grp(op, <<Lf(5, g5), x, Lf(6, FALSE)>>, ng) : x \in RandomSubset(Depth3Samples, ok), g5 \in BOOLEAN} : Positive(t)}

StylesUsed == {DnegStyle} \cup
              IF StyleMode = 1 THEN Styles
              ELSE {PlainStyle,
                    [unit |-> TRUE, chain |-> TRUE, top |-> TRUE, negout |-> TRUE, rev |-> TRUE, drop |-> FALSE, dneg |-> FALSE],
                    [unit |-> FALSE, chain |-> TRUE, top |-> FALSE, negout |-> FALSE, rev |-> TRUE, drop |-> FALSE, dneg |-> FALSE],
                    [unit |-> TRUE, chain |-> FALSE, top |-> TRUE, negout |-> FALSE, rev |-> FALSE, drop |-> FALSE, dneg |-> FALSE]}

(* ------------------------- cases ----------------------------------------- *)
(* kind "ast": one rule rendered from ast; "chain": superiors chain; "alias": alias use with its
   inlined twin in inl; "extras": optional sections; stage 3 kinds name the corruption *)
Case(kind, files, mult, sep, must, base, inl, exp) ==
    [kind |-> kind, files |-> files, mult |-> mult, sep |-> sep, must |-> must, base |-> base, inl |-> inl, exp |-> exp]
Dummy == Case("none", <<>>, UnitMult, 0, "denote", FALSE, <<>>, <<>>)
Seps == 0..6

R(name, cat, kb, nkb, sups, cond, ext, extras) ==
    RuleTokens([name |-> name, category |-> cat, kb |-> kb, nkb |-> nkb, sups |-> sups, cond |-> cond, ext |-> ext, extras |-> extras])

AstCase(t, st, sep, base) == Case("ast", << R("r1", "C", 10, 20, <<>>, RenderTop(t, st), <<>>, <<>>) >>, UnitMult, sep, "denote", base, <<>>, <<>>)

Pool == << A,
           Grp("and", <<A, Id("b", TRUE)>>, FALSE),
           Grp("or", <<Cds(Grp("and", <<A, B>>, FALSE), FALSE), C>>, FALSE),
           Grp("and", <<Min(2, {"a", "b", "c"}, FALSE), Grp("or", <<C, D>>, TRUE)>>, FALSE),
           Grp("or", <<Score("a", 5, FALSE), Grp("and", <<B, C>>, FALSE)>>, FALSE) >>

(* superiors chains: r2 under r1, r3 under r2 (and so under r1), r4 / r5 with two superiors, split over one to three files *)
ChainFiles(ts, split, explicit) ==
    LET r1 == R("r1", "C", 10, 20, <<>>, RenderTop(ts[1], PlainStyle), <<>>, <<>>)
        r2 == R("r2", "D", 5, 7, <<"r1">>, RenderTop(ts[2], PlainStyle), <<>>, <<>>)
        r3 == R("r3", "C", 3, 1, IF explicit THEN <<"r2", "r1">> ELSE <<"r2">>, RenderTop(ts[3], PlainStyle), <<>>, <<>>)
        (* r4 names r1 first: what it inherits comes through its second superior *)
        r4 == R("r4", "D", 2, 4, <<"r1", "r3">>, <<"b">>, <<>>, <<>>)
        (* r5 names r3 first and r1 last: what it inherits (r2) comes through its first superior only *)
        r5 == R("r5", "C", 15, 4, <<"r3", "r1">>, <<"c">>, <<>>, <<>>)
    IN  CASE split = 0 -> << r1 \o r2 \o r3 \o r4 \o r5 >>
          [] split = 1 -> << r1, r2 \o r3 \o r4 \o r5 >>
          [] split = 2 -> << r1 \o r2, r3 \o r4 \o r5 >>
          [] split = 3 -> << r1, r2, r3 \o r4 \o r5 >>
ChainExp(ts, m) ==
    << [name |-> "r1", category |-> "C", cutoff |-> Scale(10, m[1], m[2]), nbhd |-> Scale(20, m[3], m[4]), superiors |-> {}, ast |-> ts[1], ext |-> NoNode],
       [name |-> "r2", category |-> "D", cutoff |-> Scale(5, m[1], m[2]), nbhd |-> Scale(7, m[3], m[4]), superiors |-> {"r1"}, ast |-> ts[2], ext |-> NoNode],
       [name |-> "r3", category |-> "C", cutoff |-> Scale(3, m[1], m[2]), nbhd |-> Scale(1, m[3], m[4]), superiors |-> {"r1", "r2"}, ast |-> ts[3], ext |-> NoNode],
       [name |-> "r4", category |-> "D", cutoff |-> Scale(2, m[1], m[2]), nbhd |-> Scale(4, m[3], m[4]), superiors |-> {"r1", "r2", "r3"}, ast |-> B, ext |-> NoNode],
       [name |-> "r5", category |-> "C", cutoff |-> Scale(15, m[1], m[2]), nbhd |-> Scale(4, m[3], m[4]), superiors |-> {"r1", "r2", "r3"}, ast |-> C, ext |-> NoNode] >>
ChainCases ==
    {Case("chain", ChainFiles(<<Pool[q[1]], Pool[q[2]], Pool[q[3]]>>, split, explicit), m, sep, "denote",
          (q = <<2, 3, 4>> /\ split = 0 /\ m = UnitMult /\ sep = 0 /\ ~explicit)
          \/ (BaseMode = 1 /\ q = <<1, 2, 3>> /\ split \in {1, 3} /\ m = UnitMult /\ sep = 0 /\ explicit), <<>>, ChainExp(<<Pool[q[1]], Pool[q[2]], Pool[q[3]]>>, m)) :
       q \in {<<1, 2, 3>>, <<2, 3, 4>>, <<5, 1, 2>>, <<4, 5, 5>>}, split \in 0..3, m \in Mults, sep \in {0, 4}, explicit \in BOOLEAN}

(* aliases: body tokens spliced where the name is used; the twin has them inlined *)
AliasBodies == << <<"b">>, <<"(", "b", "or", "c", ")">>, <<"b", "or", "c">>, <<"cds", "(", "b", "and", "c", ")">>,
                  <<"minimum", "(", "2", ",", "[", "b", ",", "c", "]", ")">>, <<"not", "b">>, <<"b", ",", "c">>,
                  <<"(", "b">>, <<"b", "and", "not", "(", "c", "or", "d", ")">> >>
AliasUses == << <<"a", "and", "x1">>, <<"x1", "or", "a">>, <<"cds", "(", "a", "and", "x1", ")">>, <<"not", "x1", "and", "a">>,
                <<"minimum", "(", "1", ",", "[", "a", ",", "x1", "]", ")">>, <<"x1", ")", "and", "a">>, <<"x1">>,
                <<"a", "and", "(", "x1", ")", "or", "not", "x1">> >>
RECURSIVE Inline(_, _, _)
Inline(toks, name, body) == IF toks = <<>> THEN <<>>
                            ELSE (IF Head(toks) = name THEN body ELSE <<Head(toks)>>) \o Inline(Tail(toks), name, body)
Define(name, body) == <<"DEFINE", name, "AS">> \o body
AliasCases ==
    UNION {
      LET body == AliasBodies[bi]
          use == AliasUses[ui]
          rule(c) == R("r1", "C", 10, 20, <<>>, c, <<>>, <<>>)
          other == R("r0", "D", 2, 3, <<>>, <<"d">>, <<>>, <<>>)
          inl == Inline(use, "x1", body)
      IN  { Case("alias", << Define("x1", body) \o rule(use) >>, UnitMult, 0, "denote", (bi = 2 /\ ui = 1) \/ (BaseMode = 1 /\ ui \in {1, 5} /\ bi \in {1, 3, 4, 7, 9}), << rule(inl) >>, <<>>),
            Case("alias", << Define("x1", body), rule(use) >>, UnitMult, 4, "denote", FALSE, << rule(inl) >>, <<>>),
            Case("alias", << other \o Define("x1", body) \o rule(use) >>, UnitMult, 1, "denote", FALSE, << other \o rule(inl) >>, <<>>),
            (* nested: x2 is defined through x1 *)
            Case("alias", << Define("x1", body) \o Define("x2", <<"x1", "and", "d">>) \o rule(Inline(use, "x1", <<"x2">>)) >>, UnitMult, 2,
                 "denote", bi = 3 /\ ui = 2, << rule(Inline(use, "x1", body \o <<"and", "d">>)) >>, <<>>),
            (* alias used in EXTENDERS *)
            Case("alias", << Define("x1", body) \o R("r1", "C", 10, 20, <<>>, <<"a">>, <<"x1">>, <<>>) >>, UnitMult, 0, "denote", FALSE,
                 << R("r1", "C", 10, 20, <<>>, <<"a">>, body, <<>>) >>, <<>>) }
      : bi \in DOMAIN AliasBodies, ui \in DOMAIN AliasUses }

(* optional sections *)
ExtrasSet == << <<>>,
                <<"DESCRIPTION", "some", "text", "and", "(", "more", ")", "10">>,
                <<"DESCRIPTION">>,
                <<"DESCRIPTION", "x", "EXAMPLE", "NCBI", "AB123", ".", "1", "1-200", "compound", "name">>,
                <<"EXAMPLE", "NCBI", "AB123", ".", "1", "1-200", "EXAMPLE", "NCBI", "CD5", ".", "2", "1-200", "b">>,
                <<"RELATED", "b", ",", "zz">>,
                <<"DESCRIPTION", "not", "cds", "EXAMPLE", "NCBI", "AB123", ".", "3", "1-200", "RELATED", "c">> >>
ExtSet == << <<>>, <<"d">>, <<"cds", "(", "a", "and", "not", "d", ")">>, <<"cds", "(", "d", "or", "minscore", "(", "a", ",", "5", ")", ")">> >>
ExtAst == << NoNode, D, Cds(Grp("and", <<A, Id("d", TRUE)>>, FALSE), FALSE), Cds(Grp("or", <<D, Score("a", 5, FALSE)>>, FALSE), FALSE) >>
ExtrasCases ==
    {Case("extras", << R("r1", "C", 7, 0, <<>>, RenderTop(Pool[pi], PlainStyle), ExtSet[xi], ExtrasSet[ei]) >>, m, sep, "denote",
          (ei = 7 /\ xi = 3 /\ pi = 3 /\ m = UnitMult /\ sep = 0) \/ (BaseMode = 1 /\ m = UnitMult /\ sep = 0), <<>>,
          << [name |-> "r1", category |-> "C", cutoff |-> Scale(7, m[1], m[2]), nbhd |-> 0, superiors |-> {}, ast |-> Pool[pi], ext |-> ExtAst[xi]] >>) :
       pi \in DOMAIN Pool, xi \in DOMAIN ExtSet, ei \in DOMAIN ExtrasSet, m \in {UnitMult, <<3, 2, 1, 2>>}, sep \in {0, 5}}

(* shards: <<family, a, b, c>> *)
AstShards == {<<"tree", s, op, FALSE>> : s \in Shapes, op \in Ops}
KindShards == {<<"kind", s, op, k>> : s \in KindShapes, op \in Ops, k \in DOMAIN Kinds}
OtherShards == {<<"single", 0, 0, 0>>, <<"chain", 0, 0, 0>>, <<"alias", 0, 0, 0>>, <<"extras", 0, 0, 0>>}
               \cup (IF Depth3Samples = 0 THEN {} ELSE {<<"deep", 0, op, FALSE>> : op \in Ops})
Shards == AstShards \cup KindShards \cup OtherShards

BaseTrees == {Grp("and", <<A, Grp("or", <<Id("b", TRUE), C>>, FALSE)>>, FALSE),
              Grp("or", <<Grp("and", <<A, B>>, TRUE), C, Id("d", TRUE)>>, FALSE)}
TreeCases(trees) == {AstCase(t, st, sep, t \in BaseTrees /\ st = PlainStyle /\ sep = 0) : t \in trees, st \in StylesUsed, sep \in {0}}
                    \cup {AstCase(t, PlainStyle, sep, FALSE) : t \in trees, sep \in {3}}
CasesOf(sh) ==
    CASE sh[1] = "chain" -> ChainCases
      [] sh[1] = "alias" -> AliasCases
      [] sh[1] = "extras" -> ExtrasCases

(* ------------------------- corruptions ------------------------------------ *)
SetFile(c, f, toks) == [c EXCEPT !.files = [c.files EXCEPT ![f] = toks]]
Corrupt(c, kind, files, must) == [c EXCEPT !.kind = kind, !.files = files, !.must = must, !.base = FALSE, !.inl = <<>>, !.exp = <<>>]
DelAt(t, i) == SubSeq(t, 1, i - 1) \o SubSeq(t, i + 1, Len(t))
InsAt(t, i, x) == SubSeq(t, 1, i - 1) \o x \o SubSeq(t, i, Len(t))     (* x (a sequence) before position i *)
ReplAt(t, i, x) == SubSeq(t, 1, i - 1) \o x \o SubSeq(t, i + 1, Len(t))
FileEdit(c, kind, f, toks, must) == Corrupt(c, kind, [c.files EXCEPT ![f] = toks], must)

(* index sets inside file t *)
IndexOf(t, tok) == {i \in DOMAIN t : t[i] = tok}
(* positions in a CONDITIONS section (up to the next rule keyword) *)
InConditions(t, i) == \E j \in IndexOf(t, "CONDITIONS") : j < i /\ \A k \in (j + 1)..i : t[k] \notin RuleKeywords
InExtenders(t, i) == \E j \in IndexOf(t, "EXTENDERS") : j < i /\ \A k \in (j + 1)..i : t[k] \notin RuleKeywords
EndOfConditions(t, j) == NextIn(LexSeq(t), j + 1, RuleKeywords) - 1     (* last token of the section starting at keyword j *)

Generic(c) ==
    UNION {LET t == c.files[f] IN
             {FileEdit(c, "delete", f, DelAt(t, i), "denote") : i \in DOMAIN t}
        \cup {FileEdit(c, "duplicate", f, InsAt(t, i, <<t[i]>>), "denote") : i \in DOMAIN t}
        \cup {FileEdit(c, "swap", f, ReplAt(ReplAt(t, i, <<t[i + 1]>>), i + 1, <<t[i]>>), "denote") : i \in 1..(Len(t) - 1)}
        \cup {FileEdit(c, "replace", f, ReplAt(t, i, <<v>>), "denote") : i \in DOMAIN t, v \in ReplVocab}
        \cup {FileEdit(c, "truncate", f, SubSeq(t, 1, i), "denote") : i \in 1..(Len(t) - 1)}
        \cup {FileEdit(c, "insert", f, InsAt(t, i, <<v>>), "denote") : i \in DOMAIN t, v \in {"not", "(", ")", "and", "a"}}
      : f \in DOMAIN c.files}

Constructive(c) ==
    UNION {LET t == c.files[f]
               conds == IndexOf(t, "CONDITIONS")
           IN
             {FileEdit(c, "unknown_profile", f, ReplAt(t, i, <<"zz">>), "reject") : i \in {i \in DOMAIN t : LexClosed(t[i]).k = "ID" /\ InConditions(t, i) /\ t[i] \notin {"x1", "x2"}}}
        \cup {FileEdit(c, "extender_profile", f, ReplAt(t, i, <<"zz">>), "reject") : i \in {i \in DOMAIN t : LexClosed(t[i]).k = "ID" /\ InExtenders(t, i) /\ t[i] \notin {"x1", "x2"}}}
        \cup {FileEdit(c, "unknown_category", f, ReplAt(t, i + 1, <<"Nope">>), "reject") : i \in IndexOf(t, "CATEGORY")}
        \cup {FileEdit(c, "duplicate_rule", f, t \o SubSeq(t, i, NextIn(LexSeq(t), i + 1, Starters) - 1), "reject") : i \in IndexOf(t, "RULE")}
        \cup {FileEdit(c, "duplicate_alias", f, InsAt(t, i, SubSeq(t, i, NextIn(LexSeq(t), i + 3, RuleKeywords) - 1)), "reject") : i \in IndexOf(t, "DEFINE")}
        \cup {FileEdit(c, "alias_name_clash", f, InsAt(t, i, Define(n, <<"b">>)), "reject") : i \in IndexOf(t, "RULE"), n \in {"a", "C"}}
        \cup {FileEdit(c, "alias_name_clash", f, t \o Define(t[i + 1], <<"b">>), "reject") : i \in IndexOf(t, "RULE")}
        \cup {FileEdit(c, "alias_as_rule_name", f, InsAt(t, i, Define(t[i + 1], <<"b">>)), "reject") : i \in IndexOf(t, "RULE")}
        \cup {FileEdit(c, "repeated_operand", f, InsAt(t, EndOfConditions(t, j) + 1, <<op>> \o SubSeq(t, j + 1, EndOfConditions(t, j))), "reject") : j \in conds, op \in {"or"}}
        \cup {FileEdit(c, "repeated_operand", f, InsAt(t, EndOfConditions(t, j) + 1, <<"and", "(", "b", "or", "c", "or", "b", ")">>), "reject") : j \in conds}
        (* cds(...) holds profile names joined by and / or / not and groups of those - no minimum(...) and no further cds(...),
           however deep inside a group of the cds they sit *)
        \cup {FileEdit(c, "nested_in_cds", f, InsAt(t, EndOfConditions(t, j) + 1,
                        <<"and", "cds", "(", "e", "and", "(">> \o inner \o <<"or", "f", ")", ")">>), "reject") :
                 j \in conds, inner \in {<<"minimum", "(", "2", ",", "[", "b", ",", "c", "]", ")">>, <<"cds", "(", "b", "and", "c", ")">>}}
        \cup {FileEdit(c, "repeated_option", f, InsAt(t, EndOfConditions(t, j) + 1, <<"and", "minimum", "(", "1", ",", "[", "e", ",", "f", ",", "e", "]", ")">>), "reject") : j \in conds}
        \cup {FileEdit(c, "missing_section", f, DelAt(DelAt(t, i), i), "reject") : i \in IndexOf(t, "CATEGORY") \cup IndexOf(t, "CUTOFF") \cup IndexOf(t, "NEIGHBOURHOOD")}
        \cup {FileEdit(c, "missing_section", f, DelAt(t, i), "reject") : i \in conds}
        \cup {FileEdit(c, "missing_section", f, SubSeq(t, 1, i) \o SubSeq(t, EndOfConditions(t, i) + 1, Len(t)), "reject") : i \in conds}
        \cup {FileEdit(c, "unbalanced_group", f, DelAt(t, i), "reject") : i \in {i \in IndexOf(t, "(") \cup IndexOf(t, ")") : InConditions(t, i) \/ InExtenders(t, i)}}
        \cup {FileEdit(c, "no_positive", f, InsAt(ReplAt(t, j, <<"CONDITIONS", "not", "(">>), EndOfConditions(t, j) + 3, <<")">>), "reject") : j \in conds}
        \cup {FileEdit(c, "superior_undefined", f, InsAt(t, i, <<"SUPERIORS", n>>), "reject") :
                i \in {i \in IndexOf(t, "CUTOFF") : \A k \in 1..i : t[k] # "SUPERIORS" /\ (t[k] = "RULE" => k <= 1)}, n \in {"r9", "r1", "r3"}}
        \cup {FileEdit(c, "superior_duplicated", f, InsAt(t, i + 2, <<",", t[i + 1]>>), "reject") : i \in IndexOf(t, "SUPERIORS")}
        \cup {FileEdit(c, "trailing_not", f, t \o <<"and", "not">>, "reject") : x \in IF f = Len(c.files) /\ IndexOf(t, "EXTENDERS") = {} /\ conds # {} THEN {1} ELSE {}}
        \cup {FileEdit(c, "empty_input", f, <<>>, "reject")}
      : f \in DOMAIN c.files}

(* ------------------------- behaviour --------------------------------------- *)
Init == stage = 0 /\ shard = <<"none", 0, 0, 0>> /\ case = Dummy /\ ast = NoNode
PickShard == stage = 0 /\ stage' = 1 /\ shard' \in Shards /\ UNCHANGED <<case, ast>>
TreesOf(sh) == CASE sh[1] = "tree" -> Trees(sh[2], sh[3], sh[4])
                 [] sh[1] = "kind" -> {t \in {Subst(x, Kinds[sh[4]]) : x \in UNION {Trees(sh[2], sh[3], g) : g \in BOOLEAN}} : Positive(t) /\ WellFormed(t, FALSE)}
                 [] sh[1] = "single" -> SingleTrees
                 [] sh[1] = "deep" -> Depth3(sh[3], sh[4])
                 [] OTHER -> {}
PickTree == /\ stage = 1 /\ shard[1] \in {"tree", "kind", "single", "deep"} /\ stage' = 2
            /\ \E t \in TreesOf(shard) :
                  /\ ast' = t
                  /\ case' \in (IF shard[1] = "single" THEN {AstCase(t, st, sep, FALSE) : st \in StylesUsed, sep \in Seps}
                                ELSE TreeCases({t}))
            /\ UNCHANGED shard
PickFile == /\ stage = 1 /\ shard[1] \in {"chain", "alias", "extras"} /\ stage' = 2
            /\ case' \in CasesOf(shard)
            /\ UNCHANGED <<shard, ast>>
CorruptGeneric == stage = 2 /\ case.base /\ stage' = 3 /\ case' \in Generic(case) /\ UNCHANGED <<shard, ast>>
CorruptConstructive == stage = 2 /\ case.base /\ stage' = 3 /\ case' \in Constructive(case) /\ UNCHANGED <<shard, ast>>
Next == PickShard \/ PickTree \/ PickFile \/ CorruptGeneric \/ CorruptConstructive
Spec == Init /\ [][Next]_vars

(* ------------------------- invariants --------------------------------------- *)
Den(files, m) == Denote(files, Env, m)
(* precedence and grouping are unambiguous: every style reads back as the tree it came from *)
HasDoubleNegation(toks) == \E i \in 1..(Len(toks) - 3) : toks[i] = "not" /\ toks[i + 1] = "(" /\ toks[i + 2] = "not" /\ toks[i + 3] = "("
RoundTrip == (stage = 2 /\ case.kind = "ast") =>
    LET d == Den(case.files, case.mult) IN
    /\ WellFormed(ast, FALSE) /\ Norm(ast) = ast
    /\ \/ (HasDoubleNegation(case.files[1]) /\ ~d.ok)   \* a doubly negated operand is no positive requirement
       \/ /\ d.ok /\ d.soft = {} /\ Len(d.st.rules) = 1
          /\ d.st.rules[1].ast = ast
          /\ d.st.rules[1].cutoff = 10000 /\ d.st.rules[1].nbhd = 20000
(* the meaning used to compare trees: a tree means what it means, never what its negation means, and a
   chain means the same with its operands reversed *)
EquivSane == (stage = 2 /\ case.kind = "ast" /\ case.sep = 3 /\ LeafCount(ast) <= 3) =>
    /\ Equiv(ast, ast) /\ ~Equiv(ast, Negate(ast))
    /\ (ast.k \in {"and", "or"} => Equiv(ast, [ast EXCEPT !.args = RevSeq(ast.args)]))
    /\ (ast.k = "and" => ~Equiv(ast, [ast EXCEPT !.k = "or"]))
(* multi-rule / multi-file cases denote the constructed state; superiors are closed; distances scaled *)
FileDenotes == (stage = 2 /\ case.exp # <<>>) =>
    LET d == Den(case.files, case.mult) IN d.ok /\ d.soft = {} /\ d.st.rules = case.exp /\ SuperiorsClosed(d.st)
SuperiorsTransitive == (stage = 2) => LET d == Den(case.files, case.mult) IN d.ok => SuperiorsClosed(d.st)
(* alias expansion is textual inlining: same verdict, same rules *)
AliasIsInlining == (stage = 2 /\ case.inl # <<>>) =>
    LET d == Den(case.files, case.mult)
        e == Den(case.inl, case.mult)
    IN  d.ok = e.ok /\ (d.ok => d.st.rules = e.st.rules)
(* every constructive corruption is ill-formed for the reference grammar *)
ConstructiveIsIllFormed == (stage = 3 /\ case.must = "reject") => ~Den(case.files, case.mult).ok
(* a multiplier changes distances only *)
MultiplierOnlyScales == (stage = 2 /\ case.kind = "chain") =>
    LET d == Den(case.files, case.mult)
        u == Den(case.files, UnitMult)
    IN  /\ d.ok = u.ok /\ Len(d.st.rules) = Len(u.st.rules)
        /\ \A i \in DOMAIN d.st.rules : /\ d.st.rules[i].ast = u.st.rules[i].ast /\ d.st.rules[i].superiors = u.st.rules[i].superiors
                                        /\ d.st.rules[i].cutoff * case.mult[2] <= u.st.rules[i].cutoff * case.mult[1]
                                        /\ (d.st.rules[i].cutoff + 1) * case.mult[2] > u.st.rules[i].cutoff * case.mult[1]
(* whitespace and comments are irrelevant: the tokeniser recovers the token texts from the joined text,
   whatever separators are used (0..4 one separator everywhere, 5 none next to punctuation, 6 rotation
   plus comment lines around) *)
SepFor(toks, i, sep) == IF sep <= 4 THEN SepCP[sep + 1]
                        ELSE IF sep = 5 THEN (IF toks[i] \in Punct \/ toks[i - 1] \in Punct THEN <<>> ELSE <<32>>)
                        ELSE SepCP[((i - 1) % 6) + 1]
RECURSIVE JoinFrom(_, _, _)
JoinFrom(toks, i, sep) == IF i > Len(toks) THEN <<>>
                          ELSE (IF i > 1 THEN SepFor(toks, i, sep) ELSE <<>>) \o CP[toks[i]] \o JoinFrom(toks, i + 1, sep)
JoinCP(toks, sep) == IF sep = 6 THEN SepCP[7] \o JoinFrom(toks, 1, sep) \o SepCP[8] ELSE JoinFrom(toks, 1, sep)
SeparatorsIrrelevant == (stage = 2 /\ (case.kind # "ast" \/ case.sep # 0)) =>
    \A f \in DOMAIN case.files : \A sep \in {case.sep, 6} :
        Tokenise(JoinCP(case.files[f], sep)) = [i \in DOMAIN case.files[f] |-> CP[case.files[f][i]]]
(* the closed vocabulary is classified as the lexical grammar classifies its spelling (checked once),
   and the generator never leaves the vocabulary *)
ASSUME VocabularyClassified == \A s \in DOMAIN CP : Classify(s, CP[s]) = LexClosed(s)
InVocabulary == (stage >= 2) => \A f \in DOMAIN case.files : \A i \in DOMAIN case.files[f] : case.files[f][i] \in DOMAIN CP
(* negative control (must be VIOLATED): without the parentheses that precedence requires a tree does
   not read back as itself *)
ParenthesesNeverNeeded == (stage = 2 /\ case.kind = "ast") =>
    LET d == Den(<< R("r1", "C", 10, 20, <<>>, RenderTop(ast, DropStyle), <<>>, <<>>) >>, UnitMult)
    IN  d.ok /\ d.st.rules[1].ast = ast
=============================================================================
