---------------------------- MODULE RecordIds_MC ----------------------------
(* Generator + model-level check for C16.  Stage-2 states are all lists of      *)
(* 1..MaxIds identifiers from Pool (two-level Next: first id, then the rest) x    *)
(* both settings of allow_long_headers; they are the cases replayed against the   *)
(* real pre-processing.  On every list:                                           *)
(*   - the repaired pipeline satisfies the post-condition (so the relation is     *)
(*     satisfiable and the proposed repair is sufficient on the bounded inputs);   *)
(*   - the pipeline as implemented (strip after the bookkeeping) is expected to   *)
(*     violate ImplDistinct: negative control exhibiting P7 inside TLC;            *)
(*   - likewise ImplShort (an id with a contig number of more than five digits);   *)
(*   - every other clause holds on the implemented pipeline as well.               *)
(* `impl` carries the implemented pipeline's prediction so that the harness can    *)
(* report drift between the code and the implementation model (never an alarm).    *)
EXTENDS RecordIds, TLC
CONSTANTS Pool, MaxIds
VARIABLES stage, allow, ids, impl
vars == <<stage, allow, ids, impl>>

Lists(k) == [1..k -> Pool]
AsRecords(xs) == [i \in DOMAIN xs |-> [id |-> xs[i].id, name |-> xs[i].id, orig |-> <<>>, no |-> xs[i].no]]
Prediction(xs, a) == LET p == ImplIds(AsRecords(xs), a)
                     IN  [rejected |-> p.rejected, ids |-> [i \in DOMAIN p.v |-> p.v[i].id]]
Init == stage = 0 /\ allow \in BOOLEAN /\ ids = <<>> /\ impl = [rejected |-> FALSE, ids |-> <<>>]
PickFirst == stage = 0 /\ stage' = 1 /\ ids' \in Lists(1) /\ UNCHANGED <<allow, impl>>
PickRest == /\ stage = 1 /\ stage' = 2 /\ UNCHANGED allow
            /\ \E k \in 0..(MaxIds - 1) : \E t \in Lists(k) : ids' = ids \o t
            /\ impl' = Prediction(ids', allow)
Next == PickFirst \/ PickRest
Spec == Init /\ [][Next]_vars

In == AsRecords(ids)
Repaired == RepairedIds(In, allow)
Impl == ImplIds(In, allow)

RepairedSatisfies == stage = 2 =>
    IF Repaired.rejected THEN RejectionJustified(In) ELSE IdsOK(In, Repaired.v, allow)
(* expected to be violated (P7) *)
ImplDistinct == stage = 2 => (~Impl.rejected => "ids_pairwise_distinct" \notin IdsFailed(In, Impl.v, allow))
(* expected to be violated (contig number of more than five digits) *)
ImplShort == stage = 2 => (~Impl.rejected => IdsFailed(In, Impl.v, allow) \cap {"at_most_16_characters", "name_at_most_16_characters"} = {})
ImplOtherClauses == stage = 2 =>
    IF Impl.rejected THEN RejectionJustified(In)
    ELSE IdsFailed(In, Impl.v, allow) \subseteq {"ids_pairwise_distinct", "at_most_16_characters", "name_at_most_16_characters"}
(* the repair changes nothing where the implemented pipeline was already right *)
RepairConservative == stage = 2 =>
    ((~Impl.rejected /\ IdsOK(In, Impl.v, allow)) => Repaired.v = Impl.v)
StageOneDistinct == stage = 2 => LET s == Stage1(In) IN Cardinality(IdsOf(s)) = Len(s)
(* not vacuous: some list is rejected, some list is renamed, some list is left alone *)
NeverRejected == stage = 2 => ~Repaired.rejected
NeverChanged == stage = 2 => \A i \in DOMAIN In : Repaired.v[i].id = In[i].id
=============================================================================
