---------------------------- MODULE Refine_Trace ----------------------------
(* Trace validation for C13.  One event = one abstract input together with every result the     *)
(* real code returned for it (one per permutation of the input list, per hash seed of the child  *)
(* interpreter, per hash schedule of the duck-typed hit objects).  TLC decides the relation of   *)
(* Refine.tla on every distinct result and order independence as "all results are equal".         *)
(* A result is [exc |-> "" | exception name, v |-> value].                                         *)
EXTENDS Refine, TLC, Json, IOUtils
VARIABLE l
Trace == ndJsonDeserialize(IOEnv.TRACE_FILE)

Tag(op, S) == {op \o "/" \o c : c \in S}
Results(rs) == {rs[i] : i \in DOMAIN rs}
Excs(op, R) == {op \o "/no_exception:" \o r.exc : r \in {x \in R : x.exc # ""}}
Good(R) == {r.v : r \in {x \in R : x.exc = ""}}
(* "the same result": the same hits; the order of kept hits that start at the same position is not
   part of the statement (sortedness by position is a clause of its own) *)
BagOf(seq) == {<<x, Count(seq, x)>> : x \in RangeOf(seq)}
OrderFree(op, R) == IF Cardinality(R) > 1 THEN {op \o "/order_independent"} ELSE {}
Bags(R) == {[exc |-> r.exc, v |-> BagOf(r.v)] : r \in R}

(* drift (reported, never an alarm): the result is not what the implementation-shaped model yields
   for any order of the hits under any subset of the three repairs *)
FixCombos == [total : BOOLEAN, span : BOOLEAN, chains : BOOLEAN]
Modelled(prof, H, nb, out) ==
    \/ \E p \in PermsOf(H) : ImplRefine(prof, p, nb, NoFix) = out
    \/ \E fix \in FixCombos \ {NoFix} : \E p \in PermsOf(H) : ImplRefine(prof, p, nb, fix) = out

RefineMode(ev, op, rs, nb) ==
    LET R == Results(rs)
        H == RangeOf(ev.hits)
    IN  Excs(op, R) \cup OrderFree(op, Bags(R))
        \cup UNION {Tag(op, RefineClauses(ev.prof, H, v)) : v \in Good(R)}
        \cup (IF ev.drift /\ \E v \in Good(R) : ~Modelled(ev.prof, H, nb, v) THEN {"drift/" \o op} ELSE {})
RefineFailed(ev) == RefineMode(ev, "refine", ev.d, FALSE) \cup RefineMode(ev, "refine_neighbour", ev.n, TRUE)

NoOverlapFailed(ev) ==
    LET R == Results(ev.outs)
        H == RangeOf(ev.hits)
    IN  Excs("remove_overlapping", R) \cup OrderFree("remove_overlapping", Bags(R))
        \cup UNION {Tag("remove_overlapping", NoOverlapClauses(ev.prof, ev.limit, ev.hits, v)) : v \in Good(R)}

CompeteFailed(ev) ==
    LET groups == {RangeOf(ev.groups[i]) : i \in DOMAIN ev.groups}
        RF == Results(ev.fr)
        RM == Results(ev.fm)
    IN  Excs("filter_results", RF) \cup OrderFree("filter_results", {[exc |-> r.exc, v |-> BagOf(r.v.out)] : r \in RF})
        \cup UNION {Tag("filter_results", FilterClauses(groups, r.hits, r.v.out, r.v.byid)) : r \in {x \in RF : x.exc = ""}}
        \cup Excs("filter_result_multiple", RM) \cup OrderFree("filter_result_multiple", {[exc |-> r.exc, v |-> BagOf(r.v.out)] : r \in RM})
        \cup UNION {Tag("filter_result_multiple", MultipleClauses(r.hits, r.v.out, r.v.byid)) : r \in {x \in RM : x.exc = ""}}
        (* the composition the pipeline uses (find_hmmer_hits): what comes out is the best hit of each profile among the hits
           that survived the competition between equivalent profiles (mid: that survivor list for the same input order) *)
        \cup Excs("find_hmmer_hits", Results(ev.fh))
        \cup UNION {IF FilterClauses(groups, r.hits, r.v.mid, r.v.mid) = {}
                        /\ MultipleClauses(r.v.mid, r.v.out, r.v.out) \ {"sorted_by_position"} # {}
                    THEN {"find_hmmer_hits/best_of_each_profile_among_the_survivors_of_the_competition"} ELSE {}
                    : r \in {x \in Results(ev.fh) : x.exc = ""}}

Failed(ev) == CASE ev.op = "refine" -> RefineFailed(ev)
                [] ev.op = "nooverlap" -> NoOverlapFailed(ev)
                [] ev.op = "compete" -> CompeteFailed(ev)
                [] OTHER -> {"trace/unknown_op"}

Init == l = 1
Step == /\ l <= Len(Trace)
        /\ \A c \in Failed(Trace[l]) : PrintT(<<"REJECT", Trace[l].id, c>>)
        /\ l' = l + 1
Done == l = Len(Trace) + 1 /\ PrintT(<<"DONE", Len(Trace)>>) /\ l' = l + 1
Next == Step \/ Done
Spec == Init /\ [][Next]_l
=============================================================================
