----------------------------- MODULE NrpsModules -----------------------------
(***************************************************************************)
(* Property C14: NRPS/PKS modules partition a gene's domains in order and   *)
(* obey the documented module rules.                                        *)
(*                                                                          *)
(* A domain is a record [l |-> profile name, s |-> first subtype or "",     *)
(* c |-> class, p |-> name starts with "PKS"].  The class is one of         *)
(*   "A" adenylation  "AT" acyltransferase  "C" condensation  "KS"          *)
(*   "S" alternate starter  "+" modification  "CP" carrier protein          *)
(*   "E" end  "!" special  "." other  "ignore" docking/COM.                 *)
(* A component is a domain plus [g |-> gene number, i |-> 0-based position  *)
(* in that gene].  A module (as observed or as produced by the model) is    *)
(*   [comps, complete, first, tat, iter, sm, tm]                            *)
(* (components in order, complete flag, first-module-of-its-gene flag,      *)
(* trans-AT, iterative, starter-module and termination-module flags).       *)
(*                                                                          *)
(* Two layers.  (1) The *rules*: WellLaid, Partition, the completeness and  *)
(* trans-AT sandwiches, the flag definitions, the merge relation.  They     *)
(* judge the real code and leave every freedom the documentation leaves.    *)
(* (2) The *state machine* Add/Build/Combine: one step per domain with a    *)
(* look-ahead, shaped like the documented construction.  TLC shows on the   *)
(* model that its output satisfies the rules (so the rules are satisfiable  *)
(* and not contradictory); it is never compared with the code's output.     *)
(***************************************************************************)
EXTENDS Integers, Sequences, FiniteSets

MinOf(S) == CHOOSE x \in S : \A y \in S : x <= y
MaxOf(S) == CHOOSE x \in S : \A y \in S : x >= y
Only(cond, name) == IF cond THEN {} ELSE {name}

LPG == "LPG_synthase_C"
BETA == "Beta_elim_lyase"
(* a second carrier protein is legal only when directly followed by one of these *)
DoubleTransporterCases == { <<LPG, BETA>> }
ExplicitStarterUnits == {"Condensation_Starter", "CAL_domain", "SAT"}
ChainEnds == {"Thioesterase", "TD"}
FusedStarterLabels == {"AMP-binding", "A-OX", "PKS_AT", "Interface"}

(* ---- single domains --------------------------------------------------------------- *)
IsIgnored(d) == d.c = "ignore"
IsSpecial(d) == d.c = "!"
IsLoader(d) == d.c \in {"A", "AT"} \/ d.l = "CAL_domain"
IsStarterCapable(d) == d.c \in {"C", "KS", "A", "AT", "S"}
IsExplicitStarter(d) == IsStarterCapable(d) /\ ~IsLoader(d)
IsMod(d) == d.c = "+"
IsCP(d) == d.c = "CP"
IsEnd(d) == d.c = "E"
PksSpecific(d) == d.p \/ d.c \in {"AT", "KS"}
NrpsSpecific(d) == d.c \in {"A", "C"}

(* ---- sequences of components -------------------------------------------------------- *)
Pos(m, P(_)) == {k \in DOMAIN m : P(m[k])}
Labels(m) == [k \in DOMAIN m |-> m[k].l]
Before(m, k) == SubSeq(m, 1, k - 1)
After(m, k) == SubSeq(m, k + 1, Len(m))
IsPrefix(a, b) == Len(a) <= Len(b) /\ \A k \in DOMAIN a : a[k] = b[k]

HasStarter(m) == Pos(m, IsStarterCapable) # {}
StarterOf(m) == m[MinOf(Pos(m, IsStarterCapable))]
HasLoader(m) == Pos(m, IsLoader) # {}
LoaderOf(m) == m[MinOf(Pos(m, IsLoader))]
HasCP(m) == Pos(m, IsCP) # {}
Pks(m) == \E k \in DOMAIN m : PksSpecific(m[k])
Nrps(m) == (HasStarter(m) /\ NrpsSpecific(StarterOf(m))) \/ (HasLoader(m) /\ NrpsSpecific(LoaderOf(m)))
HasDocking(m) == \E k \in DOMAIN m : m[k].l = "Trans-AT_docking"

(* trans-AT, as a band: the documentation names the Trans-AT-KS starter; the code comment adds
   "the KS subtype may not be accurate enough, look for an ATd".  Must: KS starter, no loader,
   subtype or docking domain.  May: any starter in a module with PKS-specific parts. *)
TransATMay(m) == /\ Pks(m) /\ HasStarter(m) /\ ~HasLoader(m)
                 /\ (StarterOf(m).s = "Trans-AT-KS" \/ HasDocking(m))
TransATMust(m) == TransATMay(m) /\ StarterOf(m).c = "KS"

(* length of the longest double-transporter case that `labels` starts with (0: none) *)
CaseLen(labels) == LET hit == {Len(case) : case \in {x \in DoubleTransporterCases : IsPrefix(x, labels)}}
                   IN  IF hit = {} THEN 0 ELSE MaxOf(hit)
ExtraCPs(m) == IF HasCP(m) THEN Pos(m, IsCP) \ {MinOf(Pos(m, IsCP))} ELSE {}
(* position k belongs to the double-transporter tail of an extra carrier protein *)
InTransporterTail(m, k) == \E j \in ExtraCPs(m) : j < k /\ k <= j + CaseLen(Labels(After(m, j)))

(* ---- the documented layout ------------------------------------------------------------
   [starter] loader [modification ...] carrier_protein [finalisation]
   trans-AT: starter [modification ...] carrier_protein [KR] [finalisation]               *)
WellLaidClauses(m) ==
    LET starters == Pos(m, IsExplicitStarter)
        loaders == Pos(m, IsLoader)
        cps == Pos(m, IsCP)
        ends == Pos(m, IsEnd)
        core(d) == IsLoader(d) \/ IsMod(d) \/ IsCP(d) \/ IsEnd(d)
    IN  Only(Len(m) >= 1, "module_not_empty")
        \cup Only(\A k \in DOMAIN m : ~IsIgnored(m[k]), "no_docking_domain_inside")
        \cup Only(Cardinality(starters) <= 1, "at_most_one_starter")
        \cup Only(\A k \in starters : \A j \in 1..(k - 1) : ~core(m[j]), "starter_leads")
        \cup Only(Cardinality(loaders) <= 1, "at_most_one_loader")
        \cup Only(\A k \in loaders : \A j \in 1..(k - 1) : ~(IsMod(m[j]) \/ IsCP(m[j]) \/ IsEnd(m[j])),
                  "loader_before_modifications_and_carrier")
        \cup Only(\A k \in starters, j \in loaders :
                     /\ ~(PksSpecific(m[k]) /\ NrpsSpecific(m[j]))
                     /\ ~(NrpsSpecific(m[k]) /\ PksSpecific(m[j])), "no_nrps_pks_mix")
        \cup Only(\A k \in ExtraCPs(m) : CaseLen(Labels(After(m, k))) > 0, "at_most_one_carrier_protein")
        \cup Only(\A k \in Pos(m, IsMod) :
                     \/ \A j \in cps : k < j
                     \/ InTransporterTail(m, k)
                     \/ (m[k].l = "PKS_KR" /\ TransATMay(m)), "modifications_before_carrier_protein")
        \cup Only(Cardinality(ends) <= 1, "at_most_one_end")
        \cup Only(\A k \in ends : \A j \in (k + 1)..Len(m) : IsSpecial(m[j]), "nothing_after_end")
WellLaid(m) == WellLaidClauses(m) = {}

(* ---- completeness, as a band -------------------------------------------------------------
   statement: complete only with starter, loader and carrier protein, or trans-AT with carrier
   protein.  A loader that doubles as starter counts as starter only in the first module of a
   gene (code comment + test_starters).  Must-be-complete: what test_completness pins.      *)
ProperStart(m, first) == HasLoader(m) /\ (Pos(m, IsExplicitStarter) # {} \/ first)
CompleteMay(m, first) == HasCP(m) /\ (ProperStart(m, first) \/ TransATMay(m))
CompleteMust(m, first) == HasCP(m) /\ (ProperStart(m, first) \/ TransATMust(m))

Iterative(m) == HasStarter(m) /\ StarterOf(m).s = "Iterative-KS"
StarterModule(m, first) == HasStarter(m) /\ (StarterOf(m).l \in ExplicitStarterUnits
                                              \/ (IsLoader(StarterOf(m)) /\ first))
TerminationModule(m) == \E k \in Pos(m, IsEnd) : m[k].l \in ChainEnds

(* ---- the state machine ---------------------------------------------------------------------
   Accept(v, m, c, up): may component c join module m, given the labels `up` that follow c?
   v selects the model: "ok", or a deliberately wrong variant used as negative control.     *)
PendingTransporter(m, c) ==
    \E j \in ExtraCPs(m) : \E case \in DoubleTransporterCases :
        LET t == Len(m) - j
        IN  t < Len(case) /\ IsPrefix(Labels(After(m, j)), case) /\ c.l = case[t + 1]

Accept(v, m, c, up) ==
    IF IsSpecial(c) THEN TRUE
    ELSE IF PendingTransporter(m, c) THEN TRUE
    ELSE IF Pos(m, IsEnd) # {} THEN FALSE
    ELSE IF IsExplicitStarter(c) THEN Len(m) = 0
    ELSE IF IsLoader(c) THEN
        /\ (v = "dup_loader" \/ ~HasLoader(m))
        /\ Pos(m, IsMod) = {} /\ ~HasCP(m)
        /\ HasStarter(m) => /\ ~(PksSpecific(StarterOf(m)) /\ NrpsSpecific(c))
                            /\ ~(NrpsSpecific(StarterOf(m)) /\ PksSpecific(c))
    ELSE IF IsMod(c) THEN ~HasCP(m) \/ (c.l = "PKS_KR" /\ TransATMay(m)) \/ v = "late_mods"
    ELSE IF IsCP(c) THEN ~HasCP(m) \/ CaseLen(up) > 0
    ELSE TRUE

(* labels of the next two domains of the gene after position k (docking domains included) *)
UpRaw(inp, k) == Labels(SubSeq(inp, k + 1, IF k + 2 <= Len(inp) THEN k + 2 ELSE Len(inp)))
(* ... and with docking/COM domains skipped *)
UpFiltered(inp, k) == Labels(SelectSeq(After(inp, k), LAMBDA d : ~IsIgnored(d)))

Comp(g, inp, k) == [g |-> g, i |-> k - 1, l |-> inp[k].l, s |-> inp[k].s, c |-> inp[k].c, p |-> inp[k].p]

RECURSIVE BuildFrom(_, _, _, _, _, _)
BuildFrom(v, g, inp, k, done, cur) ==
    IF k > Len(inp) THEN (IF cur = <<>> THEN done ELSE Append(done, cur))
    ELSE LET d == Comp(g, inp, k) IN
         IF IsIgnored(d) THEN BuildFrom(v, g, inp, k + 1, done, cur)
         ELSE IF cur # <<>> /\ (IsExplicitStarter(d) \/ ~Accept(v, cur, d, UpRaw(inp, k)))
              THEN BuildFrom(v, g, inp, k + 1, Append(done, cur), <<d>>)
              ELSE BuildFrom(v, g, inp, k + 1, done, Append(cur, d))
(* sequence of component sequences *)
BuildComps(v, g, inp) == BuildFrom(v, g, inp, 1, <<>>, <<>>)

ModelComplete(v, m, first) ==
    IF HasLoader(m) /\ Pos(m, IsExplicitStarter) = {} /\ ~first THEN FALSE
    ELSE (HasCP(m) \/ v = "no_cp_needed") /\ (HasLoader(m) \/ TransATMay(m))
ModelModule(v, m, first) ==
    [comps |-> m, complete |-> ModelComplete(v, m, first), first |-> first, tat |-> TransATMay(m),
     iter |-> Iterative(m), sm |-> StarterModule(m, first), tm |-> TerminationModule(m)]
Build(v, g, inp) == LET cs == BuildComps(v, g, inp)
                    IN  [j \in DOMAIN cs |-> ModelModule(v, cs[j], j = 1)]

(* re-adding the components of one module with the rest of the module as look-ahead (reload) *)
AcceptOwn(v, m) == \A k \in DOMAIN m : Accept(v, Before(m, k), m[k], Labels(After(m, k)))
(* head re-added, then the tail's components with the rest of the tail as look-ahead (merge) *)
AcceptJoin(v, head, tail) ==
    /\ \A k \in DOMAIN head : Accept(v, Before(head, k), head[k], Labels(After(head, k)))
    /\ \A k \in DOMAIN tail : Accept(v, head \o Before(tail, k), tail[k], Labels(After(tail, k)))

Hybrid(head, tail) == (Pks(head) /\ Nrps(tail)) \/ (Nrps(head) /\ Pks(tail))
Result(exc, v) == [exc |-> exc, v |-> v]
DummyModule == [comps |-> <<>>, complete |-> FALSE, first |-> FALSE, tat |-> FALSE, iter |-> FALSE,
                sm |-> FALSE, tm |-> FALSE]
NoMerge(pa, pb) == [merged |-> FALSE, m |-> DummyModule, qa |-> pa, qb |-> pb]

(* pa: modules of the upstream gene, pb: of the downstream gene, same: strands agree *)
Combine(v, pa, pb, same) ==
    IF ~same \/ pa = <<>> \/ pb = <<>> THEN NoMerge(pa, pb)
    ELSE LET head == pa[Len(pa)]
             tail == pb[1]
             joined == head.comps \o tail.comps
             drop == v = "drop_domain" /\ Len(joined) > 2
             kept == IF drop THEN SubSeq(joined, 1, Len(joined) - 1) ELSE joined
         IN  IF \/ head.complete
                \/ (tail.complete /\ tail.comps[1].l \notin FusedStarterLabels)
                \/ Hybrid(head.comps, tail.comps)
                \/ ~AcceptJoin(v, head.comps, tail.comps)
                \/ ~ModelComplete(v, joined, FALSE)
             THEN NoMerge(pa, pb)
             ELSE LET absorb == /\ Len(pb) >= 2 /\ TransATMay(joined)
                                /\ Len(pb[2].comps) = 1 /\ pb[2].comps[1].l = "PKS_KR"
                                /\ Accept(v, joined, pb[2].comps[1], <<>>)
                      all == IF absorb THEN kept \o pb[2].comps ELSE kept
                      mm == ModelModule(v, all, FALSE)
                  IN  [merged |-> TRUE, m |-> mm,
                       qa |-> SubSeq(pa, 1, Len(pa) - 1) \o <<mm>>,
                       qb |-> SubSeq(pb, IF absorb THEN 3 ELSE 2, Len(pb))]

(* ================================ the rules as verdicts ================================ *)
RECURSIVE Flatten(_)
Flatten(ms) == IF ms = <<>> THEN <<>> ELSE Head(ms).comps \o Flatten(Tail(ms))
Ref(c) == <<c.g, c.i>>
Refs(cs) == [k \in DOMAIN cs |-> Ref(cs[k])]
Expected(g, inp) == LET idx == SelectSeq([k \in DOMAIN inp |-> k], LAMBDA k : ~IsIgnored(inp[k]))
                    IN  [k \in DOMAIN idx |-> <<g, idx[k] - 1>>]

(* every component names an existing input domain and carries that domain's data *)
CompOK(genes, c) == /\ c.g \in DOMAIN genes /\ (c.i + 1) \in DOMAIN genes[c.g]
                    /\ LET d == genes[c.g][c.i + 1] IN c.l = d.l /\ c.s = d.s /\ c.c = d.c /\ c.p = d.p
ModulesOK(genes, ms) == \A j \in DOMAIN ms : \A k \in DOMAIN ms[j].comps : CompOK(genes, ms[j].comps[k])

(* verdict on one module's flags *)
ModuleClauses(mod) ==
    LET m == mod.comps IN
    WellLaidClauses(m)
    \cup Only(mod.complete => CompleteMay(m, mod.first), "complete_only_with_starter_loader_carrier")
    \cup Only(CompleteMust(m, mod.first) => mod.complete, "complete_when_all_parts_present")
    \cup Only(mod.tat => TransATMay(m), "trans_at_only_without_loader")
    \cup Only(TransATMust(m) => mod.tat, "trans_at_when_documented")
    \cup Only(mod.iter = Iterative(m), "iterative_flag")
    \cup Only(mod.sm = StarterModule(m, mod.first), "starter_module_flag")
    \cup Only(mod.tm = TerminationModule(m), "termination_module_flag")

(* a module border inside a gene needs a reason: an explicit starter opens a module, or the
   component could not have joined under one of the two readings of the look-ahead *)
Justified(inp, m1, c) ==
    \/ IsExplicitStarter(c)
    \/ ~Accept("ok", m1, c, UpRaw(inp, c.i + 1))
    \/ ~Accept("ok", m1, c, UpFiltered(inp, c.i + 1))

(* reload results: sequence of [exc, v |-> [m |-> module, js |-> saved form identical]] *)
ReloadClauses(ms, rl) ==
    Only(Len(rl) = Len(ms), "reload/one_per_module")
    \cup UNION {IF j \notin DOMAIN rl THEN {}
                ELSE IF rl[j].exc # "" THEN {"reload/no_exception:" \o rl[j].exc}
                ELSE Only(rl[j].v.m = ms[j], "reload/rebuilt_module_identical")
                     \cup Only(rl[j].v.js, "reload/saved_form_identical") : j \in DOMAIN ms}

(* the same through the saved results of a whole gene (the list of its modules as the results file holds it): every
   module of the list comes back identical, whatever its place in the list *)
ResultsReloadClauses(ms, rs) ==
    Only(Len(rs) = Len(ms), "reload_results/one_per_module")
    \cup UNION {IF j \notin DOMAIN rs THEN {}
                ELSE IF rs[j].exc # "" THEN {"reload_results/no_exception:" \o rs[j].exc}
                ELSE Only(rs[j].v.m = ms[j], "reload_results/rebuilt_module_identical")
                     \cup Only(rs[j].v.js, "reload_results/saved_form_identical") : j \in DOMAIN ms}

BuildClauses(inp, res, rl) ==
    IF res.exc # "" THEN {"build/no_exception:" \o res.exc}
    ELSE LET ms == res.v IN
         IF ~ModulesOK(<<inp>>, ms) THEN {"build/components_are_input_domains"}
         ELSE Only(Refs(Flatten(ms)) = Expected(1, inp), "build/partition_in_order")
              \cup {"build/" \o x : x \in UNION {ModuleClauses(ms[j]) : j \in DOMAIN ms}}
              \cup Only(\A j \in DOMAIN ms : ms[j].first = (j = 1), "build/first_flag")
              \cup Only(\A j \in DOMAIN ms : j > 1 /\ ms[j].comps # <<>> /\ ms[j - 1].comps # <<>>
                            => Justified(inp, ms[j - 1].comps, ms[j].comps[1]), "build/no_needless_split")
              \cup ReloadClauses(ms, rl)

(* merge of the trailing module of the upstream gene with the leading module of the downstream gene.
   ga, gb: the two genes; pa, pb: their modules before; out: [exc, v |-> [merged, m, qa, qb]];
   rl: reload of the merged module (one-element sequence, or empty when nothing merged) *)
CombineClauses(ga, gb, same, pa, pb, out, rl) ==
    IF out.exc # "" THEN {"combine/no_exception:" \o out.exc}
    ELSE LET o == out.v
             genes == <<ga, gb>>
         IN
         IF ~(ModulesOK(genes, pa) /\ ModulesOK(genes, pb) /\ ModulesOK(genes, o.qa) /\ ModulesOK(genes, o.qb)
              /\ (o.merged => ModulesOK(genes, <<o.m>>)))
         THEN {"combine/components_are_input_domains"}
         ELSE
         Only(Refs(Flatten(o.qa) \o Flatten(o.qb)) = Refs(Flatten(pa) \o Flatten(pb)), "combine/keeps_all_domains_in_order")
         \cup (IF ~o.merged
               THEN Only(o.qa = pa /\ o.qb = pb, "combine/unmerged_modules_unchanged")
                    \cup Only(~(/\ same /\ pa # <<>> /\ pb # <<>>
                                /\ ~pa[Len(pa)].complete /\ ~pb[1].complete
                                /\ ~Hybrid(pa[Len(pa)].comps, pb[1].comps)
                                /\ AcceptJoin("ok", pa[Len(pa)].comps, pb[1].comps)
                                /\ CompleteMust(pa[Len(pa)].comps \o pb[1].comps, FALSE)),
                              "combine/merges_fragments_that_complete_each_other")
               ELSE IF pa = <<>> \/ pb = <<>> THEN {"combine/merge_needs_modules_on_both_sides"}
               ELSE LET head == pa[Len(pa)]
                        tail == pb[1]
                        plain == head.comps \o tail.comps
                        plus == IF Len(pb) >= 2 THEN plain \o pb[2].comps ELSE plain
                        absorbed == o.m.comps # plain
                    IN  Only(same, "combine/only_on_same_strand")
                        \cup Only(~head.complete, "combine/head_was_incomplete")
                        \cup Only(~tail.complete \/ tail.comps[1].l \in FusedStarterLabels,
                                  "combine/tail_incomplete_or_fused_starter")
                        \cup Only(~Hybrid(head.comps, tail.comps), "combine/no_hybrid_module")
                        \cup Only(o.m.comps = plain \/ o.m.comps = plus, "combine/merged_is_head_then_tail")
                        \cup Only(o.m.complete, "combine/only_if_result_complete")
                        \cup {"combine/" \o x : x \in ModuleClauses(o.m)}
                        \cup Only(~o.m.first, "combine/first_flag")
                        \cup Only(/\ o.qa = SubSeq(pa, 1, Len(pa) - 1) \o <<o.m>>
                                  /\ o.qb = SubSeq(pb, IF absorbed THEN 3 ELSE 2, Len(pb)),
                                  "combine/other_modules_unchanged")
                        \cup ReloadClauses(<<o.m>>, rl))
=============================================================================
