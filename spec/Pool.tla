------------------------------- MODULE Pool -------------------------------
(***************************************************************************)
(* Property C18: a batch of n calls f(a_1) .. f(a_n) is handed to a pool of  *)
(* `cpus` worker processes.  The batch is cut into chunks the way            *)
(* multiprocessing.Pool.starmap_async does (chunk = ceil(n / (4 cpus))), the  *)
(* chunks wait in a FIFO queue, an idle worker takes the next chunk and runs  *)
(* its tasks in order, a collector places each chunk's results at the chunk's *)
(* index, and the caller waits for all chunks (or for the timeout).           *)
(* With cpus = 1 there is no pool: the calls run one after another in the     *)
(* caller and the timeout is ignored.                                         *)
(*                                                                           *)
(* A configuration is [n, cpus, out, timeout]:                                *)
(*   out      sequence of n task outcomes "ok" | "raise" | "hang"             *)
(*            (hang = runs longer than the timeout)                           *)
(*   timeout  whether the caller waits with a timeout                         *)
(* The argument of task t is t and the function is F.                         *)
(* All actions are pure operators over a state record so that the model       *)
(* checking module and the trace module share them.                           *)
(***************************************************************************)
EXTENDS Integers, Sequences, FiniteSets

F(a) == 7 * a + 3
Arg(t) == t
Expected(c) == [t \in 1..c.n |-> F(Arg(t))]

Min2(a, b) == IF a < b THEN a ELSE b
ChunkSize(c) == IF c.n = 0 THEN 0 ELSE (c.n + 4 * c.cpus - 1) \div (4 * c.cpus)
NChunks(c) == IF c.n = 0 THEN 0 ELSE (c.n + ChunkSize(c) - 1) \div ChunkSize(c)
FirstOf(c, k) == (k - 1) * ChunkSize(c) + 1
LastOf(c, k) == Min2(k * ChunkSize(c), c.n)
ChunkOf(c, t) == (t - 1) \div ChunkSize(c) + 1

Raises(c) == {t \in 1..c.n : c.out[t] = "raise"}
Hangs(c) == {t \in 1..c.n : c.out[t] = "hang"}
WellFormedConfig(c) == /\ c.n >= 0 /\ c.cpus >= 1 /\ Len(c.out) = c.n
                       /\ \A t \in 1..c.n : c.out[t] \in {"ok", "raise", "hang"}
                       (* without a timeout a task that "hangs" is merely slow: not a separate case *)
                       /\ (Hangs(c) # {} => c.timeout)

Idle == [chunk |-> 0, pos |-> 0]
Unset == -1

(* --- state ----------------------------------------------------------------- *)
(* next: next chunk to hand out; w: per worker the chunk and the task it is running;
   val: the collector's list; left: chunks not yet reported; success: no chunk failed so far;
   caller: "waiting" | "list" | "error" | "timeout_error"; result: what the caller got;
   hist: the tasks in the order they completed (returned or raised) *)
Start(c) == [next |-> 1,
             w |-> [k \in 1..c.cpus |-> Idle],
             val |-> [t \in 1..c.n |-> Unset],
             left |-> NChunks(c),
             success |-> TRUE,
             caller |-> "waiting",
             result |-> <<>>,
             hist |-> <<>>,
             seqpos |-> 1]

Pooled(c) == c.cpus > 1

(* a worker takes the next chunk *)
CanTake(c, p, k) == Pooled(c) /\ p.caller = "waiting" /\ p.w[k] = Idle /\ p.next <= NChunks(c)
DoTake(c, p, k) == [p EXCEPT !.w[k] = [chunk |-> p.next, pos |-> FirstOf(c, p.next)], !.next = @ + 1]

(* the task a worker is running returns *)
CanFinish(c, p, k) == Pooled(c) /\ p.caller = "waiting" /\ p.w[k] # Idle /\ c.out[p.w[k].pos] = "ok"
DoFinish(c, p, k) ==
    LET t == p.w[k].pos
        ch == p.w[k].chunk
    IN  IF t < LastOf(c, ch)
        THEN [p EXCEPT !.w[k].pos = t + 1, !.hist = Append(@, t)]
        ELSE (* chunk complete: the collector places its results at the chunk's index *)
             [p EXCEPT !.w[k] = Idle, !.hist = Append(@, t), !.left = @ - 1,
                       !.val = IF p.success
                               THEN [u \in 1..c.n |-> IF ChunkOf(c, u) = ch THEN F(Arg(u)) ELSE p.val[u]]
                               ELSE @]

(* the task a worker is running raises: the rest of its chunk is abandoned, the chunk reports failure *)
CanRaise(c, p, k) == Pooled(c) /\ p.caller = "waiting" /\ p.w[k] # Idle /\ c.out[p.w[k].pos] = "raise"
DoRaise(c, p, k) == [p EXCEPT !.w[k] = Idle, !.hist = Append(@, p.w[k].pos), !.left = @ - 1, !.success = FALSE]

(* the caller gets the outcome once every chunk has reported *)
CanCollect(c, p) == Pooled(c) /\ p.caller = "waiting" /\ p.left = 0
DoCollect(c, p) == [p EXCEPT !.caller = IF p.success THEN "list" ELSE "error",
                             !.result = IF p.success THEN p.val ELSE <<>>]

(* nothing can move any more: every busy worker sits in a task that outlasts the timeout *)
Quiescent(c, p) == \A k \in 1..c.cpus : ~CanTake(c, p, k) /\ ~CanFinish(c, p, k) /\ ~CanRaise(c, p, k)
CanTimeout(c, p) == Pooled(c) /\ p.caller = "waiting" /\ c.timeout /\ p.left > 0 /\ Quiescent(c, p)
DoTimeout(c, p) == [p EXCEPT !.caller = "timeout_error"]

(* cpus = 1: no pool, the calls run in the caller one after another; a "hanging" task merely takes long *)
CanSeqStep(c, p) == ~Pooled(c) /\ p.caller = "waiting"
DoSeqStep(c, p) ==
    IF p.seqpos > c.n THEN [p EXCEPT !.caller = "list", !.result = p.val]
    ELSE IF c.out[p.seqpos] = "raise" THEN [p EXCEPT !.caller = "error", !.hist = Append(@, p.seqpos)]
    ELSE [p EXCEPT !.val[p.seqpos] = F(Arg(p.seqpos)), !.hist = Append(@, p.seqpos), !.seqpos = @ + 1]

(* --- wrong collectors (negative controls) ----------------------------------- *)
(* results are appended in completion order (an imap_unordered-style collector) *)
DoFinishUnordered(c, p, k) ==
    LET t == p.w[k].pos
        ch == p.w[k].chunk
        slot == Cardinality({u \in 1..c.n : p.val[u] # Unset}) + 1
    IN  IF t < LastOf(c, ch) THEN [p EXCEPT !.w[k].pos = t + 1, !.hist = Append(@, t), !.val[slot] = F(Arg(t))]
        ELSE [p EXCEPT !.w[k] = Idle, !.hist = Append(@, t), !.left = @ - 1, !.val[slot] = F(Arg(t))]
(* a failed chunk is dropped and the caller gets what is there *)
DoRaiseDropped(c, p, k) == [p EXCEPT !.w[k] = Idle, !.hist = Append(@, p.w[k].pos), !.left = @ - 1]
DoCollectDropped(c, p) == [p EXCEPT !.caller = "list", !.result = SelectSeq(p.val, LAMBDA v : v # Unset)]

(* --- the property on a state -------------------------------------------------- *)
Finished(p) == p.caller # "waiting"
ResultsInArgumentOrderAt(c, p) == p.caller = "list" => p.result = Expected(c)
FailureSurfacesAt(c, p) == (Finished(p) /\ Raises(c) # {}) => p.caller \in {"error", "timeout_error"}
TimeoutSurfacesAt(c, p) == (Finished(p) /\ Pooled(c) /\ c.timeout /\ Hangs(c) # {}) => p.caller \in {"error", "timeout_error"}
NeverShorterAt(c, p) == p.caller = "list" => Len(p.result) = c.n

(* --- deterministic replay of a completion order (used by the trace spec) ------- *)
(* idle workers take chunks eagerly, lowest worker first: every completion order the model allows is
   also reachable this way *)
RECURSIVE TakeAll(_, _)
TakeAll(c, p) ==
    IF \E k \in 1..c.cpus : CanTake(c, p, k)
    THEN TakeAll(c, DoTake(c, p, CHOOSE k \in 1..c.cpus : CanTake(c, p, k) /\ \A j \in 1..(k - 1) : ~CanTake(c, p, j)))
    ELSE p
WorkerOf(c, p, t) == {k \in 1..c.cpus : p.w[k] # Idle /\ p.w[k].pos = t}

(* state after the tasks of `order` completed in that order; .caller = "infeasible" if the model cannot do it *)
RECURSIVE ReplayOrder(_, _, _, _)
ReplayOrder(c, p, order, i) ==
    IF i > Len(order) THEN p
    ELSE IF ~Pooled(c)
         THEN IF CanSeqStep(c, p) /\ p.seqpos = order[i] THEN ReplayOrder(c, DoSeqStep(c, p), order, i + 1)
              ELSE [p EXCEPT !.caller = "infeasible"]
         ELSE LET q == TakeAll(c, p)
                  ks == WorkerOf(c, q, order[i])
              IN  IF ks = {} THEN [p EXCEPT !.caller = "infeasible"]
                  ELSE LET k == CHOOSE k \in ks : TRUE
                       IN  IF CanFinish(c, q, k) THEN ReplayOrder(c, DoFinish(c, q, k), order, i + 1)
                           ELSE IF CanRaise(c, q, k) THEN ReplayOrder(c, DoRaise(c, q, k), order, i + 1)
                           ELSE [p EXCEPT !.caller = "infeasible"]

(* what the caller gets after exactly this completion order: "list" | "error" | "timeout_error";
   "incomplete" if tasks are still able to run, "infeasible" if the order is not a behaviour *)
RECURSIVE SeqRun(_, _)
SeqRun(c, p) == IF p.caller # "waiting" THEN p ELSE SeqRun(c, DoSeqStep(c, p))
VerdictOf(c, order) ==
    LET p == ReplayOrder(c, Start(c), order, 1)
    IN  IF p.caller = "infeasible" THEN "infeasible"
        ELSE IF ~Pooled(c) THEN (IF p.caller # "waiting" THEN p.caller
                                 ELSE IF p.seqpos > c.n THEN DoSeqStep(c, p).caller ELSE "incomplete")
        ELSE LET q == TakeAll(c, p)
             IN  IF CanCollect(c, q) THEN DoCollect(c, q).caller
                 ELSE IF CanTimeout(c, q) THEN "timeout_error"
                 ELSE "incomplete"

(* s is consistent with order: the elements of s that also occur in order appear in the same relative order *)
Positions(order, x) == {i \in DOMAIN order : order[i] = x}
Consistent(order, s) ==
    \A i, j \in DOMAIN s : (i < j /\ Positions(order, s[i]) # {} /\ Positions(order, s[j]) # {})
                              => (CHOOSE a \in Positions(order, s[i]) : TRUE) < (CHOOSE b \in Positions(order, s[j]) : TRUE)

(* --- verdict on an observed call (the alarm-raising part) ---------------------- *)
(* ret = [exc |-> "" | exception type name, v |-> the list returned (<<>> on exception)] *)
IsPermutationOf(a, b) == Len(a) = Len(b) /\ \A x \in {a[i] : i \in DOMAIN a} :
                             Cardinality({i \in DOMAIN a : a[i] = x}) = Cardinality({i \in DOMAIN b : b[i] = x})
CallClauses(c, ret) ==
    LET must_fail == Raises(c) # {}
        must_time == Raises(c) = {} /\ Hangs(c) # {} /\ Pooled(c) /\ c.timeout
        may_time == Hangs(c) # {}       (* cpus = 1 ignores the timeout (documented); an error is accepted too *)
    IN  (IF must_fail /\ ret.exc = "" THEN {"failure_surfaces"} ELSE {})
        \cup (IF must_time /\ ret.exc = "" THEN {"timeout_surfaces"} ELSE {})
        \cup (IF ~must_fail /\ ~may_time /\ ret.exc # "" THEN {"no_exception:" \o ret.exc} ELSE {})
        \cup (IF ret.exc = "" /\ ret.v # Expected(c)
              THEN (IF Len(ret.v) # c.n THEN {"never_a_shorter_list"}
                    ELSE IF IsPermutationOf(ret.v, Expected(c)) THEN {"results_in_argument_order"}
                    ELSE {"results_equal_sequential"})
              ELSE {})
=============================================================================
