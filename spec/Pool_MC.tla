------------------------------ MODULE Pool_MC ------------------------------
(* Model checking of the worker pool (C18): every configuration (batch size,    *)
(* worker count, outcome per task, timeout or not) is an initial state; TLC      *)
(* explores every interleaving of workers taking chunks and tasks completing.    *)
(* The completion order is a history variable, so every finished state is one    *)
(* schedule; those are the schedules forced on the real parallel_function.       *)
(* Variant "pool" is the model; "unordered" (results collected in completion     *)
(* order) and "drop" (a failed chunk is dropped) are negative controls.          *)
EXTENDS Pool, TLC
CONSTANTS NSet, CpuSet, MaxFaults, Variant
VARIABLES c, p
vars == <<c, p>>

Outcomes == {"ok", "raise", "hang"}
Configs == UNION {UNION {{cfg \in [n : {n}, cpus : {k}, out : [1..n -> Outcomes], timeout : BOOLEAN] :
                            /\ WellFormedConfig(cfg)
                            /\ Cardinality(Raises(cfg) \cup Hangs(cfg)) <= MaxFaults}
                         : k \in CpuSet} : n \in NSet}

Init == c \in Configs /\ p = Start(c)

LowestIdle(k) == CanTake(c, p, k) /\ \A j \in 1..(k - 1) : ~CanTake(c, p, j)
Take == \E k \in 1..c.cpus : LowestIdle(k) /\ p' = DoTake(c, p, k) /\ UNCHANGED c
Finish == \E k \in 1..c.cpus : /\ CanFinish(c, p, k)
                               /\ p' = (IF Variant = "unordered" THEN DoFinishUnordered(c, p, k) ELSE DoFinish(c, p, k))
                               /\ UNCHANGED c
Raise == \E k \in 1..c.cpus : /\ CanRaise(c, p, k)
                              /\ p' = (IF Variant = "drop" THEN DoRaiseDropped(c, p, k) ELSE DoRaise(c, p, k))
                              /\ UNCHANGED c
Collect == CanCollect(c, p) /\ p' = (IF Variant = "drop" THEN DoCollectDropped(c, p) ELSE DoCollect(c, p)) /\ UNCHANGED c
Timeout == CanTimeout(c, p) /\ p' = DoTimeout(c, p) /\ UNCHANGED c
SeqStep == CanSeqStep(c, p) /\ p' = DoSeqStep(c, p) /\ UNCHANGED c
Next == Take \/ Finish \/ Raise \/ Collect \/ Timeout \/ SeqStep
Spec == Init /\ [][Next]_vars /\ WF_vars(Next)

ResultsInArgumentOrder == ResultsInArgumentOrderAt(c, p)
FailureSurfaces == FailureSurfacesAt(c, p)
TimeoutSurfaces == TimeoutSurfacesAt(c, p)
NeverShorter == NeverShorterAt(c, p)
(* a list is only ever handed over when every task returned *)
ListOnlyWhenAllOk == p.caller = "list" => (Raises(c) = {} /\ (Hangs(c) = {} \/ ~Pooled(c)))
(* never more than cpus tasks in flight; chunks are handed out in FIFO order *)
AtMostCpusBusy == Cardinality({k \in 1..c.cpus : p.w[k] # Idle}) <= c.cpus /\
                  \A k \in 1..c.cpus : p.w[k] # Idle => p.w[k].chunk < p.next
(* tasks of one chunk complete in argument order *)
ChunkInOrder == \A i, j \in DOMAIN p.hist :
                    (i < j /\ Pooled(c) /\ ChunkOf(c, p.hist[i]) = ChunkOf(c, p.hist[j])) => p.hist[i] < p.hist[j]
(* the deterministic replay used by the trace spec agrees with the action system on every schedule *)
ReplayAgrees == Finished(p) => VerdictOf(c, p.hist) = p.caller
(* an unfinished history is never mistaken for a finished one *)
ReplayIncomplete == (~Finished(p) /\ Pooled(c) /\ ~CanCollect(c, TakeAll(c, p)) /\ ~CanTimeout(c, TakeAll(c, p)))
                        => VerdictOf(c, p.hist) = "incomplete"
Terminates == <>Finished(p)
=============================================================================
