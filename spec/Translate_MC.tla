---------------------------- MODULE Translate_MC ----------------------------
(* Generator + self-consistency of the protein-range oracle (property C09).    *)
(* Level 0: a shard (record length, topology, strand, number of exons, length  *)
(* of the first exon); level 1 (stage = 1): every gene of the shard - these    *)
(* states are the genes replayed against the code; level 2 (stage = 2): every  *)
(* protein range 0 <= s < e <= n of the gene - these are the ranges replayed.  *)
EXTENDS Translate, TLC
CONSTANTS Plans            \* set of [L, k, maxlen, maxintron]: genes with k exons on records of L bases
VARIABLES stage, R, sh, g, s, e
vars == <<stage, R, sh, g, s, e>>

RECURSIVE SumSeq(_, _)
SumSeq(f, n) == IF n = 0 THEN 0 ELSE f[n] + SumSeq(f, n - 1)
Offset(ex, in, i) == SumSeq(ex, i - 1) + SumSeq(in, i - 1)
Foot(ex, in) == SumSeq(ex, Len(ex)) + SumSeq(in, Len(in))

(* an exon of n bases starting at a; on a ring it may run over the origin and is then split *)
ExonParts(L, a, n) == IF a + n <= L THEN << <<a, a + n>> >> ELSE << <<a, L>>, <<0, a + n - L>> >>
RECURSIVE FwdParts(_, _, _, _, _)
FwdParts(L, p, ex, in, i) ==
    IF i > Len(ex) THEN <<>>
    ELSE ExonParts(L, (p + Offset(ex, in, i)) % L, ex[i]) \o FwdParts(L, p, ex, in, i + 1)
GeneLoc(L, p, ex, in, strand) ==
    LET fp == FwdParts(L, p, ex, in, 1) IN Loc(IF strand = -1 THEN RevSeq(fp) ELSE fp, strand)

(* placements: everywhere on a line; on a ring only the placements that run over the origin
   (every exon and intron position of the gene comes to lie on the origin once) *)
Starts(r, fp) == IF r.circ THEN {p \in 1..(r.L - 1) : p + fp > r.L} ELSE 0..(r.L - fp)

Shards == {[L |-> pl.L, circ |-> c, strand |-> st, k |-> pl.k, e1 |-> e1, maxlen |-> pl.maxlen, maxintron |-> pl.maxintron] :
             pl \in Plans, c \in BOOLEAN, st \in {1, -1}, e1 \in 1..6}

GenesOf(x) ==
    LET r == [L |-> x.L, circ |-> x.circ]
        exs == {ex \in [1..x.k -> 1..x.maxlen] : ex[1] = x.e1}
        ins == [1..(x.k - 1) -> 1..x.maxintron]
    IN  UNION {UNION {{Gene(GeneLoc(x.L, p, ex, in, x.strand), (SumSeq(ex, x.k) % 3) + 1) : p \in Starts(r, Foot(ex, in))}
                      : in \in {i \in ins : Foot(ex, i) <= x.L}} : ex \in exs}
(* at least one residue, and the first listed part is longer than the untranslated prefix *)
Usable(gg) == /\ Len(RawCoding(gg)) - (gg.cs - 1) >= 3
              /\ gg.loc.parts[1][2] - gg.loc.parts[1][1] >= gg.cs

Dummy == Gene(Simple(0, 3, 1), 1)
Init == /\ stage = 0 /\ sh \in {x \in Shards : x.e1 <= x.maxlen}
        /\ R = [L |-> sh.L, circ |-> sh.circ] /\ g = Dummy /\ s = 0 /\ e = 1
PickGene == /\ stage = 0 /\ stage' = 1
            /\ g' \in {gg \in GenesOf(sh) : Usable(gg)}
            /\ UNCHANGED <<R, sh, s, e>>
PickRange == /\ stage = 1 /\ stage' = 2
             /\ \E q \in Ranges(g) : s' = q[1] /\ e' = q[2]
             /\ UNCHANGED <<R, sh, g>>
Next == PickGene \/ PickRange
Spec == Init /\ [][Next]_vars

(* --- the gene universe is what it claims to be ------------------------------------ *)
GeneWellFormed == stage = 1 =>
    /\ WellFormed(R, g.loc) /\ g.loc.strand \in {1, -1} /\ g.cs \in 1..3
    /\ Len(Coding(g)) = 3 * NumRes(g) /\ NumRes(g) >= 1
    /\ (~R.circ => ~Bridges(g.loc))
    /\ (R.circ => Bridges(g.loc))
CodingIsTheGene == stage = 1 =>
    /\ Cardinality(RangeOf(RawCoding(g))) = Len(RawCoding(g))           \* every base read once
    /\ RangeOf(RawCoding(g)) = Bases(g.loc)
    /\ RangeOf(Coding(g)) = Bases(g.loc) \ SkippedBases(g)
    /\ Cardinality(SkippedBases(g)) = g.cs - 1
(* codon_start: the kept location satisfies the relation, and the skipped bases put back give the annotation *)
FrameshiftSat == stage = 1 =>
    /\ GeneLocClause(R, g, CodingLoc(g)) = "ok"
    /\ GeneBackClause(R, g, g.loc, g.cs) = "ok"
    /\ Bases(CodingLoc(g)) \cup SkippedBases(g) = Bases(g.loc)

(* --- the constructive Sub: contiguous runs inside exons, ordered, right size --------- *)
SubRunsInsideExons == stage = 2 =>
    /\ WellFormed(R, Sub(g, s, e)) /\ Sub(g, s, e).strand = g.loc.strand
    /\ Contains(CodingLoc(g), Sub(g, s, e))
    /\ Contains(g.loc, Sub(g, s, e))
SubOrdered == stage = 2 =>
    LET w == TWalk(Sub(g, s, e))
        c == Coding(g)
    IN  /\ w = Slice(g, s, e)
        /\ \A i \in 1..Len(w) : w[i] = c[3 * s + i]
SubRightSize == stage = 2 => Size(Sub(g, s, e)) = 3 * (e - s) /\ Len(Sub(g, s, e).parts) <= Len(g.loc.parts)
SubRunsMaximal == stage = 2 =>
    LET fp == Fwd(Sub(g, s, e)) IN \A i \in 1..(Len(fp) - 1) : fp[i][2] # fp[i + 1][1]
SubSat == stage = 2 =>
    /\ SubOK(R, g, s, e, Sub(g, s, e))
    /\ ConvClause(g, s, e, <<FwdFirst(g, s, e), FwdLast(g, s, e) + 1>>) = "ok"
(* leader / core / tail of a precursor peptide tile the gene *)
PartitionTiles == stage = 2 =>
    LET n == NumRes(g)
        pieces == (IF s > 0 THEN Slice(g, 0, s) ELSE <<>>) \o Slice(g, s, e) \o (IF e < n THEN Slice(g, e, n) ELSE <<>>)
    IN  pieces = Coding(g)
(* only the true stretch satisfies the relation: dropping, adding or moving one base is refused *)
RelationRefusesNeighbours == stage = 2 =>
    LET t == Sub(g, s, e)
        first == t.parts[1]
        moved == [t EXCEPT !.parts[1] = <<first[1] + 1, first[2] + 1>>]
        flipped == [t EXCEPT !.strand = 0 - t.strand]
    IN  /\ ~SubOK(R, g, s, e, moved)
        /\ ~SubOK(R, g, s, e, flipped)
        /\ (Len(t.parts) > 1 => ~SubOK(R, g, s, e, [t EXCEPT !.parts = RevSeq(t.parts)]))
        /\ ((e - s < NumRes(g)) => ~SubOK(R, g, s, e, CodingLoc(g)))

(* --- implementation-shaped companions -------------------------------------------------- *)
(* exons walked in ascending start order: right unless the gene runs over the origin *)
SortedDesignOffOrigin == (stage = 2 /\ ~Bridges(g.loc)) => SortedSlice(g, s, e) = Slice(g, s, e)
(* negative control (P9): claimed everywhere, must be violated on rings *)
SortedDesignEverywhere == stage = 2 => SortedSlice(g, s, e) = Slice(g, s, e)
(* the repaired design is right everywhere *)
BridgeAwareDesign == stage = 2 => BridgeAwareSlice(g, s, e) = Slice(g, s, e)
(* TTA marker by outer coordinate + offset: right for one-exon genes off the origin *)
TtaDesignSingleExon == (stage = 2 /\ e = s + 1 /\ Len(g.loc.parts) = 1) => SubOK(R, g, s, e, TtaMarker(g, s))
(* negative control (P9): claimed for every gene, must be violated by a two-exon gene *)
TtaDesignEverywhere == (stage = 2 /\ e = s + 1) => SubOK(R, g, s, e, TtaMarker(g, s))
=============================================================================
