---------------------------- MODULE RuleGrammar ----------------------------
(***************************************************************************)
(* Property C02: rule text is parsed by the *documented* grammar            *)
(* (module docstring of antismash/common/hmm_rule_parser/rule_parser.py).   *)
(*                                                                           *)
(* Layers                                                                    *)
(*   0. Tokenise(chars)      characters (code points) -> token texts          *)
(*      Classify(cp)         token text -> lexical class                      *)
(*   1. Render(ast, style)   condition tree -> token texts                    *)
(*   2. Denote               reference recursive-descent parser, index        *)
(*      passing, results are small records [ok, err, ast, pos, soft]          *)
(*   3. ParseFile / ParseFiles   the parser state machine: state              *)
(*      [aliases, rules], a file either extends the state or fails as a whole *)
(*                                                                           *)
(* A lexed token is [k, s, n, r]: k the class ("ID", "INT", "TEXT", "BAD" or  *)
(* the text itself for keywords/punctuation), s the text, n the value of an   *)
(* INT, r for TEXT: 1 a well-formed range a-b with a <= b, 2 a range with     *)
(* b < a, 0 no range.                                                         *)
(*                                                                           *)
(* Condition trees (self-contained; C01's RuleAst uses the same vocabulary): *)
(*   [k |-> "id"|"score"|"min"|"cds"|"and"|"or", neg, name, n, opts, args]    *)
(* plus, in *raw* trees only, "paren" (an explicit group).  Norm flattens     *)
(* groups with one member and same-operator chains, nothing else.             *)
(*                                                                           *)
(* Verdicts.  ok: the text denotes these rules.  ~ok: ill-formed, class err. *)
(* soft # {}: the documentation leaves the case open; then either outcome of  *)
(* the real parser is accepted, but an accepted text must still mean what     *)
(* Denote says when Denote is ok.  The open cases:                            *)
(*   operands_equal_up_to_parentheses  "a or (a)": repeated only after the    *)
(*       redundant group is removed (token-wise equal operands must fail)     *)
(*   cds_with_one_operand     "cds((a))", "cds(minscore(a,5))": the grammar   *)
(*       wants two operands, only the bare "cds(a)" is pinned as an error     *)
(*   example_values           database other than NCBI, version 0, range b<a  *)
(*       (the grammar only gives the shape ID ID . INT INT-INT)                *)
(*   alias_forward_reference  an alias whose definition mentions a name that  *)
(*       becomes an alias later (binding time is not documented)              *)
(*   alias_self_reference     a definition mentioning its own name (it stays  *)
(*       an identifier here; refusing the definition outright is as good)     *)
(* Leniencies of the code the reference follows: INT is any run of digits     *)
(* ("0", "007"), minscore(...) may appear inside cds(...), DESCRIPTION may be *)
(* empty, RELATED names are not checked against the signatures.               *)
(***************************************************************************)
EXTENDS Integers, Sequences, FiniteSets, TLC

RangeOf(seq) == {seq[i] : i \in DOMAIN seq}
NoDup(seq) == \A i, j \in DOMAIN seq : i # j => seq[i] # seq[j]
RECURSIVE SetToSeq(_)
SetToSeq(S) == IF S = {} THEN <<>> ELSE LET x == CHOOSE y \in S : TRUE IN <<x>> \o SetToSeq(S \ {x})
RevSeq(seq) == [i \in 1..Len(seq) |-> seq[Len(seq) + 1 - i]]

(* ======================= lexical layer ================================== *)
RuleKeywords == {"RULE", "CATEGORY", "DESCRIPTION", "EXAMPLE", "RELATED", "SUPERIORS", "CUTOFF",
                 "NEIGHBOURHOOD", "CONDITIONS", "EXTENDERS", "DEFINE", "AS"}
Starters == {"RULE", "DEFINE"}
Punct == {"(", ")", "[", "]", ",", "."}
Words == {"and", "or", "not", "minimum", "cds", "minscore"}
FixedTokens == RuleKeywords \cup Punct \cup Words
Reserved == {"cluster", "score"}     (* never identifiers *)

Tok(k, s, n, r) == [k |-> k, s |-> s, n |-> n, r |-> r]

(* --- closed vocabulary used by the generator (texts are plain TLA+ strings) --- *)
IntTab == ("0" :> 0) @@ ("1" :> 1) @@ ("2" :> 2) @@ ("3" :> 3) @@ ("4" :> 4) @@ ("5" :> 5) @@ ("7" :> 7)
          @@ ("10" :> 10) @@ ("15" :> 15) @@ ("20" :> 20) @@ ("007" :> 7)
TextTab == ("cluster" :> 0) @@ ("score" :> 0) @@ ("1-200" :> 1) @@ ("9-3" :> 2) @@ ("-1" :> 0)
BadTab == {"a!b"}
LexClosed(s) == IF s \in FixedTokens THEN Tok(s, s, 0, 0)
                ELSE IF s \in DOMAIN IntTab THEN Tok("INT", s, IntTab[s], 0)
                ELSE IF s \in DOMAIN TextTab THEN Tok("TEXT", s, 0, TextTab[s])
                ELSE IF s \in BadTab THEN Tok("BAD", s, 0, 0)
                ELSE Tok("ID", s, 0, 0)
LexSeq(toks) == [i \in DOMAIN toks |-> LexClosed(toks[i])]

(* --- classification from code points (documented lexical grammar; INT follows the code:
       any run of digits, so "0" and "007" are INTs) --- *)
IsDigit(c) == c >= 48 /\ c <= 57
IsAlpha(c) == (c >= 65 /\ c <= 90) \/ (c >= 97 /\ c <= 122)
IsIdChar(c) == IsDigit(c) \/ IsAlpha(c) \/ c = 95 \/ c = 45
IsSymbolChar(c) == IsIdChar(c) \/ c = 46
RECURSIVE DigitsValue(_, _, _)
DigitsValue(cp, i, acc) == IF i > Len(cp) THEN acc ELSE DigitsValue(cp, i + 1, acc * 10 + (cp[i] - 48))
AllDigits(cp, lo, hi) == lo <= hi /\ \A i \in lo..hi : IsDigit(cp[i])
RangeClass(cp) ==
    LET dashes == {i \in DOMAIN cp : cp[i] = 45} IN
    IF Cardinality(dashes) # 1 THEN 0
    ELSE LET d == CHOOSE i \in dashes : TRUE IN
         IF ~(AllDigits(cp, 1, d - 1) /\ AllDigits(cp, d + 1, Len(cp))) \/ d - 1 > 9 \/ Len(cp) - d > 9 THEN 0
         ELSE IF DigitsValue(SubSeq(cp, 1, d - 1), 1, 0) <= DigitsValue(SubSeq(cp, d + 1, Len(cp)), 1, 0) THEN 1 ELSE 2
(* s is the text, cp its code points (pure representation, supplied together) *)
Classify(s, cp) ==
    IF s \in FixedTokens THEN Tok(s, s, 0, 0)
    ELSE IF \E i \in DOMAIN cp : ~(IsIdChar(cp[i]) \/ cp[i] = 58 \/ cp[i] = 47) THEN Tok("BAD", s, 0, 0)
    ELSE IF AllDigits(cp, 1, Len(cp)) THEN Tok("INT", s, IF Len(cp) <= 9 THEN DigitsValue(cp, 1, 0) ELSE 999999999, 0)
    ELSE IF (\A i \in DOMAIN cp : IsIdChar(cp[i])) /\ (\E i \in DOMAIN cp : IsAlpha(cp[i])) /\ s \notin Reserved
         THEN Tok("ID", s, 0, 0)
    ELSE Tok("TEXT", s, 0, RangeClass(cp))

(* --- layer 0: the tokeniser over code points.  Whitespace separates, '#' starts a comment that
       lasts to the end of the line (also in the middle of a symbol), ( ) [ ] , . are tokens of
       their own, ':' and '/' may continue a symbol.  Result: sequence of code point sequences;
       <<<<-1>>>> marks an illegal character. --- *)
IsSpace(c) == c \in {32, 9, 10, 13, 11, 12}
IsPunctChar(c) == c \in {40, 41, 91, 93, 44, 46}
Flush(acc, cur) == IF cur = <<>> THEN acc ELSE Append(acc, cur)
RECURSIVE TokFrom(_, _, _, _), SkipComment(_, _)
SkipComment(ch, i) == IF i > Len(ch) \/ ch[i] = 10 THEN i ELSE SkipComment(ch, i + 1)
TokFrom(ch, i, acc, cur) ==
    IF i > Len(ch) THEN Flush(acc, cur)
    ELSE LET c == ch[i] IN
         IF IsSpace(c) THEN TokFrom(ch, i + 1, Flush(acc, cur), <<>>)
         ELSE IF IsPunctChar(c) THEN TokFrom(ch, i + 1, Append(Flush(acc, cur), <<c>>), <<>>)
         ELSE IF IsIdChar(c) THEN TokFrom(ch, i + 1, acc, Append(cur, c))
         ELSE IF c = 35 THEN TokFrom(ch, SkipComment(ch, i), Flush(acc, cur), <<>>)
         ELSE IF cur # <<>> /\ (c = 58 \/ c = 47) THEN TokFrom(ch, i + 1, acc, Append(cur, c))
         ELSE << <<-1>> >>
Tokenise(ch) == TokFrom(ch, 1, <<>>, <<>>)

(* ======================= condition trees ================================= *)
Node(k, neg, name, n, opts, args) == [k |-> k, neg |-> neg, name |-> name, n |-> n, opts |-> opts, args |-> args]
NoNode == Node("none", FALSE, "", 0, {}, <<>>)
Id(p, neg) == Node("id", neg, p, 0, {}, <<>>)
Score(p, s, neg) == Node("score", neg, p, s, {}, <<>>)
Min(n, opts, neg) == Node("min", neg, "", n, opts, <<>>)
Cds(body, neg) == Node("cds", neg, "", 0, {}, <<body>>)
Paren(body, neg) == Node("paren", neg, "", 0, {}, <<body>>)
Grp(op, args, neg) == Node(op, neg, "", 0, {}, args)
Negate(x) == [x EXCEPT !.neg = ~x.neg]
IsLeaf(x) == x.k \in {"id", "score", "min"}

RECURSIVE Norm(_), SpliceSame(_, _, _)
(* children of an op-chain, with non-negated same-operator children spliced in *)
SpliceSame(op, args, i) ==
    IF i > Len(args) THEN <<>>
    ELSE LET c == Norm(args[i]) IN
         (IF c.k = op /\ ~c.neg THEN c.args ELSE <<c>>) \o SpliceSame(op, args, i + 1)
Norm(x) == CASE x.k = "paren" -> LET c == Norm(x.args[1]) IN IF x.neg THEN Negate(c) ELSE c
             [] x.k \in {"and", "or"} -> Grp(x.k, SpliceSame(x.k, x.args, 1), x.neg)
             [] x.k = "cds" -> Cds(Norm(x.args[1]), x.neg)
             [] OTHER -> x

RECURSIVE Positive(_), IdsOf(_), LeafCount(_), Depth(_), Thresholds(_)
(* the documented notion: some path from the root without a negation *)
Positive(x) == IF x.neg THEN FALSE
               ELSE IF IsLeaf(x) THEN TRUE
               ELSE \E i \in DOMAIN x.args : Positive(x.args[i])
IdsOf(x) == CASE x.k \in {"id", "score"} -> {x.name}
              [] x.k = "min" -> x.opts
              [] x.k = "none" -> {}
              [] OTHER -> UNION {IdsOf(x.args[i]) : i \in DOMAIN x.args}
LeafCount(x) == IF IsLeaf(x) THEN 1
                ELSE IF x.k = "none" THEN 0
                ELSE LET cnt[i \in 0..Len(x.args)] == IF i = 0 THEN 0 ELSE cnt[i - 1] + LeafCount(x.args[i])
                     IN  cnt[Len(x.args)]
Depth(x) == IF IsLeaf(x) \/ x.k = "none" THEN 0
            ELSE 1 + (CHOOSE d \in {Depth(x.args[i]) : i \in DOMAIN x.args} :
                         \A e \in {Depth(x.args[i]) : i \in DOMAIN x.args} : e <= d)
Thresholds(x) == CASE x.k = "score" -> {x.n}
                   [] IsLeaf(x) \/ x.k = "none" -> {}
                   [] OTHER -> UNION {Thresholds(x.args[i]) : i \in DOMAIN x.args}

(* well-formed *normalised* trees (what the generator produces, what Denote returns) *)
RECURSIVE WellFormed(_, _)
WellFormed(x, inCds) ==
    CASE x.k = "id" -> TRUE
      [] x.k = "score" -> x.n >= 0
      [] x.k = "min" -> ~inCds /\ x.n >= 1 /\ x.opts # {}
      [] x.k = "cds" -> ~inCds /\ x.args[1].k \in {"and", "or"} /\ WellFormed(x.args[1], TRUE)
      [] x.k \in {"and", "or"} -> /\ Len(x.args) >= 2 /\ NoDup(x.args)
                                  /\ \A i \in DOMAIN x.args : /\ WellFormed(x.args[i], inCds)
                                                              /\ ~(x.args[i].k = x.k /\ ~x.args[i].neg)
      [] OTHER -> FALSE

(* --- meaning, for Equiv: two genes within range of each other; h[g][p] is 0 (no hit) or
       1 + the number of thresholds (of the trees compared) the hit's score reaches --- *)
RECURSIVE Eval(_, _, _, _, _)
Eval(x, h, T, g, local) ==
    LET genes == DOMAIN h
        where == IF local THEN {g} ELSE genes
        reach(n) == 1 + Cardinality({t \in T : t <= n})
        v == CASE x.k = "id" -> \E q \in where : h[q][x.name] >= 1
               [] x.k = "score" -> \E q \in where : h[q][x.name] >= reach(x.n)
               [] x.k = "min" -> Cardinality({qp \in genes \X x.opts : h[qp[1]][qp[2]] >= 1}) >= x.n
               [] x.k = "cds" -> \E q \in where : Eval(x.args[1], h, T, q, TRUE)
               [] x.k = "and" -> \A i \in DOMAIN x.args : Eval(x.args[i], h, T, g, local)
               [] x.k = "or" -> \E i \in DOMAIN x.args : Eval(x.args[i], h, T, g, local)
               [] OTHER -> FALSE
    IN  v # x.neg
EquivBound == 7000
Equiv(a, b) ==
    LET ids == IdsOf(a) \cup IdsOf(b)
        T == Thresholds(a) \cup Thresholds(b)
        levels == 0..(Cardinality(T) + 1)
        genes == IF Cardinality(ids) <= 3 THEN 1..2 ELSE 1..1
        size == IF Cardinality(ids) > 6 THEN EquivBound + 1
                ELSE LET pw[i \in 0..(Cardinality(ids) * Cardinality(genes))] ==
                             IF i = 0 THEN 1 ELSE IF pw[i - 1] > EquivBound THEN pw[i - 1] ELSE pw[i - 1] * Cardinality(levels)
                     IN  pw[Cardinality(ids) * Cardinality(genes)]
    IN  /\ a.k # "none" /\ b.k # "none"
        /\ size <= EquivBound
        /\ \A h \in [genes -> [ids -> levels]] : \A g \in genes : Eval(a, h, T, g, FALSE) = Eval(b, h, T, g, FALSE)
SameTree(a, b) == a = b \/ Equiv(a, b)

(* ======================= layer 1: Render ================================== *)
(* style: [unit: wrap every leaf in parentheses, chain: wrap and-chains inside or-chains and
   cds bodies' sub-chains, top: wrap the whole expression, negout: "not ( x )" instead of
   "( not x )" for wrapped negated leaves, rev: list minimum options in reverse, drop: always FALSE] *)
Styles == [unit : BOOLEAN, chain : BOOLEAN, top : BOOLEAN, negout : BOOLEAN, rev : BOOLEAN, drop : {FALSE}, dneg : {FALSE}]
PlainStyle == [unit |-> FALSE, chain |-> FALSE, top |-> FALSE, negout |-> FALSE, rev |-> FALSE, drop |-> FALSE, dneg |-> FALSE]
(* the positive leaf b written as a double negation "not ( not ( b ) )": a negated group around a single, already
   negated condition; such an operand is not a positive requirement any more, so the rule may become ill-formed (added after the seeded change C02-double-negation-or, which no other style reached) *)
DnegStyle == [PlainStyle EXCEPT !.unit = TRUE, !.dneg = TRUE]
(* negative control only: leaves out the parentheses the grammar needs *)
DropStyle == [PlainStyle EXCEPT !.drop = TRUE]
Wrap(toks) == <<"(">> \o toks \o <<")">>
RECURSIVE CommaList(_, _)
CommaList(ids, i) == IF i > Len(ids) THEN <<>> ELSE (IF i > 1 THEN <<",">> ELSE <<>>) \o <<ids[i]>> \o CommaList(ids, i + 1)
IntText(n) == CHOOSE s \in DOMAIN IntTab : IntTab[s] = n /\ s # "007"
RECURSIVE Render(_, _, _), RenderArgs(_, _, _, _)
(* ctx: "top" | "and" | "or" | "cds" = what encloses x; inCds: no unit wrapping choice differs *)
Render(x, st, ctx) ==
    LET not == IF x.neg THEN <<"not">> ELSE <<>> IN
    CASE IsLeaf(x) ->
            LET core == CASE x.k = "id" -> <<x.name>>
                          [] x.k = "score" -> <<"minscore", "(", x.name, ",", IntText(x.n), ")">>
                          [] x.k = "min" -> <<"minimum", "(", IntText(x.n), ",", "[">>
                                            \o CommaList(IF st.rev THEN RevSeq(SetToSeq(x.opts)) ELSE SetToSeq(x.opts), 1)
                                            \o <<"]", ")">>
            IN  IF ~st.unit THEN not \o core
                ELSE IF st.dneg /\ ~x.neg /\ x.k = "id" /\ x.name = "b" THEN <<"not">> \o Wrap(<<"not">> \o Wrap(core))
                ELSE IF st.negout THEN not \o Wrap(core)
                ELSE Wrap(not \o core)
      [] x.k = "cds" -> not \o <<"cds", "(">> \o Render(x.args[1], st, "cds") \o <<")">>
      [] x.k \in {"and", "or"} ->
            LET body == RenderArgs(x, st, 1, x.k)
                need == ~st.drop /\ (x.neg \/ ctx = "and" \/ (ctx = "or" /\ x.k = "or"))
                extra == (st.chain /\ ctx = "or") \/ (st.top /\ ctx = "top")
            IN  IF need \/ extra THEN not \o Wrap(body) ELSE body
RenderArgs(x, st, i, op) ==
    IF i > Len(x.args) THEN <<>>
    ELSE (IF i > 1 THEN <<op>> ELSE <<>>) \o Render(x.args[i], st, op) \o RenderArgs(x, st, i + 1, op)
RenderTop(x, st) == IF st.top /\ IsLeaf(x) /\ ~st.unit THEN Wrap(Render(x, st, "top")) ELSE Render(x, st, "top")

(* a rule as tokens.  r: [name, category, kb, nkb, sups (seq), cond (tokens), ext (tokens), extras
   (tokens between CATEGORY x and SUPERIORS/CUTOFF: description, examples, related)] *)
RuleTokens(r) ==
    <<"RULE", r.name, "CATEGORY", r.category>> \o r.extras
    \o (IF r.sups = <<>> THEN <<>> ELSE <<"SUPERIORS">> \o CommaList(r.sups, 1))
    \o <<"CUTOFF", IntText(r.kb), "NEIGHBOURHOOD", IntText(r.nkb), "CONDITIONS">> \o r.cond
    \o (IF r.ext = <<>> THEN <<>> ELSE <<"EXTENDERS">> \o r.ext)

(* ======================= layer 2: Denote ================================== *)
K(t, i) == IF i >= 1 /\ i <= Len(t) THEN t[i].k ELSE "EOF"
Ok(ast, pos, soft) == [ok |-> TRUE, err |-> "", ast |-> ast, pos |-> pos, soft |-> soft]
Fail(err, pos) == [ok |-> FALSE, err |-> err, ast |-> NoNode, pos |-> pos, soft |-> {}]
(* what is missing when token i is not the expected one *)
Unexpected(t, i) == IF K(t, i) \in RuleKeywords \cup {"EOF"} THEN "missing_section" ELSE "syntax"

RECURSIVE PIds(_, _, _)
PIds(t, i, acc) ==
    IF K(t, i) # "ID" THEN [ok |-> FALSE, err |-> Unexpected(t, i), ids |-> <<>>, pos |-> i]
    ELSE IF K(t, i + 1) = "," THEN PIds(t, i + 2, Append(acc, t[i].s))
    ELSE [ok |-> TRUE, err |-> "", ids |-> Append(acc, t[i].s), pos |-> i + 1]

ChainResult(op, args, pos, soft) ==
    IF ~NoDup(args) THEN Fail("repeated_operand", pos)
    ELSE LET nargs == [i \in DOMAIN args |-> Norm(args[i])] IN
         Ok(Grp(op, args, FALSE), pos,
            soft \cup (IF NoDup(nargs) THEN {} ELSE {"operands_equal_up_to_parentheses"}))

RECURSIVE POr(_, _, _), POrRest(_, _, _, _, _), PAnd(_, _, _), PAndRest(_, _, _, _, _), PUnit(_, _, _)
POr(t, i, inCds) ==
    LET first == PAnd(t, i, inCds) IN
    IF ~first.ok THEN first ELSE POrRest(t, first.pos, inCds, <<first.ast>>, first.soft)
POrRest(t, i, inCds, acc, soft) ==
    IF K(t, i) = "or"
    THEN LET nx == PAnd(t, i + 1, inCds) IN
         IF ~nx.ok THEN nx ELSE POrRest(t, nx.pos, inCds, Append(acc, nx.ast), soft \cup nx.soft)
    ELSE IF Len(acc) = 1 THEN Ok(acc[1], i, soft)
    ELSE ChainResult("or", acc, i, soft)
PAnd(t, i, inCds) ==
    LET first == PUnit(t, i, inCds) IN
    IF ~first.ok THEN first ELSE PAndRest(t, first.pos, inCds, <<first.ast>>, first.soft)
PAndRest(t, i, inCds, acc, soft) ==
    IF K(t, i) = "and"
    THEN LET nx == PUnit(t, i + 1, inCds) IN
         IF ~nx.ok THEN nx ELSE PAndRest(t, nx.pos, inCds, Append(acc, nx.ast), soft \cup nx.soft)
    ELSE IF Len(acc) = 1 THEN Ok(acc[1], i, soft)
    ELSE ChainResult("and", acc, i, soft)

PScore(t, j, neg) ==
    IF K(t, j + 1) = "(" /\ K(t, j + 2) = "ID" /\ K(t, j + 3) = "," /\ K(t, j + 4) = "INT" /\ K(t, j + 5) = ")"
    THEN Ok(Score(t[j + 2].s, t[j + 4].n, neg), j + 6, {})
    ELSE Fail("syntax", j)
PMin(t, j, neg) ==
    IF ~(K(t, j + 1) = "(" /\ K(t, j + 2) = "INT" /\ K(t, j + 3) = "," /\ K(t, j + 4) = "[") THEN Fail("syntax", j)
    ELSE LET ids == PIds(t, j + 5, <<>>) IN
         IF ~ids.ok THEN Fail("syntax", ids.pos)
         ELSE IF ~(K(t, ids.pos) = "]" /\ K(t, ids.pos + 1) = ")") THEN Fail("syntax", ids.pos)
         ELSE IF ~NoDup(ids.ids) THEN Fail("repeated_option", j)
         ELSE IF t[j + 2].n < 1 THEN Fail("minimum_count", j)
         ELSE Ok(Min(t[j + 2].n, RangeOf(ids.ids), neg), ids.pos + 2, {})
PCds(t, j, neg) ==
    IF K(t, j + 1) # "(" THEN Fail("syntax", j)
    ELSE LET body == POr(t, j + 2, TRUE) IN
         IF ~body.ok THEN body
         ELSE IF K(t, body.pos) # ")" THEN Fail("unbalanced_group", body.pos)
         ELSE IF body.ast.k = "id" THEN Fail("cds_single_identifier", j)
         ELSE Ok(Cds(body.ast, neg), body.pos + 1,
                 body.soft \cup (IF LeafCount(body.ast) < 2 THEN {"cds_with_one_operand"} ELSE {}))
PUnit(t, i, inCds) ==
    LET neg == K(t, i) = "not"
        j == IF neg THEN i + 1 ELSE i
        k == K(t, j)
    IN  CASE k = "(" -> LET inner == POr(t, j + 1, inCds) IN
                        IF ~inner.ok THEN inner
                        ELSE IF K(t, inner.pos) # ")" THEN Fail("unbalanced_group", inner.pos)
                        ELSE Ok(Paren(inner.ast, neg), inner.pos + 1, inner.soft)
          [] k = "minimum" /\ ~inCds -> PMin(t, j, neg)
          [] k = "cds" /\ ~inCds -> PCds(t, j, neg)
          [] k = "minscore" -> PScore(t, j, neg)
          [] k = "ID" -> Ok(Id(t[j].s, neg), j + 1, {})
          [] k = "EOF" /\ neg -> Fail("trailing_not", j)
          [] k = ")" -> Fail("unbalanced_group", j)
          [] OTHER -> Fail(Unexpected(t, j), j)

(* first index >= i holding a rule keyword (Len + 1 if none) *)
RECURSIVE NextIn(_, _, _)
NextIn(t, i, S) == IF i > Len(t) \/ t[i].k \in S THEN i ELSE NextIn(t, i + 1, S)

(* EXAMPLE ID ID . INT INT-INT [free text] ..., repeated *)
RECURSIVE PExamples(_, _, _)
PExamples(t, i, soft) ==
    IF K(t, i) # "EXAMPLE" THEN [ok |-> TRUE, err |-> "", pos |-> i, soft |-> soft]
    ELSE IF ~(K(t, i + 1) = "ID" /\ K(t, i + 2) = "ID" /\ K(t, i + 3) = "." /\ K(t, i + 4) = "INT" /\ K(t, i + 5) = "TEXT")
         THEN [ok |-> FALSE, err |-> "example_syntax", pos |-> i, soft |-> soft]
    ELSE LET s2 == soft \cup (IF t[i + 1].s # "NCBI" \/ t[i + 4].n < 1 \/ t[i + 5].r # 1 THEN {"example_values"} ELSE {})
         IN  PExamples(t, NextIn(t, i + 6, RuleKeywords), s2)

(* env: [sigs, cats] sets of names; known: sequence of rules already defined (name, superiors) *)
NoRule == [name |-> "", category |-> "", kb |-> 0, nkb |-> 0, superiors |-> {}, ast |-> NoNode, ext |-> NoNode]
RFail(err, soft) == [ok |-> FALSE, err |-> err, soft |-> soft, rule |-> NoRule]
KnownNames(known) == {known[i].name : i \in DOMAIN known}
SuperiorsOf(known, name) == known[CHOOSE i \in DOMAIN known : known[i].name = name].superiors

PRule(t, env, known) ==
    IF K(t, 2) # "ID" THEN RFail(Unexpected(t, 2), {})
    ELSE IF K(t, 3) # "CATEGORY" THEN RFail(Unexpected(t, 3), {})
    ELSE IF K(t, 4) # "ID" THEN RFail(Unexpected(t, 4), {})
    ELSE IF t[4].s \notin env.cats THEN RFail("unknown_category", {})
    ELSE
    LET p1 == IF K(t, 5) = "DESCRIPTION" THEN NextIn(t, 6, RuleKeywords) ELSE 5
        ex == PExamples(t, p1, {})
    IN
    IF ~ex.ok THEN RFail(ex.err, ex.soft)
    ELSE
    LET rel == IF K(t, ex.pos) = "RELATED" THEN PIds(t, ex.pos + 1, <<>>)
               ELSE [ok |-> TRUE, err |-> "", ids |-> <<>>, pos |-> ex.pos]
    IN
    IF ~rel.ok THEN RFail(rel.err, ex.soft)
    ELSE
    LET sup == IF K(t, rel.pos) = "SUPERIORS" THEN PIds(t, rel.pos + 1, <<>>)
               ELSE [ok |-> TRUE, err |-> "", ids |-> <<>>, pos |-> rel.pos]
    IN
    IF ~sup.ok THEN RFail(sup.err, ex.soft)
    ELSE IF ~NoDup(sup.ids) THEN RFail("superior_duplicated", ex.soft)
    ELSE IF ~(RangeOf(sup.ids) \subseteq KnownNames(known)) THEN RFail("superior_undefined", ex.soft)
    ELSE
    LET p == sup.pos IN
    IF K(t, p) # "CUTOFF" THEN RFail(Unexpected(t, p), ex.soft)
    ELSE IF K(t, p + 1) # "INT" THEN RFail(Unexpected(t, p + 1), ex.soft)
    ELSE IF K(t, p + 2) # "NEIGHBOURHOOD" THEN RFail(Unexpected(t, p + 2), ex.soft)
    ELSE IF K(t, p + 3) # "INT" THEN RFail(Unexpected(t, p + 3), ex.soft)
    ELSE IF K(t, p + 4) # "CONDITIONS" THEN RFail(Unexpected(t, p + 4), ex.soft)
    ELSE
    LET cond == POr(t, p + 5, FALSE) IN
    IF ~cond.ok THEN RFail(cond.err, ex.soft)
    ELSE
    LET q == cond.pos
        ext == IF K(t, q) # "EXTENDERS" THEN Ok(NoNode, q, {})
               ELSE IF K(t, q + 1) = "cds" THEN PCds(t, q + 1, FALSE)
               ELSE IF K(t, q + 1) = "ID" THEN Ok(Id(t[q + 1].s, FALSE), q + 2, {})
               ELSE Fail("extenders_syntax", q + 1)
        soft == ex.soft \cup cond.soft \cup ext.soft
    IN
    IF ~ext.ok THEN RFail(ext.err, ex.soft)
    ELSE IF K(t, ext.pos) # "EOF" THEN RFail(IF K(t, ext.pos) = ")" THEN "unbalanced_group" ELSE "syntax", soft)
    ELSE IF ~Positive(cond.ast) THEN RFail("no_positive", soft)
    ELSE IF ext.ast.k # "none" /\ ~Positive(ext.ast) THEN RFail("extender_not_positive", soft)
    ELSE IF ~(IdsOf(cond.ast) \subseteq env.sigs) THEN RFail("unknown_profile", soft)
    ELSE IF ~(IdsOf(ext.ast) \subseteq env.sigs) THEN RFail("extender_profile", soft)
    ELSE [ok |-> TRUE, err |-> "", soft |-> soft,
          rule |-> [name |-> t[2].s, category |-> t[4].s, kb |-> t[p + 1].n, nkb |-> t[p + 3].n,
                    superiors |-> RangeOf(sup.ids) \cup UNION {SuperiorsOf(known, s) : s \in RangeOf(sup.ids)},
                    ast |-> Norm(cond.ast), ext |-> IF ext.ast.k = "none" THEN NoNode ELSE Norm(ext.ast)]]

(* ======================= layer 3: the parser state ========================= *)
(* state: [aliases: name -> lexed tokens, rules: sequence of
           [name, category, cutoff, nbhd, superiors, ast, ext]] *)
NoAliases == [x \in {} |-> <<>>]
EmptyState == [aliases |-> NoAliases, rules |-> <<>>]
WithAlias(al, name, body) == [x \in DOMAIN al \cup {name} |-> IF x = name THEN body ELSE al[x]]

RECURSIVE ExpandFrom(_, _, _, _)
ExpandFrom(t, p, hi, al) ==
    IF p > hi THEN <<>>
    ELSE (IF t[p].k = "ID" /\ t[p].s \in DOMAIN al THEN al[t[p].s] ELSE <<t[p]>>) \o ExpandFrom(t, p + 1, hi, al)
Expand(t, lo, hi, al) == IF lo > hi THEN <<>>
                         ELSE IF DOMAIN al = {} \/ \A p \in lo..hi : t[p].s \notin DOMAIN al THEN SubSeq(t, lo, hi)
                         ELSE ExpandFrom(t, lo, hi, al)

(* mult: <<cutoff num, cutoff den, neighbourhood num, neighbourhood den>> *)
Scale(kb, num, den) == (kb * 1000 * num) \div den
Scaled(r, mult) == [name |-> r.name, category |-> r.category, cutoff |-> Scale(r.kb, mult[1], mult[2]),
                    nbhd |-> Scale(r.nkb, mult[3], mult[4]), superiors |-> r.superiors, ast |-> r.ast, ext |-> r.ext]

SFail(err, soft, st) == [ok |-> FALSE, err |-> err, soft |-> soft, st |-> st]
RECURSIVE PItems(_, _, _, _, _, _)
PItems(t, i, st, env, mult, soft) ==
    IF i > Len(t) THEN [ok |-> TRUE, err |-> "", soft |-> soft, st |-> st]
    ELSE IF t[i].k = "DEFINE" THEN
        LET j == NextIn(t, i + 3, RuleKeywords)
            name == t[i + 1].s
        IN  IF K(t, i + 1) = "ID" /\ name \in DOMAIN st.aliases THEN SFail("duplicate_alias", soft, st)
            ELSE IF K(t, i + 1) # "ID" THEN SFail(Unexpected(t, i + 1), soft, st)
            ELSE IF K(t, i + 2) # "AS" THEN SFail(Unexpected(t, i + 2), soft, st)
            ELSE IF j = i + 3 THEN SFail("empty_alias", soft, st)
            ELSE IF \E p \in (i + 3)..(j - 1) : t[p].k = "TEXT" THEN SFail("alias_body", soft, st)
            ELSE IF name \in env.sigs \cup env.cats \cup KnownNames(st.rules) THEN SFail("alias_name_clash", soft, st)
            ELSE LET body == Expand(t, i + 3, j - 1, st.aliases)
                     (* an earlier alias mentions this name: binding time is not documented *)
                     late == \E a \in DOMAIN st.aliases : \E p \in DOMAIN st.aliases[a] : st.aliases[a][p].s = name
                     (* the definition mentions its own name: whether that is an error in itself is not documented
                        (the name stays an ordinary identifier, so *using* the alias is an unknown profile) *)
                     self == \E p \in DOMAIN body : body[p].s = name
                 IN  PItems(t, j, [st EXCEPT !.aliases = WithAlias(st.aliases, name, body)], env, mult,
                            soft \cup (IF late THEN {"alias_forward_reference"} ELSE {})
                                 \cup (IF self THEN {"alias_self_reference"} ELSE {}))
    ELSE IF t[i].k = "RULE" THEN
        LET j == NextIn(t, i + 1, Starters) IN
        IF K(t, i + 1) = "ID" /\ t[i + 1].s \in DOMAIN st.aliases THEN SFail("alias_as_rule_name", soft, st)
        ELSE LET chunk == <<t[i]>> \o (IF i + 1 <= j - 1 THEN <<t[i + 1]>> ELSE <<>>) \o Expand(t, i + 2, j - 1, st.aliases)
                 r == PRule(chunk, env, st.rules)
             IN  IF ~r.ok THEN SFail(r.err, soft \cup r.soft, st)
                 ELSE IF r.rule.name \in KnownNames(st.rules) THEN SFail("duplicate_rule", soft \cup r.soft, st)
                 ELSE PItems(t, j, [st EXCEPT !.rules = Append(st.rules, Scaled(r.rule, mult))], env, mult, soft \cup r.soft)
    ELSE SFail(IF t[i].k \in RuleKeywords THEN "missing_section" ELSE "syntax", soft, st)

(* one file: lexed tokens t.  Either the extended state, or failure with the state unchanged. *)
ParseFile(t, st, env, mult) ==
    IF t = <<>> THEN SFail("empty_input", {}, st)
    ELSE IF \E i \in DOMAIN t : t[i].k = "BAD" THEN SFail("illegal_character", {}, st)
    ELSE LET r == PItems(t, 1, st, env, mult, {}) IN
         IF r.ok THEN r ELSE SFail(r.err, r.soft, st)

(* several files in order with shared aliases and rules (create_rules) *)
RECURSIVE ParseFilesFrom(_, _, _, _, _, _)
ParseFilesFrom(files, k, st, env, mult, soft) ==
    IF k > Len(files) THEN [ok |-> TRUE, err |-> "", soft |-> soft, st |-> st]
    ELSE LET r == ParseFile(files[k], st, env, mult) IN
         IF ~r.ok THEN SFail(r.err, soft \cup r.soft, EmptyState)
         ELSE ParseFilesFrom(files, k + 1, r.st, env, mult, soft \cup r.soft)
ParseFiles(files, env, mult) == ParseFilesFrom(files, 1, EmptyState, env, mult, {})

(* Denote for closed-vocabulary token texts *)
Denote(files, env, mult) == ParseFiles([k \in DOMAIN files |-> LexSeq(files[k])], env, mult)

(* superiors are transitively closed in a state *)
SuperiorsClosed(st) ==
    \A i \in DOMAIN st.rules : \A s \in st.rules[i].superiors :
        /\ s \in KnownNames(st.rules)
        /\ SuperiorsOf(st.rules, s) \subseteq st.rules[i].superiors
=============================================================================
