--------------------------- MODULE NrpsModules_Trace ---------------------------
(* Trace validation for C14.  One event = one abstract input with the bundle of  *)
(* observed results; TLC decides every result against NrpsModules.tla and prints *)
(* one REJECT line per failed clause.                                            *)
(*  op "gene":  inp (domains), res = [exc, v |-> modules], rl = reloads (module    *)
(*              by module), rs = reloads through the saved results of the gene     *)
(*  op "pair":  up, down (domains), pa, pb = [exc, v |-> modules] before,         *)
(*              obs = sequence of [same, out |-> [exc, v |-> [merged,m,qa,qb]],   *)
(*              rl, rsa, rsb (saved results of either gene after a merge)] - one per strand combination; qa_eq / qb_eq = TRUE is a mere    *)
(*              compression: the list equals pa / pb and is not repeated            *)
EXTENDS NrpsModules, TLC, Json, IOUtils
VARIABLE l
Trace == ndJsonDeserialize(IOEnv.TRACE_FILE)

GeneFailed(ev) == BuildClauses(ev.inp, ev.res, ev.rl)
                  \cup (IF ev.res.exc = "" THEN ResultsReloadClauses(ev.res.v, ev.rs) ELSE {})

Expand(ev, out) == [exc |-> out.exc,
                    v |-> [merged |-> out.v.merged, m |-> out.v.m,
                           qa |-> IF out.v.qa_eq THEN ev.pa.v ELSE out.v.qa,
                           qb |-> IF out.v.qb_eq THEN ev.pb.v ELSE out.v.qb]]

PairFailed(ev) ==
    IF ev.pa.exc # "" THEN {"build/no_exception:" \o ev.pa.exc}
    ELSE IF ev.pb.exc # "" THEN {"build/no_exception:" \o ev.pb.exc}
    ELSE UNION {CombineClauses(ev.up, ev.down, ev.obs[k].same, ev.pa.v, ev.pb.v, Expand(ev, ev.obs[k].out), ev.obs[k].rl)
                \cup (IF ev.obs[k].out.exc = "" /\ ev.obs[k].out.v.merged
                      THEN ResultsReloadClauses(Expand(ev, ev.obs[k].out).v.qa, ev.obs[k].rsa)
                           \cup ResultsReloadClauses(Expand(ev, ev.obs[k].out).v.qb, ev.obs[k].rsb)
                      ELSE {})
                : k \in DOMAIN ev.obs}

(* op "record": three consecutive genes of one region through the loop that feeds the merge (generate_domains):
   genes = the domains found in each, motifs = whether a gene has motif hits, strands; mods = per gene the modules kept,
   each with the positions (1..3) of the genes its domains come from.  Only *adjacent* genes are merged: a module never
   holds domains of the two outer genes, whatever the gene in between carries *)
RecordFailed(ev) ==
    IF ev.exc # "" THEN {"record/no_exception:" \o ev.exc}
    ELSE LET all == UNION {{ev.mods[g][k] : k \in DOMAIN ev.mods[g]} : g \in DOMAIN ev.mods}
             from(m) == {m.genes[i] : i \in DOMAIN m.genes}
         IN  (IF \E m \in all : {1, 3} \subseteq from(m) THEN {"record/only_adjacent_genes_are_merged"} ELSE {})
             \cup (IF \E m \in all : \E a, b \in from(m) : ev.strands[a] # ev.strands[b]
                   THEN {"record/only_same_strand_genes_are_merged"} ELSE {})
             \cup (IF \E m \in all : Cardinality(from(m)) > 1 /\ ~m.complete
                   THEN {"record/merged_only_if_complete"} ELSE {})
             (* the results of the record saved and loaded again for the same record: construction never fails and the
                modules - merged ones included - are the same, domains in the same order *)
             \cup (IF ev.again.exc # "" THEN {"record/saved_results_load_again:" \o ev.again.exc}
                   ELSE IF ev.again.mods # ev.mods THEN {"record/saved_results_give_the_same_modules"} ELSE {})

Failed(ev) == CASE ev.op = "gene" -> GeneFailed(ev)
                [] ev.op = "pair" -> PairFailed(ev)
                [] ev.op = "record" -> RecordFailed(ev)
                [] OTHER -> {"trace/unknown_op"}

Init == l = 1
Step == /\ l <= Len(Trace)
        /\ \A c \in Failed(Trace[l]) : PrintT(<<"REJECT", Trace[l].id, c>>)
        /\ l' = l + 1
Done == l = Len(Trace) + 1 /\ PrintT(<<"DONE", Len(Trace)>>) /\ l' = l + 1
Next == Step \/ Done
Spec == Init /\ [][Next]_l
=============================================================================
