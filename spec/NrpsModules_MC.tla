---------------------------- MODULE NrpsModules_MC ----------------------------
(* Generator + self-consistency of the module rules (property C14).            *)
(* phase 0 states: one gene = a string over the alphabet (indices into          *)
(* Alphabet); phase 1 states: an upstream gene a and a downstream gene b.       *)
(* The states are the cases replayed against the real code (dump).  On every    *)
(* state the model's own construction (Build / Combine of NrpsModules) is       *)
(* judged by the very verdict operators that judge the code, so the rules are   *)
(* satisfiable; Variant # "ok" selects deliberately wrong models that must be   *)
(* caught (negative controls).                                                  *)
EXTENDS NrpsModules, TLC
CONSTANTS Alphabet,    \* sequence of domain records
          SingleIdx,   \* indices usable in single genes
          PairIdx,     \* indices usable in gene pairs
          MaxLen, MaxUp, MaxDown, Variant
VARIABLES phase, a, b
vars == <<phase, a, b>>

Gene(x) == [k \in DOMAIN x |-> Alphabet[x[k]]]

Init == phase = 0 /\ a = <<>> /\ b = <<>>
AddSingle == /\ phase = 0 /\ Len(a) < MaxLen
             /\ \E x \in SingleIdx : a' = Append(a, x)
             /\ UNCHANGED <<phase, b>>
StartPair == /\ phase = 0 /\ Len(a) >= 1 /\ Len(a) <= MaxUp /\ MaxDown >= 1
             /\ \A k \in DOMAIN a : a[k] \in PairIdx
             /\ phase' = 1
             /\ \E x \in PairIdx : b' = <<x>>
             /\ UNCHANGED a
AddDown == /\ phase = 1 /\ Len(b) < MaxDown
           /\ \E x \in PairIdx : b' = Append(b, x)
           /\ UNCHANGED <<phase, a>>
Next == AddSingle \/ StartPair \/ AddDown
Spec == Init /\ [][Next]_vars

ModelReload(ms) == [j \in DOMAIN ms |-> Result("", [m |-> ms[j], js |-> TRUE])]
Up == Build(Variant, 1, Gene(a))
Down == Build(Variant, 2, Gene(b))
Merge(same) == Combine(Variant, Up, Down, same)

(* (LET-bound values are computed once per state by TLC; top-level definitions would be re-evaluated) *)
(* the model's modules for one gene satisfy partition, layout, flags, border reasons; every model
   module is accepted again, component by component, from its own components; the bands are not empty *)
SingleOK == phase = 0 =>
    LET up == Up IN BuildClauses(Gene(a), Result("", up), ModelReload(up)) = {}
ReloadSat == phase = 0 => LET up == Up IN \A j \in DOMAIN up : AcceptOwn(Variant, up[j].comps)
BandsOrdered == phase = 0 => LET up == Up IN \A j \in DOMAIN up : \A first \in BOOLEAN :
                  /\ CompleteMust(up[j].comps, first) => CompleteMay(up[j].comps, first)
                  /\ TransATMust(up[j].comps) => TransATMay(up[j].comps)
(* the model's merge satisfies the merge relation on either strand combination, and the merged module
   is accepted again from its own components *)
PairOK == phase = 1 =>
    LET up == Up
        down == Down
        ga == Gene(a)
        gb == Gene(b)
    IN  \A same \in BOOLEAN :
            LET o == Combine(Variant, up, down, same)
            IN  /\ CombineClauses(ga, gb, same, up, down, Result("", o),
                                  IF o.merged THEN ModelReload(<<o.m>>) ELSE <<>>) = {}
                /\ o.merged => AcceptOwn(Variant, o.m.comps)
(* expected to be VIOLATED: show that the model does merge / does absorb a trailing KR *)
NeverMerges == phase = 1 => ~Merge(TRUE).merged
NeverAbsorbs == phase = 1 => (Merge(TRUE).merged => Len(Merge(TRUE).qb) >= Len(Down) - 1)
NeverSplits == phase = 0 => Len(Up) <= 1
NeverTwoCarriers == phase = 0 => \A j \in DOMAIN Up : Cardinality(Pos(Up[j].comps, IsCP)) <= 1
=============================================================================
