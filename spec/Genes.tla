-------------------------------- MODULE Genes --------------------------------
(* Gene lookup by location (C08, first half): membership is set-of-bases          *)
(* containment / overlap; results come in location order.                          *)
(* genes == sequence of locations; a result is a sequence of gene indices.         *)
EXTENDS Ring

Within(genes, q) == {i \in DOMAIN genes : Contains(q, genes[i])}
Touching(genes, q) == {i \in DOMAIN genes : Overlaps(q, genes[i])}
Expected(genes, q, withOverlapping) == IF withOverlapping THEN Touching(genes, q) \cup Within(genes, q) ELSE Within(genes, q)

(* location order: non-bridging genes ascend by (start, length) along the query (for a query that spans
   the origin the part before the origin comes first); genes spanning the origin sort first in the record
   whatever the query, so their position in the result is left free *)
OrderKey(R, q, g) == IF Len(q.parts) > 1 /\ Bridges(q) THEN (OuterStart(g) - OuterStart(q)) % R.L ELSE OuterStart(g)
Ordered(R, genes, q, res) ==
    (* for a query spanning the origin, a gene that merely overlaps it may touch it at both ends: only the
       genes contained in the query have a defined position there *)
    (* likewise a gene in several exons has a position along such a query only when the stretch from its first to its
       last base lies in the query as one arc (its exons may sit at the two ends of the query) *)
    LET plain == SelectSeq(res, LAMBDA i : /\ ~Bridges(genes[i])
                                           /\ (Len(q.parts) = 1 \/ Contains(q, genes[i]))
                                           /\ (Len(q.parts) = 1 \/ Len(genes[i].parts) = 1 \/
                                               ((OuterStart(genes[i]) - OuterStart(q)) % R.L) + Cardinality(Footprint(R, genes[i])) <= Size(q)))
    IN  \A a \in 1..(Len(plain) - 1) :
            LET ka == OrderKey(R, q, genes[plain[a]])
                kb == OrderKey(R, q, genes[plain[a + 1]])
            IN  ka < kb \/ (ka = kb /\ Size(genes[plain[a]]) <= Size(genes[plain[a + 1]]))

NoDuplicates(res) == \A i, j \in DOMAIN res : i # j => res[i] # res[j]

LookupFailed(R, genes, q, withOverlapping, res) ==
    LET got == {res[i] : i \in DOMAIN res} IN
    (IF got # Expected(genes, q, withOverlapping) THEN {"membership_exact"} ELSE {})
    \cup (IF ~NoDuplicates(res) THEN {"each_gene_once"} ELSE {})
    \cup (IF got \subseteq DOMAIN genes /\ ~Ordered(R, genes, q, res) THEN {"location_order"} ELSE {})

(* implementation-shaped lookup (negative control): genes sorted by (start, length); start at the first gene
   not before the query start, walk back over overlapping predecessors, then forward until the first gene that
   is neither contained nor overlapping: misses genes shadowed by an earlier, longer gene *)
SortedIdx(genes) ==
    CHOOSE s \in [1..Len(genes) -> DOMAIN genes] :
        /\ \A i, j \in 1..Len(genes) : i # j => s[i] # s[j]
        /\ \A i \in 1..(Len(genes) - 1) :
              \/ OuterStart(genes[s[i]]) < OuterStart(genes[s[i + 1]])
              \/ (OuterStart(genes[s[i]]) = OuterStart(genes[s[i + 1]]) /\ Size(genes[s[i]]) <= Size(genes[s[i + 1]]))
RECURSIVE FwdScan(_, _, _, _, _)
FwdScan(genes, order, q, i, acc) ==
    IF i > Len(order) THEN acc
    ELSE IF Overlaps(q, genes[order[i]]) THEN FwdScan(genes, order, q, i + 1, acc \cup {order[i]})
    ELSE acc
ImplTouching(genes, q) ==
    LET order == SortedIdx(genes)
        first == IF \E i \in 1..Len(order) : OuterStart(genes[order[i]]) >= OuterStart(q)
                 THEN MinOf({i \in 1..Len(order) : OuterStart(genes[order[i]]) >= OuterStart(q)}) ELSE Len(order) + 1
        RECURSIVE Back(_)
        Back(i) == IF i > 1 /\ Overlaps(q, genes[order[i - 1]]) THEN Back(i - 1) ELSE i
    IN  FwdScan(genes, order, q, Back(first), {})
=============================================================================
