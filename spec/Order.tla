-------------------------------- MODULE Order --------------------------------
(* "Location order" (C06: areas are numbered 1..n in location order; C10 / C17:  *)
(* the numbering is the same after a reload and in every process).                *)
(*                                                                                *)
(* Numbers are positions in lists the record keeps sorted by *inserting* each     *)
(* feature where a comparison "x < y" puts it (bisect) and by sorting with the    *)
(* same comparison.  A list built that way has one well-defined order - whatever  *)
(* the order of insertion - exactly when the comparison is a strict weak order:   *)
(* irreflexive, asymmetric, transitive, with transitive "neither before the       *)
(* other".  This module states the intended order and those laws; Order_Trace     *)
(* checks the comparison matrices observed on real features against them and      *)
(* Order_MC shows on the model why the laws matter (insertion by bisection with   *)
(* a comparison that breaks asymmetry gives insertion-order dependent numbers).   *)
EXTENDS Ring

(* where a location starts on the unrolled record: a location that spans the origin starts before base 0 *)
UnrolledStart(R, loc) == IF Bridges(loc) THEN OuterStart(loc) - R.L ELSE OuterStart(loc)
(* the stretch before the origin reaches the origin itself (no intron over the origin) *)
TouchesOrigin(R, loc) == Bridges(loc) /\ \E i \in DOMAIN loc.parts : loc.parts[i][2] = R.L

(* plain features (genes, domains, ...): by start, ties shortest first.
   areas (protoclusters, candidate clusters, subregions, regions): by start, ties longest first.
   Both are stated as "must be before" (the sandwich leaves open how ties in <<start, size>> are broken, and
   where exactly a spliced feature with an intron over the origin sits among the origin-spanning ones). *)
Specified(R, a, b) == (Bridges(a) => TouchesOrigin(R, a)) /\ (Bridges(b) => TouchesOrigin(R, b))
FeatureMustBefore(R, a, b) ==
    \/ Bridges(a) /\ ~Bridges(b)
    \/ /\ Specified(R, a, b) /\ Bridges(a) = Bridges(b)
       /\ \/ UnrolledStart(R, a) < UnrolledStart(R, b)
          \/ UnrolledStart(R, a) = UnrolledStart(R, b) /\ Size(a) < Size(b)
AreaMustBefore(R, a, b) ==
    \/ Bridges(a) /\ ~Bridges(b)
    \/ /\ Bridges(a) = Bridges(b)
       /\ \/ UnrolledStart(R, a) < UnrolledStart(R, b)
          \/ UnrolledStart(R, a) = UnrolledStart(R, b) /\ Size(a) > Size(b)
MustBefore(R, kind, a, b) == IF kind = "area" THEN AreaMustBefore(R, a, b) ELSE FeatureMustBefore(R, a, b)

(* the laws, over an observed matrix lt[i][j] == "item i < item j" *)
OrderLawsFailed(R, kind, items, lt) ==
    LET I == DOMAIN items
        tie(i, j) == ~lt[i][j] /\ ~lt[j][i]
    IN  (IF \E i \in I : lt[i][i] THEN {"irreflexive"} ELSE {})
        \cup (IF \E i, j \in I : i # j /\ lt[i][j] /\ lt[j][i] THEN {"asymmetric"} ELSE {})
        \cup (IF \E i, j, k \in I : lt[i][j] /\ lt[j][k] /\ ~lt[i][k] THEN {"transitive"} ELSE {})
        \cup (IF \E i, j, k \in I : tie(i, j) /\ tie(j, k) /\ ~tie(i, k) THEN {"ties_are_transitive"} ELSE {})
        \cup (IF \E i, j \in I : MustBefore(R, kind, items[i], items[j]) /\ ~lt[i][j] THEN {"location_order_as_stated"} ELSE {})
        \cup (IF \E i, j \in I : MustBefore(R, kind, items[i], items[j]) /\ lt[j][i] THEN {"nothing_before_its_predecessor"} ELSE {})

(* ---- why the laws matter: insertion by bisection ----------------------------------------------------------- *)
(* bisect_left(list, x): the first position p such that not (list[p] < x), found by halving; with a strict weak
   order and a sorted list the result is the same for every insertion order (up to ties) *)
RECURSIVE Bisect(_, _, _, _, _)
Bisect(Lt(_, _), list, x, lo, hi) ==
    IF lo >= hi THEN lo
    ELSE LET mid == (lo + hi) \div 2
         IN  IF Lt(list[mid + 1], x) THEN Bisect(Lt, list, x, mid + 1, hi) ELSE Bisect(Lt, list, x, lo, mid)
InsertAt(list, p, x) == SubSeq(list, 1, p) \o <<x>> \o SubSeq(list, p + 1, Len(list))
Insert(Lt(_, _), list, x) == InsertAt(list, Bisect(Lt, list, x, 0, Len(list)), x)

(* the comparison of areas as found in the code before the repair: the key order (origin-spanning first, by the
   length of the stretch before the origin; start ascending; longest first) with a shortcut "a container is
   before what it contains" *)
KeyBefore(R, a, b) ==
    \/ UnrolledStart(R, a) < UnrolledStart(R, b)
    \/ UnrolledStart(R, a) = UnrolledStart(R, b) /\ Size(a) > Size(b)
ShortcutBefore(R, a, b) == (Contains(a, b) /\ ~Contains(b, a)) \/ KeyBefore(R, a, b)
=============================================================================
