---------------------------- MODULE Determinism ----------------------------
(***************************************************************************)
(* Same input, same output (C17).  The schedule is the order in which the  *)
(* interpreter iterates a set or dict: a permutation chosen per run (it    *)
(* depends on PYTHONHASHSEED for strings and on the heap layout for        *)
(* objects hashed by address).  A stage is a function of (input set,       *)
(* iteration order); the property says the order must not be observable.   *)
(*                                                                          *)
(* The model has the two stage shapes found in the pipeline:                *)
(*   SortedBy(key)  - iterate the set, then sort stably by a key            *)
(*   AsListed       - iterate the set and emit (list(set) reaching output)  *)
(* and states when each is order-free: SortedBy iff the key is total on the *)
(* input (no two items tie), AsListed only for sets of at most one item.    *)
(* items are records [key, val]                                              *)
(***************************************************************************)
EXTENDS Integers, Sequences, FiniteSets, SequencesExt, Functions

Perms(S) == {f \in [1..Cardinality(S) -> S] : \A i, j \in 1..Cardinality(S) : i # j => f[i] # f[j]}

(* stable insertion sort by key *)
RECURSIVE InsertByKey(_, _)
InsertByKey(sorted, x) ==
    IF sorted = <<>> THEN <<x>>
    ELSE IF x.key < Head(sorted).key THEN <<x>> \o sorted
    ELSE <<Head(sorted)>> \o InsertByKey(Tail(sorted), x)
RECURSIVE StableSort(_)
StableSort(seq) == IF seq = <<>> THEN <<>> ELSE InsertByKey(StableSort(SubSeq(seq, 1, Len(seq) - 1)), seq[Len(seq)])

SortedBy(order) == StableSort(order)
TotalKeySorted(order) == StableSort([i \in DOMAIN order |-> [key |-> order[i].key * 100 + order[i].val, val |-> order[i].val]])
AsListed(order) == order

OrderFree(Stage(_), S) == \A o1, o2 \in Perms(S) : Stage(o1) = Stage(o2)
HasTie(S) == \E x, y \in S : x # y /\ x.key = y.key

(* the outputs of K runs of the same stage on the same input must coincide *)
AllEqual(seq) == \A i, j \in DOMAIN seq : seq[i] = seq[j]
=============================================================================
