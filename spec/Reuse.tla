------------------------------- MODULE Reuse -------------------------------
(***************************************************************************)
(* Reusing saved module results (C11).                                      *)
(*                                                                          *)
(* Per module a small state machine                                         *)
(*     absent | fresh(r) | saved(json of r)                                 *)
(* with actions Run, Save, Regenerate and ChangeOption.  A context          *)
(*   c == [strict, subset, mult, thr : [a, b], opt, schema, rec]            *)
(* is everything the outside world can change between saving and reusing:   *)
(* strictness level, rule subset (--hmmdetection-limit-to-rule-names),      *)
(* fungal distance multipliers, a threshold (TTA: GC threshold a/b; HMMer   *)
(* results: a = 10 * minimum score, b = -log10(maximum e-value)), an option  *)
(* the results do not record (sideload arguments), the schema version of    *)
(* the running code and the id of the record the results are loaded         *)
(* against.  env == [fungi, gcn, len] is what cannot change on reuse (the    *)
(* taxon is taken from the saved results; the record's GC count / length).   *)
(*                                                                          *)
(* Every kind of results *records* some of these dimensions (labels in its  *)
(* JSON).  Three classes of dimensions per kind:                             *)
(*   hard - recorded and deciding the content (rule set, multipliers for    *)
(*          fungi, thresholds, schema, record id): a mismatch makes the      *)
(*          saved results stale;                                             *)
(*   soft - recorded, but not deciding the content on its own (strictness   *)
(*          when the rule set is the same): hmm_detection deliberately       *)
(*          keeps such results (with a warning) - reuse *unchanged* or drop; *)
(*   free - not recorded (sideload arguments, multipliers for bacteria):    *)
(*          cannot invalidate anything, results must be reproduced.          *)
(* Stale results may only be converted where the module documents a sound   *)
(* conversion: tightening HMMer thresholds (refilter) and TTA thresholds     *)
(* when the codons are known or no longer wanted.                            *)
(***************************************************************************)
EXTENDS Integers, Sequences, FiniteSets

Kinds == {"rules", "sideload", "nrps", "hmmer", "tta", "pfam2go", "t2pks"}
NoThr == [a |-> 0, b |-> 1]

(* the rule set in force: the whole file set of the strictness level, or a named subset (then independent of it) *)
RuleSet(c) == IF c.subset = 0 THEN c.strict ELSE 2 + c.subset
HardView(kind, env, c) ==
    [rs |-> IF kind = "rules" THEN RuleSet(c) ELSE 0,
     mu |-> IF kind = "rules" /\ env.fungi THEN c.mult ELSE 0,
     th |-> IF kind \in {"hmmer", "tta"} THEN c.thr ELSE NoThr,
     schema |-> c.schema,
     rec |-> c.rec]
SoftView(kind, c) == IF kind = "rules" THEN c.strict ELSE 0

(* TTA: codons are searched iff the record's GC content reaches the threshold a/b *)
Includes(env, t) == env.gcn * t.b >= t.a * env.len
(* can results made under threshold t0 be turned into what a run under t1 gives? *)
Convertible(kind, env, t0, t1) ==
    CASE kind = "hmmer" -> t1.a >= t0.a /\ t1.b >= t0.b          \* equal or narrower on both axes
      [] kind = "tta" -> Includes(env, t0) \/ ~Includes(env, t1)  \* codons known, or not wanted any more
      [] OTHER -> FALSE

NoTh(h) == [h EXCEPT !.th = NoThr]
Class(kind, env, c0, c1) ==
    LET h0 == HardView(kind, env, c0)
        h1 == HardView(kind, env, c1)
    IN  IF h0 = h1 THEN (IF SoftView(kind, c0) = SoftView(kind, c1) THEN "same" ELSE "soft")
        ELSE IF NoTh(h0) = NoTh(h1) /\ Convertible(kind, env, c0.thr, c1.thr) THEN "convert"
        ELSE "stale"
(* the name of a hard dimension that differs (for messages); schema and record first *)
FirstChanged(kind, env, c0, c1) ==
    LET h0 == HardView(kind, env, c0)
        h1 == HardView(kind, env, c1)
    IN  IF h0.schema # h1.schema THEN "schema_version"
        ELSE IF h0.rec # h1.rec THEN "record"
        ELSE IF h0.rs # h1.rs THEN "rule_set"
        ELSE IF h0.mu # h1.mu THEN "multipliers"
        ELSE IF h0.th # h1.th THEN "threshold"
        ELSE "nothing"

(* --- abstract results: a result *is* the context its content was made for ------------------------------ *)
Fresh(c) == [made |-> c]
Converted(r, c1) == [made |-> [r.made EXCEPT !.thr = c1.thr]]
JsonOf(kind, env, r) == [h |-> HardView(kind, env, r.made), s |-> SoftView(kind, r.made)]
EffectsOf(kind, env, r) == [HardView(kind, env, r.made) EXCEPT !.schema = 0]
ValidFor(kind, env, r, c) == HardView(kind, env, r.made) = HardView(kind, env, c)

(* what Regenerate may do with saved results r under the context c1 *)
Allowed(kind, env, r, c1) ==
    LET cls == Class(kind, env, r.made, c1) IN
    CASE cls = "same" -> {[o |-> "regenerated", r |-> r]}
      [] cls = "soft" -> {[o |-> "regenerated", r |-> r], [o |-> "dropped", r |-> r]}
      [] cls = "convert" -> {[o |-> "regenerated", r |-> Converted(r, c1)], [o |-> "dropped", r |-> r]}
      [] OTHER -> {[o |-> "dropped", r |-> r]}

(* implementation-shaped companion: a module that compares the recorded labels dimension by dimension,  *)
(* except the ones in `ignored` (a forgotten guard)                                                      *)
Mask(h, ignored) ==
    [rs |-> IF "rs" \in ignored THEN 0 ELSE h.rs,
     mu |-> IF "mu" \in ignored THEN 0 ELSE h.mu,
     th |-> IF "th" \in ignored THEN NoThr ELSE h.th,
     schema |-> IF "schema" \in ignored THEN 0 ELSE h.schema,
     rec |-> IF "rec" \in ignored THEN 0 ELSE h.rec]
ImplOutcome(kind, env, r, c1, ignored) ==
    LET h0 == Mask(HardView(kind, env, r.made), ignored)
        h1 == Mask(HardView(kind, env, c1), ignored)
    IN  IF h0 = h1 THEN [o |-> "regenerated", r |-> r]
        ELSE IF NoTh(h0) = NoTh(h1) /\ Convertible(kind, env, r.made.thr, c1.thr)
             THEN [o |-> "regenerated", r |-> Converted(r, c1)]
        ELSE [o |-> "dropped", r |-> r]

(* --- refilter band (HMMer results): hits are [a |-> 10 * score, b |-> -log10(evalue)] ------------------- *)
(* build_hits keeps score > min and evalue < max, refilter keeps >= / <= (both pinned by the repository's  *)
(* tests): strictly passing hits must stay, failing hits must go, hits exactly on a threshold either way    *)
StrictlyPasses(hit, t) == hit.a > t.a /\ hit.b > t.b
Passes(hit, t) == hit.a >= t.a /\ hit.b >= t.b
RefilterBandOK(hits, kept, t) ==
    /\ Len(kept) = Len(hits)
    /\ \A i \in DOMAIN hits : /\ StrictlyPasses(hits[i], t) => kept[i]
                              /\ kept[i] => Passes(hits[i], t)
=============================================================================
