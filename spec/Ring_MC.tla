------------------------------ MODULE Ring_MC ------------------------------
(* Generator + self-consistency of the set-of-bases oracle (property C04).   *)
(* Level 1 states (stage = 1) are the locations replayed against the code;   *)
(* level 2 states are all ordered pairs, on which the oracle is checked       *)
(* against itself so that it can be neither contradictory nor vacuous.        *)
EXTENDS Ring, TLC
CONSTANTS LenSet, WithIntrons, WithCrossIntrons
VARIABLES stage, R, a, b
vars == <<stage, R, a, b>>

Rings == [L : LenSet, circ : BOOLEAN]
Universe(r) == WithStrands(ArcParts(r) \cup CrossParts(r)
                           \cup (IF WithIntrons THEN IntronParts(r) ELSE {})
                           \cup (IF WithCrossIntrons THEN CrossIntronParts(r) ELSE {}), {1, -1})
Dummy == Simple(0, 1, 1)

Init == stage = 0 /\ R \in Rings /\ a = Dummy /\ b = Dummy
PickA == stage = 0 /\ stage' = 1 /\ a' \in Universe(R) /\ UNCHANGED <<R, b>>
PickB == stage = 1 /\ stage' = 2 /\ b' \in Universe(R) /\ UNCHANGED <<R, a>>
Next == PickA \/ PickB
Spec == Init /\ [][Next]_vars

Adjacent(r, x, y) == Abs(x - y) = 1 \/ (r.circ /\ Abs(x - y) = r.L - 1)

DistSymmetric == stage = 2 => Dist(R, a, b) = Dist(R, b, a)
OverlapIffShareBase == stage = 2 => (Overlaps(a, b) <=> \E x \in Bases(a) : x \in Bases(b))
DistZero == stage = 2 =>
    /\ Overlaps(a, b) => Dist(R, a, b) = 0
    /\ (Dist(R, a, b) = 0 /\ ~Overlaps(a, b)) => \E x \in Bases(a), y \in Bases(b) : Adjacent(R, x, y)
ContainsSubset == stage = 2 => (Contains(a, b) => Bases(b) \subseteq Bases(a))
ConnectSat == stage = 2 => ConnectOK(R, {a, b}, Cover(R, {a, b}))
ConnectIdem == stage = 2 => Cover(R, {Cover(R, {a, b})}) = Cover(R, {a, b})
ConnectSym == stage = 2 => Cover(R, {a, b}) = Cover(R, {b, a})
ExtendSat == (stage = 1 /\ IsSpan(R, a)) => \A d \in 0..R.L : ExtendOK(R, a, d, Extend(R, a, d))
ShiftSat == (stage = 1 /\ R.circ) => \A k \in (0 - R.L)..R.L : ShiftOK(R, a, k, Shift(R, a, k))
RotationInvariant == (stage = 2 /\ R.circ) =>
    /\ Dist(R, Shift(R, a, 1), Shift(R, b, 1)) = Dist(R, a, b)
    /\ Overlaps(Shift(R, a, 3), Shift(R, b, 3)) = Overlaps(a, b)
=============================================================================
